//! C08 – the displayed picture is the standard decode of the ULA-visible screen memory.
//!
//! Oracle: pure function (6912 bytes of the displayed bank, flash phase) -> 256x192 (colour,bright),
//! written from the formula in the statement. Observed: the canvas frame buffer after completed
//! frames. Screens are installed through every path the statement names: CPU stores through 0x4000
//! and (128K) through 0xC000 with bank 5/7 paged, LDIR, tape fast-load of a CODE block, SNA snapshot,
//! SCR screen file, pokes. The flash phase is not pinned by the statement: a frame must be entirely
//! normal or entirely swapped, and the phase must flip exactly every 16 frames. Beam-relative part:
//! a byte stored >= 2 lines before its fetch shows in the current frame, >= 2 lines after only in
//! the next one (positions in between are not judged).
use crate::host::{mem_asset, Cfg, Machine, RegFile};
use crate::json::J;
use crate::report::{par_map, Ctx, Evidence};
use crate::rng::Rng;
use rustzx_core::host::{BufferCursor, Screen, Snapshot, Tape};
use std::collections::HashSet;

/// standard decode; returns colour | bright<<3 per pixel
pub fn decode(scr: &[u8], flash_swapped: bool) -> Vec<u8> {
    let mut out = vec![0u8; 256 * 192];
    for y in 0..192usize {
        for x in 0..256usize {
            let off = ((y & 0xC0) << 5) | ((y & 7) << 8) | ((y & 0x38) << 2) | (x >> 3);
            let bit = scr[off] >> (7 - (x & 7)) & 1;
            let attr = scr[0x1800 + (y >> 3) * 32 + (x >> 3)];
            let (ink, paper) = (attr & 7, (attr >> 3) & 7);
            let bright = (attr >> 6) & 1;
            let flash = attr & 0x80 != 0;
            let on = (bit == 1) ^ (flash && flash_swapped);
            out[y * 256 + x] = if on { ink } else { paper } | bright << 3;
        }
    }
    out
}

/// compares the canvas with the decode under both flash phases; Some(phase) if one matches
fn matches(m: &Machine, scr: &[u8]) -> Option<bool> {
    let px = &m.emu.screen_buffer().px;
    for ph in [false, true] {
        if *px == decode(scr, ph) {
            return Some(ph);
        }
    }
    None
}

fn first_diff(m: &Machine, scr: &[u8]) -> String {
    let px = &m.emu.screen_buffer().px;
    let (a, b) = (decode(scr, false), decode(scr, true));
    let n0 = px.iter().zip(a.iter()).filter(|(x, y)| x != y).count();
    let n1 = px.iter().zip(b.iter()).filter(|(x, y)| x != y).count();
    let best = if n0 <= n1 { &a } else { &b };
    let i = px.iter().zip(best.iter()).position(|(x, y)| x != y).unwrap_or(0);
    format!("{} / {} pixels differ from the decode (normal/swapped flash); first at x={} y={}: canvas {:02x}, decode {:02x}", n0, n1, i % 256, i / 256, px[i], best[i])
}

pub fn random_screen(rng: &mut Rng) -> Vec<u8> {
    let mut s = rng.bytes(6912);
    match rng.below(6) {
        0 => {
            // structured: a single byte set, plain attributes
            for b in s.iter_mut().take(6144) {
                *b = 0;
            }
            let i = rng.below(6144) as usize;
            s[i] = rng.u8() | 1;
            let a = rng.u8();
            for b in s.iter_mut().skip(6144) {
                *b = a & 0x7F;
            }
        }
        1 => {
            // one third only
            let third = rng.below(3) as usize;
            for (i, b) in s.iter_mut().enumerate().take(6144) {
                if i / 2048 != third {
                    *b = 0;
                }
            }
        }
        2 => {
            // all BRIGHT/FLASH combinations, ink == paper somewhere
            for (i, b) in s.iter_mut().enumerate().skip(6144) {
                *b = ((i as u8) & 0xC0) | (rng.u8() & 0x3F);
                if i % 7 == 0 {
                    *b = (*b & 0xC0) | (*b & 7) << 3 | (*b & 7);
                }
            }
        }
        _ => {}
    }
    s
}

fn sna48(regs_sp: u16, ram: &[u8], border: u8) -> Vec<u8> {
    let mut v = vec![0u8; 27];
    v[19] = 0;
    v[23] = regs_sp as u8;
    v[24] = (regs_sp >> 8) as u8;
    v[25] = 1;
    v[26] = border;
    v.extend_from_slice(ram);
    v
}

fn sna128(pc: u16, port: u8, banks: &[Vec<u8>]) -> Vec<u8> {
    let mut v = vec![0u8; 27];
    v[23] = 0x00;
    v[24] = 0xBF;
    v[25] = 1;
    let n = (port & 7) as usize;
    v.extend_from_slice(&banks[5]);
    v.extend_from_slice(&banks[2]);
    v.extend_from_slice(&banks[n]);
    v.extend_from_slice(&[pc as u8, (pc >> 8) as u8, port, 0]);
    for b in [0usize, 1, 3, 4, 6, 7] {
        if b != n {
            v.extend_from_slice(&banks[b]);
        }
    }
    v
}

const PATHS: [&str; 12] = ["sna-then-flip", "scr-hidden-then-flip", "sna-bank7-shown", "ldir-4000", "ldir-c000-bank5", "ldir-c000-bank7-shown", "stores-4000", "fastload", "sna", "scr", "poke", "toggle-bank"];

/// puts the CPU into a quiet `JR $` loop with interrupts off
fn quiet(m: &mut Machine) {
    m.poke_bytes(0x8000, &[0x18, 0xFE]);
    let mut rf = RegFile::default();
    rf.pc = 0x8000;
    rf.sp = 0xBF00;
    m.set_regs(&rf);
    m.cpu().skip_interrupt = false;
}

/// run an emulated LDIR of the 6912 bytes placed at 0x9000 to `dst`, then go quiet
fn ldir_install(m: &mut Machine, scr: &[u8], dst: u16) {
    m.poke_bytes(0x9000, scr);
    m.poke_bytes(0x8000, &[0xED, 0xB0, 0x18, 0xFE]);
    let mut rf = RegFile::default();
    rf.pc = 0x8000;
    rf.sp = 0xBF00;
    rf.hl = 0x9000;
    rf.de = dst;
    rf.bc = 6912;
    m.set_regs(&rf);
    m.run_to(&[0x8002], 8);
    m.run_frames(1);
}

struct St {
    screens: u64,
    frames: u64,
    beam_cases: u64,
    beam_judged: u64,
    aged_frames: u64,
    paths: HashSet<String>,
    sample: Vec<J>,
}

fn install_and_check(ctx: &Ctx, rng: &mut Rng, is128: bool, path: &str, st: &mut St, case: u64) {
    let mut cfg = Cfg::of(is128);
    cfg.sound = false;
    cfg.fastload = true;
    cfg.init_mode = rng.below(4) as u8;
    let mut m = Machine::new(cfg);
    quiet(&mut m);
    m.run_frames(rng.below(3) as usize);
    let scr = random_screen(rng);
    let mut shown = scr.clone();
    let mut note = String::new();
    if is128 && path.starts_with("sna") && rng.bool() {
        // the receiving 128K machine is not fresh: other pictures sit in both screen banks (so the
        // display's decoded copies are stale for the snapshot) and either bank may be the shown one
        let p5 = random_screen(rng);
        let p7 = random_screen(rng);
        ldir_install(&mut m, &p5, 0x4000);
        m.out(0x7FFD, 7);
        ldir_install(&mut m, &p7, 0xC000);
        let prior = *rng.pick(&[0x08u8, 0x0F, 0x0B, 0x00, 0x07, 0x18, 0x28, 0x20]);
        m.out(0x7FFD, prior);
        quiet(&mut m);
        m.run_frames(1 + rng.below(2) as usize);
        note = format!("(receiver had latch {:02x} and other pictures in banks 5 and 7)", prior);
    }
    match path {
        "ldir-4000" => ldir_install(&mut m, &scr, 0x4000),
        "ldir-c000-bank5" => {
            if !is128 {
                return;
            }
            m.out(0x7FFD, 5);
            ldir_install(&mut m, &scr, 0xC000);
        }
        "ldir-c000-bank7-shown" => {
            if !is128 {
                return;
            }
            m.out(0x7FFD, 7 | 8);
            ldir_install(&mut m, &scr, 0xC000);
        }
        "toggle-bank" => {
            if !is128 {
                return;
            }
            // two different screens in banks 5 and 7, display toggled between frames
            let scr7 = random_screen(rng);
            ldir_install(&mut m, &scr, 0x4000);
            m.out(0x7FFD, 7);
            ldir_install(&mut m, &scr7, 0xC000);
            quiet(&mut m);
            for k in 0..6 {
                let show7 = k % 2 == 1;
                // the switch happens at the frame boundary or somewhere in the middle of a frame;
                // the frame in which it happens is not judged, every later quiet frame is
                if rng.bool() {
                    let tw = rng.below(m.frame_len() as u64 - 100) as usize;
                    while m.clock() + 12 <= tw {
                        m.step();
                    }
                }
                let at = m.clock();
                m.out(0x7FFD, if show7 { 8 } else { 0 } | (rng.below(8) as u8));
                m.run_frames(1);
                let quiet_frames = 1 + rng.below(5) as usize;
                for q in 0..quiet_frames {
                    m.run_frames(1);
                    st.frames += 1;
                    let want = if show7 { &scr7 } else { &scr };
                    if matches(&m, want).is_none() {
                        ctx.violation(
                            "canvas:128k:screen-bank-switch",
                            &format!("latch bit 3 set to {} at frame T={}; {} whole frame(s) later the canvas is not the decode of bank {}: {}", show7 as u8, at, q + 1, if show7 { 7 } else { 5 }, first_diff(&m, want)),
                            jobj! {"case"=>case,"path"=>path,"toggle"=>k,"t"=>at,"frames_after"=>q + 1},
                        );
                        return;
                    }
                }
            }
            st.screens += 1;
            st.paths.insert(format!("{}:{}", is128, path));
            return;
        }
        "stores-4000" => {
            // individual LD (nn),A stores in random order over a sparse subset + full clear first
            let zero = vec![0u8; 6912];
            ldir_install(&mut m, &zero, 0x4000);
            shown = zero;
            quiet(&mut m);
            for _ in 0..400 {
                let o = rng.below(6912) as usize;
                let v = rng.u8();
                m.cpu().regs.set_acc(v);
                let a = 0x4000 + o as u16;
                m.exec_at(0x8000, &[0x32, a as u8, (a >> 8) as u8], 1);
                shown[o] = v;
            }
            quiet(&mut m);
        }
        "fastload" => {
            // CODE block (flag FF) fast-loaded by the ROM's LD-BYTES trap to 16384
            let mut blk = vec![0xFFu8];
            blk.extend_from_slice(&scr);
            let ck = blk.iter().fold(0u8, |a, b| a ^ b);
            blk.push(ck);
            let mut tap = vec![(blk.len() & 0xFF) as u8, (blk.len() >> 8) as u8];
            tap.extend_from_slice(&blk);
            m.emu.load_tape(Tape::Tap(mem_asset(tap))).expect("load_tape");
            // 128K: the screen banks are also reachable through the 0xC000 window (bank 5, or
            // bank 7 which is then the displayed one)
            let mut dest = 0x4000u16;
            if is128 {
                let via = rng.below(3);
                let latch = match via {
                    0 => 0x10,            // ROM 1 (48 BASIC) holds LD-BYTES
                    1 => 0x10 | 5,        // bank 5 at 0xC000, normal screen shown
                    _ => 0x10 | 7 | 8,    // bank 7 at 0xC000, shadow screen shown
                };
                m.out(0x7FFD, latch);
                if via != 0 {
                    dest = 0xC000;
                    note = format!("(128K latch {:02x}, loaded through the 0xC000 window) ", latch);
                }
            }
            m.poke_bytes(0x8000, &[0x18, 0xFE]);
            m.poke_bytes(0xBEFE, &[0x00, 0x80]);
            let mut rf = RegFile::default();
            rf.pc = 0x0556;
            rf.sp = 0xBEFE;
            rf.af = 0xFF01;
            rf.ix = dest;
            rf.de = 6912;
            m.set_regs(&rf);
            if m.run_to(&[0x8000], 50).is_none() {
                ctx.inconclusive("fast load did not return within 50 frames (path fastload)");
                return;
            }
            let carry = m.regs().af & 1;
            note = format!("{}carry={}", note, carry);
            quiet(&mut m);
        }
        "sna" => {
            let data = if is128 {
                let mut banks: Vec<Vec<u8>> = (0..8).map(|_| vec![0u8; 16384]).collect();
                banks[5][..6912].copy_from_slice(&scr);
                banks[2][0] = 0x18;
                banks[2][1] = 0xFE;
                sna128(0x8000, 0x00, &banks)
            } else {
                let mut ram = vec![0u8; 49152];
                ram[..6912].copy_from_slice(&scr);
                ram[0x4000] = 0x18;
                ram[0x4001] = 0xFE;
                // PC on the stack at 0xBF00
                ram[0xBF00 - 0x4000] = 0x00;
                ram[0xBF01 - 0x4000] = 0x80;
                sna48(0xBF00, &ram, 3)
            };
            m.emu.load_snapshot(Snapshot::Sna(BufferCursor::new(data))).expect("sna load");
        }
        "sna-then-flip" => {
            // both screen banks hold pictures in the snapshot; the one hidden at load time must be
            // decoded too once bit 3 of the latch flips it into view (no CPU write in between)
            if !is128 {
                return;
            }
            let mut banks: Vec<Vec<u8>> = (0..8).map(|_| vec![0u8; 16384]).collect();
            let scr7 = random_screen(rng);
            banks[5][..6912].copy_from_slice(&scr);
            banks[7][..6912].copy_from_slice(&scr7);
            banks[2][0] = 0x18;
            banks[2][1] = 0xFE;
            let shown7 = rng.bool();
            let port = if shown7 { 8 } else { 0 } | *rng.pick(&[0u8, 1, 4, 6]);
            m.emu.load_snapshot(Snapshot::Sna(BufferCursor::new(sna128(0x8000, port, &banks)))).expect("sna load");
            m.run_frames(2);
            let first = if shown7 { &scr7 } else { &scr };
            if matches(&m, first).is_none() {
                ctx.violation("canvas:128k:sna-then-flip:visible-bank", &format!("after loading a 128K snapshot (latch {:02x}) {} the canvas is not the decode of the shown bank: {}", port, note, first_diff(&m, first)), jobj! {"case"=>case,"path"=>path});
                return;
            }
            for k in 0..3 {
                let now7 = if k % 2 == 0 { !shown7 } else { shown7 };
                m.out(0x7FFD, if now7 { 8 } else { 0 } | (port & 7));
                m.run_frames(2);
                st.frames += 2;
                let want = if now7 { &scr7 } else { &scr };
                if matches(&m, want).is_none() {
                    ctx.violation(
                        "canvas:128k:sna-then-flip:hidden-bank",
                        &format!("128K snapshot loaded with latch {:02x} {}; after flipping latch bit 3 to {} the canvas is not the decode of bank {}: {}", port, note, now7 as u8, if now7 { 7 } else { 5 }, first_diff(&m, want)),
                        jobj! {"case"=>case,"path"=>path,"flip"=>k},
                    );
                    return;
                }
            }
            st.screens += 1;
            st.paths.insert(format!("{}:{}", is128, path));
            return;
        }
        "scr-hidden-then-flip" => {
            // SCR loaded while bank 7 is displayed lands in bank 5; it must show after flipping back
            if !is128 {
                return;
            }
            let scr7 = random_screen(rng);
            m.out(0x7FFD, 7 | 8);
            ldir_install(&mut m, &scr7, 0xC000);
            quiet(&mut m);
            m.emu.load_screen(Screen::Scr(BufferCursor::new(scr.clone()))).expect("scr load");
            m.run_frames(2);
            if matches(&m, &scr7).is_none() {
                ctx.violation("canvas:128k:scr-hidden-then-flip:visible-bank", &format!("bank 7 is displayed; after an SCR load (which targets bank 5) the canvas is no longer the decode of bank 7: {}", first_diff(&m, &scr7)), jobj! {"case"=>case,"path"=>path});
                return;
            }
            // load_screen parks the CPU in a loop at 0x8000; flip the latch by poking code there
            m.out(0x7FFD, 7);
            m.run_frames(2);
            st.frames += 4;
            if matches(&m, &scr).is_none() {
                ctx.violation("canvas:128k:scr-hidden-then-flip:hidden-bank", &format!("SCR loaded while bank 7 was displayed; after switching the display back to bank 5 the canvas is not the decode of the file: {}", first_diff(&m, &scr)), jobj! {"case"=>case,"path"=>path});
                return;
            }
            st.screens += 1;
            st.paths.insert(format!("{}:{}", is128, path));
            return;
        }
        "sna-bank7-shown" => {
            if !is128 {
                return;
            }
            let mut banks: Vec<Vec<u8>> = (0..8).map(|_| vec![0u8; 16384]).collect();
            banks[7][..6912].copy_from_slice(&scr);
            let other = random_screen(rng);
            banks[5][..6912].copy_from_slice(&other);
            banks[2][0] = 0x18;
            banks[2][1] = 0xFE;
            let port = 8 | *rng.pick(&[0u8, 1, 3, 7]);
            let data = sna128(0x8000, port, &banks);
            m.emu.load_snapshot(Snapshot::Sna(BufferCursor::new(data))).expect("sna load");
        }
        "scr" => {
            m.emu.load_screen(Screen::Scr(BufferCursor::new(scr.clone()))).expect("scr load");
        }
        "poke" => {
            m.poke_bytes(0x4000, &scr);
        }
        _ => unreachable!(),
    }
    let quiet_frames = 2 + rng.below(3) as usize;
    if rng.chance(1, 4) && m.clock() < 100 {
        // the quiet frames pass the way a debugging, fast-forwarding host runs them
        if let Err(e) = m.run_frames_bp_then_max(quiet_frames) {
            ctx.inconclusive(&format!("C08: mixed-speed driving could not be set up: {}", e));
            return;
        }
        note = format!("{} [frames run as FrameCount(n)+breakpoint, then Max]", note);
    } else {
        m.run_frames(quiet_frames);
    }
    st.frames += quiet_frames as u64;
    st.screens += 1;
    st.paths.insert(format!("{}:{}", is128, path));
    if matches(&m, &shown).is_none() {
        ctx.violation(
            &format!("canvas:{}:{}", if is128 { "128k" } else { "48k" }, path),
            &format!("screen installed by path '{}' {}: after {} quiet frames the canvas is not its standard decode: {}", path, note, quiet_frames, first_diff(&m, &shown)),
            jobj! {"case"=>case,"is128"=>is128,"path"=>path,"screen_hex_head"=>crate::json::hex(&scr[..32])},
        );
        return;
    }
    if st.sample.len() < 3 {
        st.sample.push(jobj! {"path"=>path,"is128"=>is128,"quiet_frames"=>quiet_frames,"screen_head"=>crate::json::hex(&scr[..16])});
    }
    // a host operation that leaves the display file as it is leaves the picture as it is: take a
    // snapshot (48K: the SNA writer parks PC on the stack image meanwhile) with the stack inside or
    // outside the display file, then judge more frames
    if rng.chance(1, 3) {
        let mut rf = m.regs();
        rf.sp = if rng.chance(2, 3) { 0x4002 + rng.below(6908) as u16 } else { 0xBF00 };
        m.set_regs(&rf);
        let before: Vec<u8> = (0..6912u16).map(|i| m.peek(0x4000 + i)).collect();
        let mut rec = crate::host::VecRecorder { data: vec![], chunk: 0 };
        let r = crate::host::catch(|| m.emu.save_snapshot(rustzx_core::host::SnapshotRecorder::Sna(&mut rec)).is_ok());
        if r != Ok(true) {
            return; // saving is C13's business
        }
        let after: Vec<u8> = (0..6912u16).map(|i| m.peek(0x4000 + i)).collect();
        if before != after {
            return; // reported by C13 (side effect on memory)
        }
        let more = 1 + rng.below(3) as usize;
        m.run_frames(more);
        st.frames += more as u64;
        st.paths.insert(format!("{}:{}+save", is128, path));
        if matches(&m, &shown).is_none() {
            ctx.violation(
                &format!("canvas:{}:after-snapshot-save", if is128 { "128k" } else { "48k" }),
                &format!("screen installed by path '{}', SNA saved with SP={:04x} (display file unchanged by it): {} frame(s) later the canvas is not the standard decode: {}", path, rf.sp, more, first_diff(&m, &shown)),
                jobj! {"case"=>case,"is128"=>is128,"path"=>path,"sp"=>rf.sp},
            );
        }
    }
}

/// 128K: only banks 5 and 7 are display memory. Pictures are put into both, then other banks
/// (0, 1, 3, 4, 6) are paged at 0xC000 and their first 6912 bytes overwritten by LDIR or pokes while
/// either screen is shown; the canvas must stay the decode of the shown screen bank, also after the
/// other screen has been switched in.
fn foreign_bank_case(ctx: &Ctx, rng: &mut Rng, st: &mut St, case: u64) {
    let mut cfg = Cfg::of(true);
    cfg.sound = false;
    cfg.fastload = true;
    let mut m = Machine::new(cfg);
    quiet(&mut m);
    let p5 = random_screen(rng);
    let p7 = random_screen(rng);
    ldir_install(&mut m, &p5, 0x4000);
    m.out(0x7FFD, 7);
    ldir_install(&mut m, &p7, 0xC000);
    let mut show7 = rng.bool();
    let mut hist: Vec<String> = vec![];
    for _ in 0..(2 + rng.below(4)) {
        let b = *rng.pick(&[0u8, 1, 3, 4, 6, 6]);
        m.out(0x7FFD, b | if show7 { 8 } else { 0 });
        let noise = random_screen(rng);
        match rng.below(3) {
            0 => {
                ldir_install(&mut m, &noise, 0xC000);
                hist.push(format!("LDIR 6912 bytes into bank {} (screen {} shown)", b, if show7 { 7 } else { 5 }));
            }
            1 => {
                m.poke_bytes(0xC000, &noise);
                hist.push(format!("poke 6912 bytes into bank {} (screen {} shown)", b, if show7 { 7 } else { 5 }));
            }
            _ => {
                let from = rng.below(6000) as usize;
                let len = 1 + rng.below(900) as usize;
                m.poke_bytes(0xC000 + from as u16, &noise[from..from + len]);
                hist.push(format!("poke {} bytes at offset {:04x} of bank {} (screen {} shown)", len, from, b, if show7 { 7 } else { 5 }));
            }
        }
        if rng.bool() {
            show7 = !show7;
            m.out(0x7FFD, b | if show7 { 8 } else { 0 });
        }
    }
    quiet(&mut m);
    for pass in 0..2 {
        let q = 2 + rng.below(2) as usize;
        m.run_frames(q);
        st.frames += q as u64;
        st.screens += 1;
        let want = if show7 { &p7 } else { &p5 };
        if matches(&m, want).is_none() {
            ctx.violation(
                "canvas:128k:foreign-bank-write",
                &format!("after writes into RAM banks that are not display memory the canvas is not the standard decode of bank {} ({}): {}", if show7 { 7 } else { 5 }, if pass == 0 { "shown during the last write" } else { "switched in afterwards" }, first_diff(&m, want)),
                jobj! {"case"=>case,"stream"=>"foreign-bank","history"=>J::Arr(hist.iter().map(|h| J::from(h.as_str())).collect()),"shown_bank"=>if show7 { 7 } else { 5 }},
            );
            return;
        }
        show7 = !show7;
        let keep = m.emu.verif_paging().0 & 7;
        m.out(0x7FFD, keep | if show7 { 8 } else { 0 });
        quiet(&mut m);
    }
    st.paths.insert("true:foreign-bank-writes".into());
}

/// flash: phase uniform within a frame and flipping exactly every 16 frames
/// `aged`: the machine has displayed some 65,500 frames (22 minutes) before the judged run starts
fn flash_run(ctx: &Ctx, rng: &mut Rng, is128: bool, st: &mut St, aged: bool) {
    let mut m = Machine::new(Cfg { sound: false, ..Cfg::of(is128) });
    let mut scr = rng.bytes(6912);
    for (i, b) in scr.iter_mut().enumerate().skip(6144) {
        // half of the cells flash; ink != paper so that the phase is observable
        *b = (*b & 0x7F) | if i % 2 == 0 { 0x80 } else { 0 };
        if *b & 7 == (*b >> 3) & 7 {
            *b ^= 1;
        }
    }
    for b in scr.iter_mut().take(6144) {
        if *b == 0 || *b == 0xFF {
            *b = 0x5A;
        }
    }
    quiet(&mut m);
    ldir_install(&mut m, &scr, 0x4000);
    quiet(&mut m);
    if aged {
        // frames pass quickly: the frame clock is put just before each frame's end (hook)
        let fl = m.frame_len();
        let n = 65_300 + rng.below(400);
        for _ in 0..n {
            m.set_clock(fl - 4);
            m.run_frames(1);
        }
        st.aged_frames += n;
    }
    m.run_frames(2 + rng.below(20) as usize);
    let mut phases = vec![];
    // somewhere in the run the host reloads the very same machine state from a snapshot (SZX with
    // its frame position, or SNA): the bytes on screen do not change, so neither does the rhythm
    let reload_at = if rng.chance(3, 4) { Some(3 + rng.below(40)) } else { None };
    for f in 0..56 {
        if reload_at == Some(f) {
            let c = crate::spec_snap::capture(&mut m);
            let a = crate::spec_snap::Abs { is128, r: c.r, ei_last: false, border: c.border, latch: c.latch & 0x1F, pages: c.pages, ay: None, mouse: None, keyb: None, cycles: c.clock as u32, fe_hi: 0 };
            let ok = if rng.chance(2, 3) || !is128 && c.r.sp < 0x4002 {
                crate::spec_snap::load_szx(&mut m, &crate::spec_snap::write_szx(&a, &crate::spec_snap::SzxOpts::plain(), rng))
            } else {
                crate::spec_snap::load_sna(&mut m, &crate::spec_snap::write_sna(&a))
            };
            if !matches!(ok, Ok(Ok(()))) {
                return; // loaders are C14's and C15's business
            }
        }
        m.run_frames(1);
        st.frames += 1;
        match matches(&m, &scr) {
            Some(p) => phases.push(p),
            None => {
                ctx.violation("canvas:flash:mixed-phase", &format!("frame {}: FLASH cells are neither all normal nor all swapped: {}", f, first_diff(&m, &scr)), jobj! {"is128"=>is128,"frame"=>f,"state_reloaded_before_frame"=>reload_at.map(|x| x as i64).unwrap_or(-1)});
                return;
            }
        }
    }
    // run lengths between flips must be 16 (first and last partial)
    let mut runs = vec![];
    let mut len = 1;
    for w in phases.windows(2) {
        if w[0] == w[1] {
            len += 1;
        } else {
            runs.push(len);
            len = 1;
        }
    }
    runs.push(len);
    let inner_ok = runs.len() >= 3 && runs[1..runs.len() - 1].iter().all(|r| *r == 16) && runs[0] <= 16 && *runs.last().unwrap() <= 16;
    if !inner_ok {
        ctx.violation(if aged { "canvas:flash:period-after-65k-frames" } else { "canvas:flash:period" }, &format!("FLASH phase run lengths over 56 frames are {:?}; the phase must flip exactly every 16 frames{}", runs, reload_at.map(|x| format!(" (the same state was reloaded from a snapshot before frame {})", x)).unwrap_or_default()), jobj! {"is128"=>is128,"runs"=>format!("{:?}", runs)});
    }
}

/// beam-relative visibility of a single store
fn beam_case(ctx: &Ctx, rng: &mut Rng, is128: bool, st: &mut St, case: u64) {
    let mut m = Machine::new(Cfg { sound: false, ..Cfg::of(is128) });
    let (t0, line) = if is128 { (14362usize, 228usize) } else { (14336, 224) };
    let fr = m.frame_len();
    let mut scr = vec![0u8; 6912];
    for b in scr.iter_mut().skip(6144) {
        *b = 0x38; // black ink on white paper
    }
    quiet(&mut m);
    ldir_install(&mut m, &scr, 0x4000);
    quiet(&mut m);
    m.run_frames(2);
    for _ in 0..6 {
        let y = rng.below(192) as usize;
        let c = rng.below(32) as usize;
        let off = ((y & 0xC0) << 5) | ((y & 7) << 8) | ((y & 0x38) << 2) | c;
        let fetch = t0 + y * line + c * 4;
        // target write time
        let tw = rng.below(fr as u64 - 200) as usize + 50;
        // run the quiet loop until the clock reaches tw (12 T per step)
        quiet(&mut m);
        while m.clock() > tw {
            m.step();
        }
        while m.clock() + 12 <= tw {
            m.step();
        }
        let at = m.clock();
        let newv = !scr[off] | 0x81;
        let a = 0x4000 + off as u16;
        // the byte is changed either by an emulated store or by a host poke while the emulation is
        // stopped in the middle of the frame ("however the bytes got there")
        let by_poke = rng.chance(1, 3);
        if by_poke {
            m.poke(a, newv);
        } else {
            m.cpu().regs.set_acc(newv);
            m.exec_at(0x8000, &[0x32, a as u8, (a >> 8) as u8], 1);
        }
        let done = m.clock();
        let old = scr[off];
        scr[off] = newv;
        quiet(&mut m);
        // finish this frame
        m.run_frames(1);
        st.beam_cases += 1;
        let cell = |m: &Machine| -> Vec<u8> { (0..8).map(|i| m.emu.screen_buffer().px[y * 256 + c * 8 + i]).collect() };
        let dec = |v: u8| -> Vec<u8> { (0..8).map(|i| if v >> (7 - i) & 1 == 1 { 0 } else { 7 }).collect() };
        let got_now = cell(&m);
        m.run_frames(1);
        let got_next = cell(&m);
        let clearly_before = done + 2 * line <= fetch;
        let clearly_after = at >= fetch + 2 * line;
        if clearly_before || clearly_after {
            st.beam_judged += 1;
        }
        if clearly_before && got_now != dec(newv) {
            ctx.violation(if by_poke { "canvas:beam:late:poke" } else { "canvas:beam:late" }, &format!("byte at offset {:04x} (line {}, col {}) stored at T={}..{}, {} T before the beam fetches it (T={}), but the frame still shows the old value", off, y, c, at, done, fetch - done, fetch), jobj! {"case"=>case,"is128"=>is128,"t_write"=>at,"fetch"=>fetch});
            return;
        }
        if clearly_after && got_now != dec(old) {
            ctx.violation(if by_poke { "canvas:beam:early:poke" } else { "canvas:beam:early" }, &format!("byte at offset {:04x} (line {}, col {}) stored at T={}, {} T after the beam passed it (T={}), but the frame already shows the new value", off, y, c, at, at - fetch, fetch), jobj! {"case"=>case,"is128"=>is128,"t_write"=>at,"fetch"=>fetch});
            return;
        }
        if got_next != dec(newv) {
            ctx.violation("canvas:beam:lost", &format!("byte at offset {:04x} stored at T={} is not shown in the following frame", off, at), jobj! {"case"=>case,"is128"=>is128,"t_write"=>at,"fetch"=>fetch});
            return;
        }
    }
}

pub fn run(ctx: &Ctx) -> Evidence {
    let n = ctx.scale(1100, 40_000) as usize;
    let n_beam = ctx.scale(600, 20_000) as usize;
    let shards = 64usize;
    let res = par_map(ctx.jobs(), shards, |sh| {
        let mut st = St { screens: 0, frames: 0, beam_cases: 0, beam_judged: 0, aged_frames: 0, paths: HashSet::new(), sample: vec![] };
        for i in 0..(n / shards).max(1) {
            let case = (sh * (n / shards).max(1) + i) as u64;
            let mut rng = Rng::fork(ctx.seed ^ 0xC08, case);
            let path = PATHS[(case % PATHS.len() as u64) as usize];
            install_and_check(ctx, &mut rng, (case / PATHS.len() as u64) % 2 == 1, path, &mut st, case);
        }
        for i in 0..(n_beam / shards).max(1) {
            let case = (sh * (n_beam / shards).max(1) + i) as u64;
            let mut rng = Rng::fork(ctx.seed ^ 0xC08B, case);
            beam_case(ctx, &mut rng, case % 2 == 1, &mut st, case);
        }
        if sh < 16 {
            let mut rng = Rng::fork(ctx.seed ^ 0xC08F, sh as u64);
            flash_run(ctx, &mut rng, sh % 2 == 1, &mut st, false);
        }
        if (16..if ctx.quick() { 18 } else { 32 }).contains(&sh) {
            let mut rng = Rng::fork(ctx.seed ^ 0xC08_A6ED, sh as u64);
            flash_run(ctx, &mut rng, sh % 2 == 1, &mut st, true);
        }
        for i in 0..(n / shards / 8).max(2) {
            let case = (sh * (n / shards / 8).max(2) + i) as u64;
            let mut rng = Rng::fork(ctx.seed ^ 0xC08_F0, case);
            foreign_bank_case(ctx, &mut rng, &mut st, case);
        }
        st
    });
    let mut ev = Evidence::new("random and structured 6912-byte screens installed through 12 paths (LDIR to 0x4000, LDIR through 0xC000 with bank 5 / bank 7 shown, individual stores, tape fast-load of a CODE block, SNA snapshot, SCR file, pokes, screen-bank toggling) on 48K/128K, writes into the other RAM banks through 0xC000 while either screen is shown (128K), 2-4 quiet frames, canvas compared pixel-exactly with the standard decode (either flash phase, uniform per frame); 56-frame flash runs (flip exactly every 16); single stores at random beam times judged when >= 2 lines before/after the fetch. distinct = (machine, path) combinations exercised");
    let mut paths = HashSet::new();
    for r in res {
        ev.evaluations += r.screens + r.beam_cases;
        ev.add_num("screens_compared", r.screens);
        ev.add_num("frames_rendered", r.frames);
        ev.add_num("beam_cases", r.beam_cases);
        ev.add_num("beam_cases_judged", r.beam_judged);
        ev.add_num("frames_passed_before_aged_flash_runs", r.aged_frames);
        paths.extend(r.paths);
        for s in r.sample {
            ev.sample(s);
        }
    }
    ev.distinct_nontrivial = paths.len() as u64;
    ctx.require("(machine,path) combinations", paths.len() as u64, 18);
    ev.assumptions.push("flash phase is free (statement pins only the 16-frame period)".into());
    ev
}
