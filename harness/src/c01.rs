//! C01 – every Z80 instruction yields the architected register/flag/memory/IO result.
//! Real `Z80::emulate` on a logging bus vs the independent `refz80` model: registers, all flag
//! bits, MEMPTR, (Q through an SCF/CCF follower) and the ordered memory/port access list.
use crate::report::{Ctx, Evidence};
use crate::z80diff::Class;
use crate::z80work::*;

pub fn run(ctx: &Ctx) -> Evidence {
    let plan = Plan {
        sweeps: if ctx.quick() { 1 } else { 2 },
        per_encoding: ctx.scale(20_000, 1_000_000),
        sequences: ctx.scale(3_000_000, 100_000_000),
        irq_sequences: 0,
        directed_rounds: 0,
    };
    let st = run_plan(ctx, Class::Result, &plan);
    let mut ev = Evidence::new("every encoding (256 x {none,CB,ED,DD,FD,DDCB,FDCB}) from N biased-random states each (registers, F, Q in {0,F}, MEMPTR, operands, placements incl. address wrap), each followed by an SCF/CCF step exposing Q; plus random instruction sequences with state carried across; after EVERY step all registers/flags/MEMPTR/IFF/IM and the ordered access list are compared with the reference model. distinct = (page, opcode, taken/repeat) variants compared");
    fill_evidence(&mut ev, &st);
    qualify_reference(ctx, &mut ev);
    if ctx.replay.is_none() {
        ctx.require("encodings_hit", st.encodings.len() as u64, 1780);
        ctx.require("steps", st.steps, 100_000);
    }
    ev.assumptions.push("reference model refz80 (qualified against zexall/z80test CRC suites by `vcheck REFQUAL`)".into());
    ev.assumptions.push("don't-cares: F3/F5 of repeating block instructions placed at xxFF; reachable (Q,F) pairs only".into());
    ev
}
