//! Tape-side reference knowledge shared by the C10, C11 and C12 monitors. Everything here is written
//! from the TAP format description, the standard ROM loader waveform as spelled out in the C11
//! statement, and the ROM listing of LD-BYTES (0556h..05E2h) – not from rustzx.
//!
//! * `tap_image` / `mk_block`      – TAP writer (u16 LE length, then the bytes flag..checksum)
//! * `classify` + `WaveParser`     – incremental pulse classifier / block decoder over an edge log.
//!     Windows are `[nominal - slack, nominal + 32 + slack]`; `slack` is the *measurement*
//!     uncertainty of the observer (0 when the pulse generator is driven directly, the sampling
//!     period when EAR is sampled by emulated IN instructions). An edge time is the cumulative
//!     T-state count at the end of the bus-wait step after which the level was seen changed.
//! * `ld_bytes`                    – sequential model of the ROM's LD-BYTES
//! * request helpers               – call ROM 0556h on a `Machine` and capture the outcome at 053Fh
use crate::host::{DbgMode, Machine, RegFile};
use rustzx_core::EmulationMode;
use rustzx_core::EmulationStopReason;
use rustzx_core::host::BufferCursor;
use rustzx_core::verif::Tap;
use std::rc::Rc;
use std::time::Duration;

// ------------------------------------------------------------------------------------------------
// TAP writer
// ------------------------------------------------------------------------------------------------

/// flag + data + checksum (XOR of flag and data, optionally corrupted)
pub fn mk_block(flag: u8, data: &[u8], good_checksum: bool) -> Vec<u8> {
    let mut v = Vec::with_capacity(data.len() + 2);
    v.push(flag);
    v.extend_from_slice(data);
    let x = v.iter().fold(0u8, |a, b| a ^ b);
    v.push(if good_checksum { x } else { x ^ 0x5A });
    v
}

pub fn tap_image(blocks: &[Vec<u8>]) -> Vec<u8> {
    let mut v = vec![];
    for b in blocks {
        assert!(b.len() <= 0xFFFF);
        v.extend_from_slice(&(b.len() as u16).to_le_bytes());
        v.extend_from_slice(b);
    }
    v
}

// ------------------------------------------------------------------------------------------------
// Waveform constants (from the statement of C11)
// ------------------------------------------------------------------------------------------------
pub const PILOT: u64 = 2168;
pub const SYNC1: u64 = 667;
pub const SYNC2: u64 = 735;
pub const BIT0: u64 = 855;
pub const BIT1: u64 = 1710;
pub const PILOT_HEADER: u32 = 8063;
pub const PILOT_DATA_MIN: u32 = 3223;
pub const TOL: u64 = 32;
pub const SECOND: u64 = 3_500_000;
/// "a pause of about one second": 0.9 s .. 1.1 s
pub const PAUSE_MIN: u64 = SECOND * 9 / 10;
pub const PAUSE_MAX: u64 = SECOND * 11 / 10;

#[derive(Clone, Copy, PartialEq, Eq, Debug)]
pub enum Cls {
    Pilot = 0,
    Sync1 = 1,
    Sync2 = 2,
    Zero = 3,
    One = 4,
    Pause = 5,
}
pub const CLS_NAMES: [&str; 6] = ["pilot", "sync1", "sync2", "bit0", "bit1", "pause"];
const NOMINALS: [(Cls, u64); 5] = [(Cls::Sync1, SYNC1), (Cls::Sync2, SYNC2), (Cls::Zero, BIT0), (Cls::One, BIT1), (Cls::Pilot, PILOT)];

/// The pause window also admits a pause that absorbed the first pilot pulse of the next block.
pub fn classify(d: u64, slack: u64) -> Option<Cls> {
    for (c, n) in NOMINALS {
        if d + slack >= n && d <= n + TOL + slack {
            return Some(c);
        }
    }
    if d + slack >= PAUSE_MIN && d <= PAUSE_MAX + PILOT + TOL + slack {
        return Some(Cls::Pause);
    }
    None
}

/// name the violated window of an unclassifiable pulse: ("short"|"long", class)
pub fn nearest(d: u64) -> (&'static str, &'static str) {
    // a pulse shorter than nominal belongs to the next nominal above it; one that overshoots
    // belongs to the nominal below it, whichever is relatively closer
    let mut best = ("short", "sync1", f64::MAX);
    for (c, n) in NOMINALS.iter().copied().chain(std::iter::once((Cls::Pause, SECOND))) {
        let (kind, dist) = if d < n {
            ("short", (n - d) as f64 / n as f64)
        } else {
            ("long", (d - n) as f64 / n as f64)
        };
        if dist < best.2 {
            best = (kind, CLS_NAMES[c as usize], dist);
        }
    }
    (best.0, best.1)
}

/// Ideal pulse list of a tape (used only to *choose schedules*, never for verdicts)
pub fn ideal_pulses(blocks: &[Vec<u8>]) -> Vec<u32> {
    let mut v = vec![];
    for b in blocks {
        let n = if b.first().copied() == Some(0) { PILOT_HEADER } else { PILOT_DATA_MIN };
        for _ in 0..n {
            v.push(PILOT as u32);
        }
        v.push(SYNC1 as u32);
        v.push(SYNC2 as u32);
        for byte in b {
            for bit in (0..8).rev() {
                let l = if byte >> bit & 1 == 1 { BIT1 } else { BIT0 } as u32;
                v.push(l);
                v.push(l);
            }
        }
        v.push(SECOND as u32);
    }
    v
}

/// nominal duration of one block including its pause
pub fn nominal_block_time(b: &[u8]) -> u64 {
    let n = if b.first().copied() == Some(0) { PILOT_HEADER } else { PILOT_DATA_MIN } as u64;
    let ones: u64 = b.iter().map(|x| x.count_ones() as u64).sum();
    let zeros = b.len() as u64 * 8 - ones;
    n * PILOT + SYNC1 + SYNC2 + 2 * (ones * BIT1 + zeros * BIT0) + SECOND
}

// ------------------------------------------------------------------------------------------------
// Incremental waveform parser
// ------------------------------------------------------------------------------------------------
#[derive(Clone, Debug)]
pub struct PErr {
    /// symptom signature (narrow, stable)
    pub key: String,
    pub msg: String,
}
fn perr<T>(key: &str, msg: String) -> Result<T, PErr> {
    Err(PErr { key: key.to_string(), msg })
}

#[derive(Clone, Copy, PartialEq, Eq, Debug)]
pub enum Phase {
    /// nothing seen yet in this segment
    Lead,
    /// counting pilot pulses
    Pilot,
    /// sync1 seen
    Sync2,
    /// receiving bit pulses (or sitting in the pause after the last byte)
    Data,
}

#[derive(Clone, Debug, Default)]
pub struct WaveStats {
    pub pulses: [u64; 6],
    /// min / max of (observed - nominal) per class
    pub min_excess: [i64; 5],
    pub max_excess: [i64; 5],
    pub byte_seen: [u64; 4],
    pub bytes: u64,
    pub blocks: u64,
    pub header_blocks: u64,
    pub merged_first: u64,
    pub pause_min: u64,
    pub pause_max: u64,
}
impl WaveStats {
    pub fn new() -> Self {
        WaveStats { min_excess: [i64::MAX; 5], max_excess: [i64::MIN; 5], pause_min: u64::MAX, ..Default::default() }
    }
    pub fn merge(&mut self, o: &WaveStats) {
        for i in 0..6 {
            self.pulses[i] += o.pulses[i];
        }
        for i in 0..5 {
            self.min_excess[i] = self.min_excess[i].min(o.min_excess[i]);
            self.max_excess[i] = self.max_excess[i].max(o.max_excess[i]);
        }
        for i in 0..4 {
            self.byte_seen[i] |= o.byte_seen[i];
        }
        self.bytes += o.bytes;
        self.blocks += o.blocks;
        self.header_blocks += o.header_blocks;
        self.merged_first += o.merged_first;
        self.pause_min = self.pause_min.min(o.pause_min);
        self.pause_max = self.pause_max.max(o.pause_max);
    }
    pub fn distinct_bytes(&self) -> u64 {
        self.byte_seen.iter().map(|w| w.count_ones() as u64).sum()
    }
    pub fn total_pulses(&self) -> u64 {
        self.pulses.iter().sum()
    }
}

/// Decodes one *segment* of playing time: from a start of tape (fresh tape, rewind, or restart after
/// running off the end) onwards. The segment must read: optional silence, then the tape's blocks in
/// order, each `pilot^N sync1 sync2 (bit bit)^(8*len)` followed by a pause; a prefix is fine as
/// long as the segment is cut by the observer, not by the deck.
///
/// Pilot count rule: N == 8063 for flag 0x00, N >= 3223 otherwise. One pulse fewer is accepted where
/// the first pulse may have merged with the preceding silence: for every block after the first
/// (the pause is only "about" a second, so a merged pulse is not distinguishable), and for the first
/// block when the segment's leading silence is at least a pilot pulse long or ended in a lone
/// level change.
pub struct WaveParser {
    pub blocks: Rc<Vec<Vec<u8>>>,
    pub slack: u64,
    pub seg_start: u64,
    pub last_edge: Option<u64>,
    pub phase: Phase,
    /// index of the block being received
    pub block: usize,
    pub pilots: u32,
    lead_silence: u64,
    lead_skipped: bool,
    half: Option<Cls>,
    bits: u8,
    cur: u8,
    pub bytes_done: usize,
    pub edges: u64,
    pub stats: WaveStats,
}

impl WaveParser {
    pub fn new(blocks: Rc<Vec<Vec<u8>>>, slack: u64, t0: u64) -> Self {
        WaveParser {
            blocks,
            slack,
            seg_start: t0,
            last_edge: None,
            phase: Phase::Lead,
            block: 0,
            pilots: 0,
            lead_silence: 0,
            lead_skipped: false,
            half: None,
            bits: 0,
            cur: 0,
            bytes_done: 0,
            edges: 0,
            stats: WaveStats::new(),
        }
    }
    /// longest leading silence tolerated before the first pilot (statement is silent; one pause)
    fn lead_max(&self) -> u64 {
        PAUSE_MAX + PILOT + TOL + self.slack
    }
    /// all bytes of the current block received and at a byte boundary (so the pause is running)
    pub fn block_data_complete(&self) -> bool {
        self.phase == Phase::Data && self.half.is_none() && self.bits == 0 && self.block < self.blocks.len() && self.bytes_done == self.blocks[self.block].len()
    }
    /// every block of the tape has been decoded completely
    pub fn tape_complete(&self) -> bool {
        self.block + 1 == self.blocks.len() && self.block_data_complete()
    }
    pub fn blocks_done(&self) -> usize {
        self.block + self.block_data_complete() as usize
    }
    /// coarse position name for schedule targeting / witnesses
    pub fn position(&self, now: u64) -> &'static str {
        match self.phase {
            Phase::Lead => "lead",
            Phase::Pilot => "pilot",
            Phase::Sync2 => "sync",
            Phase::Data => {
                if self.block_data_complete() && now.saturating_sub(self.last_edge.unwrap_or(now)) > BIT1 + TOL + self.slack {
                    "pause"
                } else {
                    "data"
                }
            }
        }
    }
    /// longest time that may pass without an edge right now
    pub fn max_gap(&self) -> u64 {
        match self.phase {
            Phase::Lead => self.lead_max(),
            Phase::Pilot if self.pilots == 0 && !self.lead_skipped => self.lead_max(),
            Phase::Pilot => PILOT + TOL + self.slack,
            Phase::Sync2 => SYNC2 + TOL + self.slack,
            Phase::Data => {
                if self.block_data_complete() {
                    PAUSE_MAX + PILOT + TOL + self.slack
                } else {
                    BIT1 + TOL + self.slack
                }
            }
        }
    }
    fn ctx(&self) -> String {
        format!("block {} phase {:?} pilots {} bytes_done {} bit {}", self.block, self.phase, self.pilots, self.bytes_done, self.bits)
    }
    fn count(&mut self, c: Cls, d: u64) {
        self.stats.pulses[c as usize] += 1;
        if (c as usize) < 5 {
            let nom = [PILOT, SYNC1, SYNC2, BIT0, BIT1][c as usize] as i64;
            let e = d as i64 - nom;
            let i = c as usize;
            self.stats.min_excess[i] = self.stats.min_excess[i].min(e);
            self.stats.max_excess[i] = self.stats.max_excess[i].max(e);
        } else {
            self.stats.pause_min = self.stats.pause_min.min(d);
            self.stats.pause_max = self.stats.pause_max.max(d);
        }
    }
    /// no edge for too long while the deck is supposed to be playing
    pub fn tick(&self, now: u64) -> Result<(), PErr> {
        let since = now - self.last_edge.unwrap_or(self.seg_start);
        if self.tape_complete() {
            // the final pause has no closing edge; `deck_stopped` judges it
            if since > PAUSE_MAX + self.slack + 64 {
                return perr("no-stop-at-end", format!("{} T after the last pulse of the last block the deck is still running", since));
            }
            return Ok(());
        }
        if since > self.max_gap() {
            return perr("stall", format!("no level change for {} T (at most {} allowed) at {}", since, self.max_gap(), self.ctx()));
        }
        Ok(())
    }
    /// the deck reported that it stopped by itself (ran off the end)
    pub fn deck_stopped(&self, now: u64) -> Result<(), PErr> {
        if !self.tape_complete() {
            return perr("stopped-early", format!("deck stopped by itself before the whole tape was played: {}", self.ctx()));
        }
        let since = now - self.last_edge.unwrap_or(self.seg_start);
        if since > PAUSE_MAX + self.slack + 64 {
            return perr("no-stop-at-end", format!("deck stopped {} T after the last pulse (more than 1.1 s)", since));
        }
        Ok(())
    }
    fn check_pilot_count(&mut self, flag: u8) -> Result<(), PErr> {
        let merged_ok = self.block > 0 || self.lead_skipped || self.lead_silence + self.slack >= PILOT;
        let n = self.pilots;
        let ok = if flag == 0 {
            n == PILOT_HEADER || (merged_ok && n + 1 == PILOT_HEADER)
        } else {
            n >= PILOT_DATA_MIN || (merged_ok && n + 1 >= PILOT_DATA_MIN)
        };
        if !ok {
            return perr(
                "pilot-count",
                format!("block {} (flag {:02x}) was preceded by {} pilot pulses (first pulse may be merged: {})", self.block, flag, n, merged_ok),
            );
        }
        if (flag == 0 && n + 1 == PILOT_HEADER) || (flag != 0 && n + 1 == PILOT_DATA_MIN) {
            self.stats.merged_first += 1;
        }
        Ok(())
    }
    /// a level change observed at playing time `t`
    pub fn edge(&mut self, t: u64) -> Result<(), PErr> {
        self.edges += 1;
        let Some(prev) = self.last_edge else {
            self.lead_silence = t - self.seg_start;
            if self.lead_silence > self.lead_max() {
                return perr("stall", format!("first level change only after {} T of playing", self.lead_silence));
            }
            self.last_edge = Some(t);
            self.phase = Phase::Pilot;
            return Ok(());
        };
        let d = t - prev;
        self.last_edge = Some(t);
        let cls = classify(d, self.slack);
        match self.phase {
            Phase::Lead => unreachable!(),
            Phase::Pilot => {
                if self.block >= self.blocks.len() {
                    return perr("edge-after-last-block", format!("pulse of {} T after the last block of the tape", d));
                }
                match cls {
                    Some(Cls::Pilot) => {
                        self.pilots += 1;
                        self.count(Cls::Pilot, d);
                    }
                    Some(Cls::Sync1) if self.pilots > 0 => {
                        self.count(Cls::Sync1, d);
                        self.phase = Phase::Sync2;
                    }
                    _ if self.pilots == 0 && !self.lead_skipped && self.block == 0 && d <= self.lead_max() => {
                        // lone level change inside the leading silence (carries no information)
                        self.lead_skipped = true;
                    }
                    None => {
                        let (k, c) = nearest(d);
                        return perr(&format!("pulse-out-of-tolerance:{}:{}", k, c), format!("pulse of {} T in the pilot tone ({})", d, self.ctx()));
                    }
                    Some(c) => {
                        return perr("pilot-malformed", format!("{} pulse ({} T) inside the pilot tone ({})", CLS_NAMES[c as usize], d, self.ctx()));
                    }
                }
            }
            Phase::Sync2 => match cls {
                Some(Cls::Sync2) => {
                    self.count(Cls::Sync2, d);
                    self.phase = Phase::Data;
                    self.half = None;
                    self.bits = 0;
                    self.cur = 0;
                    self.bytes_done = 0;
                }
                None => {
                    let (k, c) = nearest(d);
                    return perr(&format!("pulse-out-of-tolerance:{}:{}", k, c), format!("pulse of {} T after sync1 ({})", d, self.ctx()));
                }
                Some(c) => return perr("sync-malformed", format!("sync1 followed by a {} pulse ({} T)", CLS_NAMES[c as usize], d)),
            },
            Phase::Data => match cls {
                Some(c @ (Cls::Zero | Cls::One)) => {
                    self.count(c, d);
                    match self.half {
                        None => self.half = Some(c),
                        Some(h) => {
                            if h != c {
                                return perr("bit-halves-differ", format!("the two pulses of a bit differ ({} then {} T class) at {}", CLS_NAMES[h as usize], CLS_NAMES[c as usize], self.ctx()));
                            }
                            self.half = None;
                            self.cur = self.cur << 1 | (c == Cls::One) as u8;
                            self.bits += 1;
                            if self.bits == 8 {
                                self.bits = 0;
                                let b = self.cur;
                                self.cur = 0;
                                let exp = &self.blocks[self.block];
                                if self.bytes_done >= exp.len() {
                                    return perr("block-too-long", format!("block {} carries more than its {} bytes", self.block, exp.len()));
                                }
                                if exp[self.bytes_done] != b {
                                    return perr(
                                        "byte-mismatch",
                                        format!("block {} byte {} decoded as {:02x}, tape has {:02x}", self.block, self.bytes_done, b, exp[self.bytes_done]),
                                    );
                                }
                                if self.bytes_done == 0 {
                                    self.check_pilot_count(b)?;
                                    if b == 0 {
                                        self.stats.header_blocks += 1;
                                    }
                                }
                                self.bytes_done += 1;
                                self.stats.bytes += 1;
                                self.stats.byte_seen[(b >> 6) as usize] |= 1u64 << (b & 63);
                            }
                        }
                    }
                }
                Some(Cls::Pause) => {
                    if !self.block_data_complete() {
                        return perr("block-too-short", format!("pause of {} T inside a block ({})", d, self.ctx()));
                    }
                    if self.block + 1 == self.blocks.len() {
                        return perr("edge-after-last-block", format!("level change {} T after the last block although the tape is over", d));
                    }
                    self.count(Cls::Pause, d);
                    self.stats.blocks += 1;
                    self.block += 1;
                    self.phase = Phase::Pilot;
                    self.pilots = 0;
                    self.bytes_done = 0;
                }
                None => {
                    let (k, c) = nearest(d);
                    return perr(&format!("pulse-out-of-tolerance:{}:{}", k, c), format!("pulse of {} T in the data ({})", d, self.ctx()));
                }
                Some(c) => return perr("data-malformed", format!("{} pulse ({} T) inside the data ({})", CLS_NAMES[c as usize], d, self.ctx())),
            },
        }
        Ok(())
    }
    /// account the last block when the deck stopped cleanly at the end
    pub fn note_final_block(&mut self) {
        self.stats.blocks += 1;
    }
}

// ------------------------------------------------------------------------------------------------
// Step partitions ("bus-wait steps of 1..16 T-states")
// ------------------------------------------------------------------------------------------------
#[derive(Clone, Copy, Debug, PartialEq, Eq)]
pub enum StepMode {
    All1,
    All16,
    Uniform,
    /// the wait sizes the machine typically issues (opcode fetch 4, memory 3, internal 1..2, io 4 …)
    MachineLike,
    /// steps of 16 arranged so that the generator's countdown is left at 0 or 1 before a 16 step
    Adversarial,
    /// small steps (1..3) – many calls per pulse
    Small,
}
pub const STEP_MODES: [StepMode; 6] = [StepMode::All1, StepMode::All16, StepMode::Uniform, StepMode::MachineLike, StepMode::Adversarial, StepMode::Small];

pub struct Stepper {
    pub mode: StepMode,
    rng: crate::rng::Rng,
    /// Adversarial: T-states until the next expected edge (from the ideal pulse list), if known
    pub to_edge: Option<i64>,
    adv_target: i64,
}
impl Stepper {
    pub fn new(mode: StepMode, rng: crate::rng::Rng) -> Self {
        Stepper { mode, rng, to_edge: None, adv_target: 0 }
    }
    /// tell the adversarial stepper the nominal length of the pulse that just started
    pub fn pulse_started(&mut self, nominal: Option<u32>) {
        if self.mode == StepMode::Adversarial {
            self.to_edge = nominal.map(|n| n as i64);
            // leave the countdown at 0, 1 or a random small value before the final big steps
            self.adv_target = *self.rng.pick(&[0i64, 1, 1, 2, 15, 16]);
        }
    }
    #[inline]
    pub fn next(&mut self) -> usize {
        let s = match self.mode {
            StepMode::All1 => 1,
            StepMode::All16 => 16,
            StepMode::Uniform => 1 + self.rng.below(16) as usize,
            StepMode::Small => 1 + self.rng.below(3) as usize,
            StepMode::MachineLike => *self.rng.pick(&[4usize, 3, 3, 4, 1, 1, 2, 5, 7, 8, 4, 3, 6, 4]),
            StepMode::Adversarial => match self.to_edge {
                Some(rem) if rem > self.adv_target => {
                    let want = rem - self.adv_target;
                    want.min(16) as usize
                }
                _ => 16,
            },
        };
        if let Some(r) = self.to_edge.as_mut() {
            *r -= s as i64;
        }
        s
    }
}

// ------------------------------------------------------------------------------------------------
// LD-BYTES model (ROM listing 0556h..05E2h)
// ------------------------------------------------------------------------------------------------
#[derive(Clone, Debug, PartialEq, Eq)]
pub struct LdOut {
    pub ix: u16,
    pub de: u16,
    pub carry: bool,
    /// stores performed, in order
    pub writes: Vec<(u16, u8)>,
    /// bytes of the block the routine looked at before it returned
    pub consumed: usize,
    /// which exit of the routine was taken: "de0" (parity test), "flag-mismatch", "verify-mismatch",
    /// "out-of-bytes"
    pub exit: &'static str,
}

/// What the ROM's LD-BYTES leaves behind after reading `block` (all bytes the tape carries for this
/// block: flag, data, checksum) when entered with A=`a`, carry=`load`, IX, DE.
///
/// 0556 INC D / EX AF,AF' / DEC D : Z' is set only when D was FFh – then the first byte is *not*
///      treated as a flag byte but as data.
/// 05C8.. each byte is assembled in L, H ^= L, then `LD A,D / OR E`: with DE == 0 the routine ends
///      with `LD A,H / CP 01` i.e. carry = (parity == 0) – before the byte is looked at in any
///      other way (so DE=0 returns after the very first byte).
/// 05A9 LD-LOOP: NZ' -> LD-FLAG: `XOR L / RET NZ` (carry reset, nothing advanced), else the flags
///      Z', C' are re-saved and the next byte is read with DE unchanged. Z' -> carry' set: store L at
///      (IX); reset: `LD A,(IX+0) / XOR L / RET NZ` (carry reset, IX/DE not advanced). Then INC IX,
///      DEC DE.
/// 05CA LD-8-BITS: `CALL LD-EDGE-2 / RET NC` – when the tape falls silent the routine returns with
///      carry reset and everything done so far left in place.
pub fn ld_bytes(block: &[u8], a: u8, load: bool, mut ix: u16, mut de: u16, read: &dyn Fn(u16) -> u8) -> LdOut {
    let mut flag_pending = (de >> 8) != 0xFF;
    let mut parity = 0u8;
    let mut writes = vec![];
    for (i, &l) in block.iter().enumerate() {
        parity ^= l;
        if de == 0 {
            return LdOut { ix, de, carry: parity == 0, writes, consumed: i + 1, exit: "de0" };
        }
        if flag_pending {
            if a ^ l != 0 {
                return LdOut { ix, de, carry: false, writes, consumed: i + 1, exit: "flag-mismatch" };
            }
            flag_pending = false;
            continue;
        }
        if load {
            writes.push((ix, l));
        } else if read(ix) != l {
            return LdOut { ix, de, carry: false, writes, consumed: i + 1, exit: "verify-mismatch" };
        }
        ix = ix.wrapping_add(1);
        de -= 1;
    }
    LdOut { ix, de, carry: false, writes, consumed: block.len(), exit: "out-of-bytes" }
}

// ------------------------------------------------------------------------------------------------
// Calling the ROM routine on a machine
// ------------------------------------------------------------------------------------------------
pub const LD_BYTES: u16 = 0x0556;
pub const SA_LD_RET: u16 = 0x053F;
/// The debug interface sees a PC only at the end of an instruction; the fast loader sets PC=053Fh
/// from outside, so on that path the first reported PC is 0540h (after `PUSH AF`, which changes
/// nothing that is compared). Break on both.
pub const RET_POINTS: [u16; 2] = [0x053F, 0x0540];
/// where the fake caller "lives" (never reached: the outcome is captured at SA/LD-RET, where the
/// interrupts are still disabled, so the IM1 handler cannot touch the system variables)
pub const RET_ADDR: u16 = 0x8003;
/// bytes below/above SP that belong to the stack and are excluded from memory comparison
pub const STACK_BELOW: u16 = 24;
pub const STACK_ABOVE: u16 = 4;

#[derive(Clone, Copy, Debug)]
pub struct LdReq {
    pub a: u8,
    pub load: bool,
    pub ix: u16,
    pub de: u16,
    pub sp: u16,
    /// other bits of F on entry (don't care for the routine)
    pub f_other: u8,
}
impl LdReq {
    pub fn to_json(&self) -> crate::json::J {
        jobj! {"A"=>self.a, "carry_LOAD"=>self.load, "IX"=>self.ix, "DE"=>self.de, "SP"=>self.sp, "F_other"=>self.f_other}
    }
}

pub fn issue_request(m: &mut Machine, r: &LdReq) {
    m.poke(r.sp, RET_ADDR as u8);
    m.poke(r.sp.wrapping_add(1), (RET_ADDR >> 8) as u8);
    let mut rf: RegFile = m.regs();
    rf.af = (r.a as u16) << 8 | (r.f_other & 0xFE) as u16 | r.load as u16;
    rf.ix = r.ix;
    rf.de = r.de;
    rf.sp = r.sp;
    rf.pc = LD_BYTES;
    rf.iy = 0x5C3A;
    rf.iff1 = false;
    rf.iff2 = false;
    rf.im = 1;
    rf.halted = false;
    m.set_regs(&rf);
}

#[derive(Debug, Clone, PartialEq, Eq)]
pub enum RunEnd {
    Hit(u16),
    Timeout,
    Error(String),
}

/// like `Machine::run_to` but reports emulation errors instead of panicking
pub fn run_until(m: &mut Machine, pcs: &[u16], max_frames: usize) -> RunEnd {
    m.dbg().mode = DbgMode::Set(pcs.to_vec());
    m.dbg().last_hit = None;
    m.emu.set_speed(EmulationMode::FrameCount(1));
    let mut frames = 0;
    while frames < max_frames {
        match m.emu.emulate_frames(Duration::from_secs(1000)) {
            Ok(r) => {
                if r.stop_reason == EmulationStopReason::Breakpoint {
                    return RunEnd::Hit(m.dbg().last_hit.unwrap_or(0));
                }
                frames += 1;
            }
            Err(e) => return RunEnd::Error(format!("{:?}", e)),
        }
    }
    RunEnd::Timeout
}

/// the 48 KiB visible at 4000h..FFFFh
pub fn ram_image(m: &Machine) -> Vec<u8> {
    let pages: [u8; 3] = if m.cfg.is128 { [5, 2, m.emu.verif_paging().0 & 7] } else { [0, 1, 2] };
    let mut v = Vec::with_capacity(0xC000);
    for p in pages {
        v.extend_from_slice(m.emu.verif_ram_page(p).expect("ram page"));
    }
    v
}

/// digest of the RAM banks that are not visible (128K only)
pub fn hidden_banks_digest(m: &Machine) -> u64 {
    let mut h = crate::rng::FNV_INIT;
    if m.cfg.is128 {
        let vis = [5u8, 2, m.emu.verif_paging().0 & 7];
        for p in 0..8u8 {
            if !vis.contains(&p) {
                crate::rng::fnv1a(&mut h, m.emu.verif_ram_page(p).expect("ram page"));
            }
        }
    }
    h
}

#[derive(Clone, Debug, PartialEq, Eq)]
pub struct LdObserved {
    pub ix: u16,
    pub de: u16,
    pub carry: bool,
    pub sp: u16,
}
/// registers at SA/LD-RET (053Fh) or one instruction later (0540h, after PUSH AF)
pub fn observe_at_ret(m: &mut Machine) -> LdObserved {
    let r = m.regs();
    let sp = if r.pc == 0x0540 { r.sp.wrapping_add(2) } else { r.sp };
    LdObserved { ix: r.ix, de: r.de, carry: r.af & 1 != 0, sp }
}
pub fn returned(e: &RunEnd) -> bool {
    matches!(e, RunEnd::Hit(pc) if RET_POINTS.contains(pc))
}

/// in the stack window of a request?
pub fn in_stack_window(addr: u16, sp: u16) -> bool {
    addr.wrapping_sub(sp.wrapping_sub(STACK_BELOW)) < STACK_BELOW + STACK_ABOVE
}

/// Compare RAM after a request with `pre` + the model's writes; returns the first differing
/// address outside the stack window as (addr, expected, observed).
pub fn diff_ram(pre: &[u8], post: &[u8], writes: &[(u16, u8)], sp: u16) -> Option<(u16, u8, u8)> {
    let mut exp = pre.to_vec();
    for &(a, v) in writes {
        if a >= 0x4000 {
            exp[a as usize - 0x4000] = v;
        }
    }
    if exp == post {
        return None;
    }
    for i in 0..exp.len() {
        let a = (i + 0x4000) as u16;
        if exp[i] != post[i] && !in_stack_window(a, sp) {
            return Some((a, exp[i], post[i]));
        }
    }
    None
}

/// a machine prepared for tape requests: ROM with the loader paged in, RAM filled from `fill`
pub fn tape_machine(is128: bool, fastload: bool, fill: &mut crate::rng::Rng) -> Machine {
    let mut cfg = crate::host::Cfg::of(is128);
    cfg.sound = false;
    cfg.fastload = fastload;
    cfg.autoload = false;
    let mut m = Machine::new(cfg);
    if is128 {
        // page in ROM 1 (48K BASIC, holds the loader) – bank 0 stays at C000h
        m.out(0x7FFD, 0x10);
    }
    let bg = fill.bytes(0xC000);
    m.poke_bytes(0x4000, &bg);
    m
}

// ------------------------------------------------------------------------------------------------
// Driving helpers shared by the monitors
// ------------------------------------------------------------------------------------------------
pub type MemTap = Tap<crate::host::DynAsset>;

/// The TAP image is handed to the deck through assets of different read behaviour: the asset
/// contract lets `read` return fewer bytes than asked for, so the waveform must not depend on it.
pub fn mem_tap(blocks: &[Vec<u8>]) -> MemTap {
    static TURN: std::sync::atomic::AtomicUsize = std::sync::atomic::AtomicUsize::new(0);
    let t = TURN.fetch_add(1, std::sync::atomic::Ordering::Relaxed);
    let img = tap_image(blocks);
    let asset = match t % 6 {
        0 | 1 => crate::host::DynAsset(Box::new(BufferCursor::new(img))),
        k => crate::host::DynAsset(Box::new(crate::host::ShortRead::new(img, [1usize, 3, 100, 509][k - 2]))),
    };
    Tap::from_asset(asset).expect("Tap::from_asset")
}

/// Emulated time counter for a machine (frames are detected by the frame clock wrapping)
pub struct Clock {
    pub total: u64,
    last: usize,
}
impl Clock {
    pub fn new(m: &Machine) -> Self {
        Clock { total: 0, last: m.clock() }
    }
    pub fn update(&mut self, m: &Machine) -> u64 {
        let c = m.clock();
        if c >= self.last {
            self.total += (c - self.last) as u64;
        } else {
            self.total += (c + m.frame_len() - self.last) as u64;
        }
        self.last = c;
        self.total
    }
}

/// Let emulated time pass (each emulated IN takes 12 T; nothing else runs) until EAR (bit 6 of port
/// FEh) has been constant for `quiet` T-states, or `max_t` T-states
/// have passed. Returns true when silence was found.
pub fn wait_for_silence(m: &mut Machine, quiet: u64, max_t: u64) -> bool {
    let mut clk = Clock::new(m);
    let mut last = m.inp(0xFEFE) & 0x40;
    let mut since = 0u64;
    let mut prev_t = 0u64;
    loop {
        let v = m.inp(0xFEFE) & 0x40;
        let t = clk.update(m);
        if v != last {
            last = v;
            since = 0;
        } else {
            since += t - prev_t;
        }
        prev_t = t;
        if since >= quiet {
            return true;
        }
        if t > max_t {
            return false;
        }
    }
}

/// request for the block `b` (may be None past the end of the tape)
pub fn gen_request(rng: &mut crate::rng::Rng, b: Option<&[u8]>, pre_mem: &mut dyn FnMut(u16, &[u8]), small: bool) -> LdReq {
    let blen = b.map(|x| x.len()).unwrap_or(0);
    let flag = b.and_then(|x| x.first().copied()).unwrap_or(0xFF);
    let a = if rng.chance(7, 10) { flag } else if rng.bool() { flag ^ (1 << rng.below(8)) } else { rng.u8() };
    let load = rng.chance(13, 20);
    let exact = blen.saturating_sub(2) as i64;
    let mut de: i64 = match rng.below(16) {
        0 => 0,
        1 => 1,
        2 => exact - 1,
        3 => exact + 1,
        4 => exact + 2,
        5 => rng.below(blen as u64 + 1) as i64,
        6 => exact + 1 + rng.below(300) as i64,
        7 if !small => 0xFF00 + rng.below(256) as i64,
        8 if !small => rng.u16() as i64,
        _ => exact,
    };
    de = de.clamp(0, 0xFFFF);
    let de = de as u16;
    // bytes that may be stored
    let span = (de as usize).min(blen) + 2;
    let ix: u16 = match rng.below(10) {
        0 => 0x4000u16.wrapping_sub(rng.below(span as u64 + 4) as u16), // from ROM into the screen
        1 => 0u16.wrapping_sub(rng.below(span as u64 + 4) as u16),      // wraps FFFFh -> 0000h
        2 => 0x4000 + rng.below(0x1B00) as u16,
        3 => rng.u16(),
        4 => 0xC000u16.wrapping_sub(rng.below(span as u64 + 2) as u16),
        _ => 0x5B00 + rng.below(0xA000) as u16,
    };
    // stack somewhere in uncontended RAM, clear of the stored range
    let mut sp = 0;
    for _ in 0..64 {
        let cand = 0x8100 + rng.below(0x7E00) as u16;
        let lo = cand.wrapping_sub(STACK_BELOW + 8);
        let hi = cand.wrapping_add(STACK_ABOVE + 8);
        let clear = ix.wrapping_sub(lo) > hi.wrapping_sub(lo) && lo.wrapping_sub(ix) as usize > span + 2;
        if clear {
            sp = cand;
            break;
        }
    }
    let (ix, de) = if sp == 0 {
        // nothing clear (huge request): fall back to a request that leaves the top of RAM alone
        sp = 0xFFC0;
        (0x4000u16, de.min(0xB000))
    } else {
        (ix, de)
    };
    // VERIFY: make the memory agree with the block (mostly), so that the compare path is walked
    if !load {
        if let Some(b) = b {
            if b.len() > 1 && rng.chance(4, 5) {
                let skip_flag = (de >> 8) != 0xFF;
                let src = if skip_flag { &b[1..] } else { b };
                let n = src.len().min(de as usize);
                let mut img = src[..n].to_vec();
                if !img.is_empty() && rng.chance(1, 3) {
                    let i = rng.below(img.len() as u64) as usize;
                    img[i] ^= 1 << rng.below(8);
                }
                // keep the stack window intact; never poke below 4000h (execute_poke writes into ROM)
                let clipped: Vec<(u16, u8)> = img
                    .iter()
                    .enumerate()
                    .map(|(i, v)| (ix.wrapping_add(i as u16), *v))
                    .filter(|(a, _)| *a >= 0x4000 && !in_stack_window(*a, sp))
                    .collect();
                for (a, v) in clipped {
                    pre_mem(a, &[v]);
                }
            }
        }
    }
    LdReq { a, load, ix, de, sp, f_other: rng.u8() }
}


/// Replay support: when `vcheck Cxx --replay <witness>` is used, the (stream, index) of the one case
/// named by the witness; the monitors then run only that case (coverage floors are waived).
pub fn replay_case(ctx: &crate::report::Ctx) -> Option<(String, u64)> {
    let d = ctx.replay.as_ref()?.get("details")?;
    if let Some(h) = d.get("history") {
        if let Some(n) = h.as_i64() {
            return Some((String::new(), n as u64));
        }
        let s = h.get("stream").and_then(|x| x.as_str()).unwrap_or("").to_string();
        return Some((s, h.get("history").and_then(|x| x.as_i64())? as u64));
    }
    let c = d.get("case")?;
    if let Some(n) = c.as_i64() {
        let stream = d.get("stream").and_then(|x| x.as_str()).unwrap_or("C11 system").to_string();
        return Some((stream, n as u64));
    }
    let s = c.get("stream").and_then(|x| x.as_str()).unwrap_or("").to_string();
    Some((s, c.get("tape_index").and_then(|x| x.as_i64())? as u64))
}
/// should case `i` of `stream` run?
pub fn selected(only: &Option<(String, u64)>, stream: &str, i: u64) -> bool {
    match only {
        None => true,
        Some((s, n)) => (s.is_empty() || s == stream) && *n == i,
    }
}
