//! Host implementation used by all full-machine monitors.
use crate::rng::{fnv1a, FNV_INIT};
use rustzx_core::{
    error::IoError,
    host::{
        BufferCursor, DataRecorder, DebugInterface, FrameBuffer, FrameBufferSource, Host, HostContext,
        IoExtender, LoadableAsset, RomFormat, RomSet, SeekFrom, SeekableAsset, Stopwatch,
    },
    poke::{Poke, PokeAction},
    zx::{
        machine::ZXMachine,
        sound::ay::ZXAYMode,
        video::colors::{ZXBrightness, ZXColor},
    },
    EmulationMode, EmulationStopReason, Emulator, RustzxSettings,
};
use rustzx_z80::{RegName16, RegName8};
use std::cell::RefCell;
use std::collections::HashMap;
use std::time::Duration;

// ---------------------------------------------------------------- frame buffer
pub struct PixFB {
    pub w: usize,
    pub h: usize,
    /// colour | bright<<3 ; 0xFF = never written
    pub px: Vec<u8>,
    pub writes: u64,
}

impl FrameBuffer for PixFB {
    type Context = ();
    fn new(width: usize, height: usize, _source: FrameBufferSource, _context: ()) -> Self {
        PixFB { w: width, h: height, px: vec![0xFF; width * height], writes: 0 }
    }
    fn set_color(&mut self, x: usize, y: usize, color: ZXColor, brightness: ZXBrightness) {
        self.px[y * self.w + x] = (color as u8) | ((brightness as u8) << 3);
        self.writes += 1;
    }
}

// ---------------------------------------------------------------- stopwatch
#[derive(Clone, Debug)]
pub enum SwScript {
    Zero,
    /// every reading is this many microseconds
    Const(u64),
    /// readings come from the list (cyclic), microseconds
    List(Vec<u64>),
}
thread_local! {
    static SW: RefCell<(SwScript, usize)> = RefCell::new((SwScript::Zero, 0));
}
pub fn set_stopwatch(s: SwScript) {
    SW.with(|c| *c.borrow_mut() = (s, 0));
}
pub struct ScriptSW;
impl Stopwatch for ScriptSW {
    fn new() -> Self {
        ScriptSW
    }
    fn measure(&self) -> Duration {
        SW.with(|c| {
            let mut c = c.borrow_mut();
            let i = c.1;
            c.1 += 1;
            match &c.0 {
                SwScript::Zero => Duration::from_micros(0),
                SwScript::Const(us) => Duration::from_micros(*us),
                SwScript::List(v) => Duration::from_micros(v[i % v.len()]),
            }
        })
    }
}

// ---------------------------------------------------------------- io extender
#[derive(Clone, Debug, PartialEq, Eq)]
pub struct ExtAccess {
    pub write: bool,
    pub port: u16,
    pub data: u8,
}
pub struct LogExt {
    /// claimed iff (port & mask) == value for any pair
    pub claims: Vec<(u16, u16)>,
    pub log: Vec<ExtAccess>,
    /// value returned for reads: f(port)
    pub read_xor: u8,
}
impl LogExt {
    pub fn new(claims: Vec<(u16, u16)>) -> Self {
        LogExt { claims, log: vec![], read_xor: 0xA5 }
    }
    pub fn read_value(&self, port: u16) -> u8 {
        (port as u8) ^ ((port >> 8) as u8) ^ self.read_xor
    }
    pub fn claims_port(&self, port: u16) -> bool {
        self.claims.iter().any(|(m, v)| port & m == *v)
    }
}
impl IoExtender for LogExt {
    fn write(&mut self, port: u16, data: u8) {
        self.log.push(ExtAccess { write: true, port, data });
    }
    fn read(&mut self, port: u16) -> u8 {
        let v = self.read_value(port);
        self.log.push(ExtAccess { write: false, port, data: v });
        v
    }
    fn extends_port(&self, port: u16) -> bool {
        self.claims_port(port)
    }
}

// ---------------------------------------------------------------- debug interface
#[derive(Clone, Debug)]
pub enum DbgMode {
    Never,
    Always,
    Set(Vec<u16>),
    /// break on every k-th call
    EveryK(u64),
    /// break when the call counter reaches one of these absolute values (sorted)
    AtCalls(Vec<u64>),
}
pub struct Dbg {
    pub mode: DbgMode,
    pub calls: u64,
    pub count_pcs: bool,
    pub pc_counts: HashMap<u16, u64>,
    pub last_hit: Option<u16>,
}
impl Dbg {
    pub fn new(mode: DbgMode) -> Self {
        Dbg { mode, calls: 0, count_pcs: false, pc_counts: HashMap::new(), last_hit: None }
    }
}
impl DebugInterface for Dbg {
    fn check_pc_breakpoint(&mut self, addr: u16) -> bool {
        self.calls += 1;
        if self.count_pcs {
            *self.pc_counts.entry(addr).or_insert(0) += 1;
        }
        let hit = match &self.mode {
            DbgMode::Never => false,
            DbgMode::Always => true,
            DbgMode::Set(v) => v.contains(&addr),
            DbgMode::EveryK(k) => self.calls % *k == 0,
            DbgMode::AtCalls(v) => v.binary_search(&self.calls).is_ok(),
        };
        if hit {
            self.last_hit = Some(addr);
        }
        hit
    }
}

// ---------------------------------------------------------------- assets
pub trait AssetT: LoadableAsset + SeekableAsset {}
impl<T: LoadableAsset + SeekableAsset> AssetT for T {}
pub struct DynAsset(pub Box<dyn AssetT>);
impl LoadableAsset for DynAsset {
    fn read(&mut self, buf: &mut [u8]) -> Result<usize, IoError> {
        self.0.read(buf)
    }
}
impl SeekableAsset for DynAsset {
    fn seek(&mut self, pos: SeekFrom) -> Result<usize, IoError> {
        self.0.seek(pos)
    }
}
pub fn mem_asset(data: Vec<u8>) -> DynAsset {
    DynAsset(Box::new(BufferCursor::new(data)))
}

/// In-memory asset that follows the documented contract (`Ok(0)` at EOF) and returns at most
/// `chunk` bytes per read.
pub struct ShortRead {
    pub data: Vec<u8>,
    pub pos: usize,
    pub chunk: usize,
    pub reads: u64,
    pub seeks: u64,
}
impl ShortRead {
    pub fn new(data: Vec<u8>, chunk: usize) -> Self {
        ShortRead { data, pos: 0, chunk: chunk.max(1), reads: 0, seeks: 0 }
    }
}
impl LoadableAsset for ShortRead {
    fn read(&mut self, buf: &mut [u8]) -> Result<usize, IoError> {
        self.reads += 1;
        if self.pos >= self.data.len() {
            return Ok(0);
        }
        let n = buf.len().min(self.chunk).min(self.data.len() - self.pos);
        buf[..n].copy_from_slice(&self.data[self.pos..self.pos + n]);
        self.pos += n;
        Ok(n)
    }
}
impl SeekableAsset for ShortRead {
    fn seek(&mut self, pos: SeekFrom) -> Result<usize, IoError> {
        self.seeks += 1;
        let np = match pos {
            SeekFrom::Start(p) => p as isize,
            SeekFrom::End(p) => self.data.len() as isize + p,
            SeekFrom::Current(p) => self.pos as isize + p,
        };
        if np < 0 {
            return Err(IoError::SeekBeforeStart);
        }
        self.pos = np as usize;
        Ok(self.pos)
    }
}

/// Asset whose n-th operation (reads and seeks counted together, from 0) fails.
pub struct Faulty {
    pub inner: ShortRead,
    pub ops: std::rc::Rc<std::cell::Cell<u64>>,
    pub fail_at: u64,
    /// 0 = Err(HostAssetImplFailed), 1 = premature EOF (Ok(0)) for reads, 2 = Err(UnexpectedEof)
    pub kind: u8,
    /// keep failing after the first failure
    pub sticky: bool,
}
impl Faulty {
    fn hit(&mut self) -> bool {
        let n = self.ops.get();
        self.ops.set(n + 1);
        n == self.fail_at || (self.sticky && n > self.fail_at)
    }
}
impl LoadableAsset for Faulty {
    fn read(&mut self, buf: &mut [u8]) -> Result<usize, IoError> {
        if self.hit() {
            return match self.kind {
                1 => Ok(0),
                2 => Err(IoError::UnexpectedEof),
                _ => Err(IoError::HostAssetImplFailed),
            };
        }
        self.inner.read(buf)
    }
}
impl SeekableAsset for Faulty {
    fn seek(&mut self, pos: SeekFrom) -> Result<usize, IoError> {
        if self.hit() {
            return Err(IoError::HostAssetImplFailed);
        }
        self.inner.seek(pos)
    }
}

/// In-memory recorder
#[derive(Default)]
pub struct VecRecorder {
    pub data: Vec<u8>,
    pub chunk: usize,
}
impl DataRecorder for &mut VecRecorder {
    fn write(&mut self, buf: &[u8]) -> Result<usize, IoError> {
        let n = if self.chunk == 0 { buf.len() } else { buf.len().min(self.chunk) };
        self.data.extend_from_slice(&buf[..n]);
        Ok(n)
    }
}

/// recorder that gives up after `limit` bytes: kind 0 = Err(HostAssetImplFailed), 1 = Ok(0) (full)
pub struct FailingRecorder {
    pub data: Vec<u8>,
    pub limit: usize,
    pub kind: u8,
}
impl DataRecorder for &mut FailingRecorder {
    fn write(&mut self, buf: &[u8]) -> Result<usize, IoError> {
        let room = self.limit.saturating_sub(self.data.len());
        if room == 0 {
            return if self.kind == 0 { Err(IoError::HostAssetImplFailed) } else { Ok(0) };
        }
        let n = buf.len().min(room);
        self.data.extend_from_slice(&buf[..n]);
        Ok(n)
    }
}

pub struct VecRomSet {
    pub pages: Vec<Vec<u8>>,
    pub next: usize,
}
impl RomSet for VecRomSet {
    type Asset = BufferCursor<Vec<u8>>;
    fn format(&self) -> RomFormat {
        RomFormat::Binary16KPages
    }
    fn next_asset(&mut self) -> Option<Self::Asset> {
        let p = self.pages.get(self.next).cloned();
        self.next += 1;
        p.map(BufferCursor::new)
    }
}

/// ROM set whose page assets deliver at most `chunk` bytes per read
pub struct ShortRomSet {
    pub pages: Vec<Vec<u8>>,
    pub next: usize,
    pub chunk: usize,
}
impl RomSet for ShortRomSet {
    type Asset = ShortRead;
    fn format(&self) -> RomFormat {
        RomFormat::Binary16KPages
    }
    fn next_asset(&mut self) -> Option<Self::Asset> {
        let p = self.pages.get(self.next).cloned();
        self.next += 1;
        p.map(|d| ShortRead::new(d, self.chunk))
    }
}

// ---------------------------------------------------------------- host
pub struct VCtx;
impl HostContext<VHost> for VCtx {
    fn frame_buffer_context(&self) {}
}
pub struct VHost;
impl Host for VHost {
    type Context = VCtx;
    type TapeAsset = DynAsset;
    type FrameBuffer = PixFB;
    type EmulationStopwatch = ScriptSW;
    type IoExtender = LogExt;
    type DebugInterface = Dbg;
}

pub struct OnePoke(pub Vec<PokeAction>);
impl Poke for OnePoke {
    fn actions(&self) -> &[PokeAction] {
        &self.0
    }
}

#[derive(Clone, Copy, Debug)]
pub struct Cfg {
    pub is128: bool,
    pub kempston: bool,
    pub mouse: bool,
    pub ay: bool,
    pub ay_mode: u8,
    pub beeper: bool,
    pub sound: bool,
    pub volume: u8,
    pub rate: usize,
    pub default_rom: bool,
    pub fastload: bool,
    pub autoload: bool,
    /// speed mode the emulator is *constructed* with: 0 = FrameCount(1), 1 = FrameCount(2),
    /// 2 = FrameCount(3), 3 = Max; `Machine::new` switches to FrameCount(1) straight away
    /// (`set_speed`), so the value must not matter
    pub init_mode: u8,
}
impl Cfg {
    pub fn m48() -> Cfg {
        Cfg {
            is128: false,
            kempston: false,
            mouse: false,
            ay: false,
            ay_mode: 1,
            beeper: true,
            sound: true,
            volume: 100,
            rate: 44100,
            default_rom: true,
            fastload: false,
            autoload: false,
            init_mode: 0,
        }
    }
    pub fn m128() -> Cfg {
        Cfg { is128: true, ay: true, ..Cfg::m48() }
    }
    pub fn of(is128: bool) -> Cfg {
        if is128 { Cfg::m128() } else { Cfg::m48() }
    }
    pub fn settings(&self) -> RustzxSettings {
        RustzxSettings {
            machine: if self.is128 { ZXMachine::Sinclair128K } else { ZXMachine::Sinclair48K },
            emulation_mode: match self.init_mode {
                0 => EmulationMode::FrameCount(1),
                1 => EmulationMode::FrameCount(2),
                2 => EmulationMode::FrameCount(3),
                _ => EmulationMode::Max,
            },
            tape_fastload_enabled: self.fastload,
            kempston_enabled: self.kempston,
            mouse_enabled: self.mouse,
            ay_mode: match self.ay_mode {
                0 => ZXAYMode::Mono,
                1 => ZXAYMode::ABC,
                _ => ZXAYMode::ACB,
            },
            ay_enabled: self.ay,
            beeper_enabled: self.beeper,
            sound_enabled: self.sound,
            sound_volume: self.volume,
            sound_sample_rate: self.rate,
            load_default_rom: self.default_rom,
            autoload_enabled: self.autoload,
        }
    }
}

/// Architected register file (plus what the hooks let us see)
#[derive(Clone, Copy, Debug, PartialEq, Eq, Default)]
pub struct RegFile {
    pub af: u16,
    pub bc: u16,
    pub de: u16,
    pub hl: u16,
    pub af_: u16,
    pub bc_: u16,
    pub de_: u16,
    pub hl_: u16,
    pub ix: u16,
    pub iy: u16,
    pub sp: u16,
    pub pc: u16,
    pub i: u8,
    pub r: u8,
    pub iff1: bool,
    pub iff2: bool,
    pub im: u8,
    pub halted: bool,
    pub memptr: u16,
}

pub fn read_regs(cpu: &mut rustzx_z80::Z80) -> RegFile {
    let r = &mut cpu.regs;
    let mut f = RegFile::default();
    f.af = r.get_af();
    f.bc = r.get_bc();
    f.de = r.get_de();
    f.hl = r.get_hl();
    r.exx();
    r.swap_af_alt();
    f.af_ = r.get_af();
    f.bc_ = r.get_bc();
    f.de_ = r.get_de();
    f.hl_ = r.get_hl();
    r.exx();
    r.swap_af_alt();
    f.ix = r.get_ix();
    f.iy = r.get_iy();
    f.sp = r.get_sp();
    f.pc = r.get_pc();
    f.i = r.get_i();
    f.r = r.get_r();
    f.iff1 = r.get_iff1();
    f.iff2 = r.get_iff2();
    f.memptr = r.get_mem_ptr();
    f.im = cpu.get_im().into();
    f.halted = cpu.halted;
    f
}

/// Writes the register file. F is written with `set_reg_8` so the Q latch is not touched.
pub fn write_regs(cpu: &mut rustzx_z80::Z80, f: &RegFile) {
    let r = &mut cpu.regs;
    r.exx();
    r.swap_af_alt();
    r.set_reg_16(RegName16::AF, f.af_);
    r.set_bc(f.bc_);
    r.set_de(f.de_);
    r.set_hl(f.hl_);
    r.exx();
    r.swap_af_alt();
    r.set_reg_16(RegName16::AF, f.af);
    r.set_bc(f.bc);
    r.set_de(f.de);
    r.set_hl(f.hl);
    r.set_ix(f.ix);
    r.set_iy(f.iy);
    r.set_sp(f.sp);
    r.set_pc(f.pc);
    r.set_i(f.i);
    r.set_r(f.r);
    r.set_iff1(f.iff1);
    r.set_iff2(f.iff2);
    r.set_mem_ptr(f.memptr);
    let _ = RegName8::A;
    cpu.set_im(f.im.min(2));
    cpu.halted = f.halted;
}

pub struct Machine {
    pub emu: Emulator<VHost>,
    pub cfg: Cfg,
}

pub const FRAME_48: usize = 69888;
pub const FRAME_128: usize = 70908;

impl Machine {
    pub fn new(cfg: Cfg) -> Machine {
        let mut emu = Emulator::<VHost>::new(cfg.settings(), VCtx).expect("emulator construction");
        emu.set_debug_interface(Dbg::new(DbgMode::Never));
        if cfg.init_mode != 0 {
            emu.set_speed(EmulationMode::FrameCount(1));
        }
        Machine { emu, cfg }
    }
    pub fn frame_len(&self) -> usize {
        if self.cfg.is128 { FRAME_128 } else { FRAME_48 }
    }
    pub fn line_len(&self) -> usize {
        if self.cfg.is128 { 228 } else { 224 }
    }
    pub fn dbg(&mut self) -> &mut Dbg {
        self.emu.debug_interface().unwrap()
    }
    pub fn clock(&self) -> usize {
        self.emu.verif_frame_clocks()
    }
    pub fn set_clock(&mut self, c: usize) {
        self.emu.verif_set_frame_clocks(c)
    }
    pub fn regs(&mut self) -> RegFile {
        read_regs(self.emu.verif_cpu())
    }
    pub fn set_regs(&mut self, f: &RegFile) {
        write_regs(self.emu.verif_cpu(), f)
    }
    pub fn cpu(&mut self) -> &mut rustzx_z80::Z80 {
        self.emu.verif_cpu()
    }
    /// execute exactly one `Z80::emulate` call
    pub fn step(&mut self) -> EmulationStopReason {
        self.dbg().mode = DbgMode::Always;
        self.emu.set_speed(EmulationMode::FrameCount(1));
        let r = self.emu.emulate_frames(Duration::from_secs(1000)).expect("emulate_frames");
        r.stop_reason
    }
    pub fn step_res(&mut self) -> rustzx_core::Result<EmulationStopReason> {
        self.dbg().mode = DbgMode::Always;
        self.emu.set_speed(EmulationMode::FrameCount(1));
        self.emu.emulate_frames(Duration::from_secs(1000)).map(|r| r.stop_reason)
    }
    /// run n whole frames (one call each, so audio is produced)
    pub fn run_frames(&mut self, n: usize) {
        self.dbg().mode = DbgMode::Never;
        self.emu.set_speed(EmulationMode::FrameCount(1));
        for _ in 0..n {
            self.emu.emulate_frames(Duration::from_secs(1000)).expect("emulate_frames");
        }
    }
    /// `n` (>= 2) frames the way a debugging, fast-forwarding host may run them: a FrameCount(n)
    /// pass interrupted by a breakpoint early in its first frame, then maximum-speed mode until the
    /// (scripted) stopwatch runs out after n frame ends, then back to one frame per call. Must be
    /// started on a frame boundary by a program that runs at least 40 instructions per frame.
    pub fn run_frames_bp_then_max(&mut self, n: usize) -> Result<(), String> {
        self.dbg().calls = 0;
        self.dbg().mode = DbgMode::AtCalls(vec![40]);
        self.emu.set_speed(EmulationMode::FrameCount(n));
        let r = self.emu.emulate_frames(Duration::from_secs(1000)).map_err(|e| format!("{:?}", e))?;
        if r.stop_reason != EmulationStopReason::Breakpoint {
            return Err("expected a breakpoint stop in the first frame of the pass".into());
        }
        self.dbg().mode = DbgMode::Never;
        let mut v: Vec<u64> = vec![0; n - 1];
        v.extend_from_slice(&[9_000_000, u64::MAX / 4, 3]);
        set_stopwatch(SwScript::List(v));
        self.emu.set_speed(EmulationMode::Max);
        let r = self.emu.emulate_frames(Duration::from_micros(1000)).map_err(|e| format!("{:?}", e));
        set_stopwatch(SwScript::Zero);
        self.emu.set_speed(EmulationMode::FrameCount(1));
        match r {
            Ok(i) if i.stop_reason == EmulationStopReason::Timeout => Ok(()),
            Ok(_) => Err("Max mode returned without Timeout".into()),
            Err(e) => Err(e),
        }
    }
    /// run until PC is in `pcs` or `max_frames` frames completed; returns Some(pc) on hit
    pub fn run_to(&mut self, pcs: &[u16], max_frames: usize) -> Option<u16> {
        self.dbg().mode = DbgMode::Set(pcs.to_vec());
        self.dbg().last_hit = None;
        self.emu.set_speed(EmulationMode::FrameCount(1));
        let mut frames = 0;
        while frames < max_frames {
            let r = self.emu.emulate_frames(Duration::from_secs(1000)).expect("emulate_frames");
            if r.stop_reason == EmulationStopReason::Breakpoint {
                return self.dbg().last_hit;
            }
            frames += 1;
        }
        None
    }
    pub fn poke(&mut self, addr: u16, value: u8) {
        self.emu.execute_poke(OnePoke(vec![PokeAction::mem(addr, value)]));
    }
    pub fn poke_bytes(&mut self, addr: u16, data: &[u8]) {
        let v: Vec<PokeAction> =
            data.iter().enumerate().map(|(i, b)| PokeAction::mem(addr.wrapping_add(i as u16), *b)).collect();
        self.emu.execute_poke(OnePoke(v));
    }
    pub fn peek(&self, addr: u16) -> u8 {
        self.emu.peek(addr)
    }
    pub fn drain_audio(&mut self) -> Vec<(f32, f32)> {
        let mut v = vec![];
        while let Some(s) = self.emu.next_audio_sample() {
            v.push((s.left, s.right));
        }
        v
    }
    pub fn ram_pages(&self) -> usize {
        if self.cfg.is128 { 8 } else { 3 }
    }
    /// Executes a short code fragment placed at `at` (must be RAM not holding anything needed),
    /// preserving the overwritten bytes and PC. Runs `steps` emulate calls.
    pub fn exec_at(&mut self, at: u16, code: &[u8], steps: usize) {
        let saved: Vec<u8> = (0..code.len()).map(|i| self.peek(at.wrapping_add(i as u16))).collect();
        let pc = self.cpu().regs.get_pc();
        self.poke_bytes(at, code);
        self.cpu().regs.set_pc(at);
        for _ in 0..steps {
            self.step();
        }
        self.poke_bytes(at, &saved);
        self.cpu().regs.set_pc(pc);
    }
    /// emulated OUT (C),A with BC=port; preserves AF,BC
    pub fn out(&mut self, port: u16, val: u8) {
        let rf = self.regs();
        let cpu = self.cpu();
        cpu.regs.set_bc(port);
        cpu.regs.set_acc(val);
        self.exec_at(0x8000, &[0xED, 0x79], 1);
        let pc = self.cpu().regs.get_pc();
        let mut rf2 = rf;
        rf2.pc = pc;
        let r = self.cpu().regs.get_r();
        rf2.r = r;
        self.set_regs(&rf2);
    }
    /// emulated IN A,(C); preserves registers
    pub fn inp(&mut self, port: u16) -> u8 {
        let rf = self.regs();
        self.cpu().regs.set_bc(port);
        self.exec_at(0x8000, &[0xED, 0x78], 1);
        let v = self.cpu().regs.get_acc();
        self.set_regs(&rf);
        v
    }
    /// digest of CPU-visible state + RAM + paging + border colour
    pub fn digest_core(&mut self) -> u64 {
        let mut h = FNV_INIT;
        let rf = self.regs();
        fnv1a(&mut h, format!("{:?}", rf).as_bytes());
        for p in 0..self.ram_pages() {
            fnv1a(&mut h, self.emu.verif_ram_page(p as u8).unwrap());
        }
        let (l, k) = self.emu.verif_paging();
        fnv1a(&mut h, &[l, k as u8, self.emu.border_color() as u8]);
        h
    }
    pub fn digest_video(&self) -> u64 {
        let mut h = FNV_INIT;
        fnv1a(&mut h, &self.emu.screen_buffer().px);
        fnv1a(&mut h, &self.emu.border_buffer().px);
        h
    }
}

pub fn catch<T>(f: impl FnOnce() -> T) -> Result<T, String> {
    match std::panic::catch_unwind(std::panic::AssertUnwindSafe(f)) {
        Ok(v) => Ok(v),
        Err(e) => {
            let msg = if let Some(s) = e.downcast_ref::<&str>() {
                s.to_string()
            } else if let Some(s) = e.downcast_ref::<String>() {
                s.clone()
            } else {
                "panic".to_string()
            };
            Err(msg)
        }
    }
}
