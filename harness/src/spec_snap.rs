//! Snapshot / screen formats written from their specifications (shared by C13, C14, C15).
//!
//! Nothing here shares code with the loaders under test:
//! * SNA 48K (27-byte header + 48 KiB, PC on the stack) and SNA 128K (header, banks 5, 2, n, then
//!   PC / 7FFD / TR-DOS byte, then the remaining banks ascending; 131103 bytes, or 147487 when n is
//!   5 or 2 because that bank is then stored twice) – writer and parser;
//! * SZX 1.x: `ZXST` header, chunks Z80R(37) SPCR(8) RAMP(3+data) AY\0\0(18) KEYB(5) AMXM(7)
//!   CRTR(36+), unknown chunks, any chunk order; RAMP payload stored, zlib by miniz_oxide, or a
//!   hand-made zlib stream consisting of *stored* deflate blocks (+ Adler-32);
//! * SCR (6912 bytes) and the standard screen decode;
//! * the abstract machine state `Abs` the generators choose and the monitors compare against;
//! * construction of hostile "prior" machines (halted, mid DD-chain, paging locked …).
use crate::host::{mem_asset, Cfg, Machine, RegFile};
use crate::rng::Rng;
use rustzx_core::host::Snapshot;

pub const PAGE: usize = 16384;

#[derive(Clone, Debug, PartialEq, Eq)]
pub struct AyState {
    /// chFlags of the AY chunk (2 = 128K-style AY also on a 48K machine)
    pub flags: u8,
    pub cur: u8,
    pub regs: [u8; 16],
}

/// Abstract machine state (what a snapshot file describes).
#[derive(Clone, Debug)]
pub struct Abs {
    pub is128: bool,
    pub r: RegFile,
    pub ei_last: bool,
    pub border: u8,
    /// last value written to 0x7FFD (128K only, 0 on the 48K)
    pub latch: u8,
    /// 128K: indexed by bank number (8 pages); 48K: CPU order 0x4000, 0x8000, 0xC000 (3 pages)
    pub pages: Vec<Vec<u8>>,
    pub ay: Option<AyState>,
    /// Some(true) = AMXM chunk saying Kempston mouse, Some(false) = AMXM chunk saying none
    pub mouse: Option<bool>,
    pub keyb: Option<u8>,
    pub cycles: u32,
    /// bits 3..4 of the last OUT to 0xFE
    pub fe_hi: u8,
}

impl Abs {
    pub fn page_index(&self, addr: u16) -> Option<usize> {
        let w = (addr >> 14) as usize;
        if w == 0 {
            return None;
        }
        Some(if self.is128 {
            match w {
                1 => 5,
                2 => 2,
                _ => (self.latch & 7) as usize,
            }
        } else {
            w - 1
        })
    }
    pub fn peek(&self, addr: u16) -> Option<u8> {
        self.page_index(addr).map(|p| self.pages[p][addr as usize & (PAGE - 1)])
    }
    pub fn poke(&mut self, addr: u16, v: u8) {
        if let Some(p) = self.page_index(addr) {
            self.pages[p][addr as usize & (PAGE - 1)] = v;
        }
    }
    pub fn poke_bytes(&mut self, addr: u16, d: &[u8]) {
        for (i, b) in d.iter().enumerate() {
            self.poke(addr.wrapping_add(i as u16), *b);
        }
    }
    pub fn screen_page(&self) -> usize {
        if self.is128 {
            if self.latch & 8 != 0 { 7 } else { 5 }
        } else {
            0
        }
    }
    pub fn random_regs(rng: &mut Rng) -> RegFile {
        let iff = rng.bool();
        RegFile {
            af: rng.iword(),
            bc: rng.iword(),
            de: rng.iword(),
            hl: rng.iword(),
            af_: rng.iword(),
            bc_: rng.iword(),
            de_: rng.iword(),
            hl_: rng.iword(),
            ix: rng.iword(),
            iy: rng.iword(),
            sp: rng.iword(),
            pc: rng.iword(),
            i: rng.ibyte(),
            r: rng.ibyte(),
            iff1: iff,
            iff2: iff,
            im: rng.below(3) as u8,
            halted: false,
            memptr: rng.u16(),
        }
    }
    /// Random state. SP is kept where both bytes below it are RAM (0x4002..=0xFFFF and 0x0000), IFF1 ==
    /// IFF2, not halted, no EI pending (so the state is expressible in every format).
    pub fn random(rng: &mut Rng, is128: bool) -> Abs {
        let mut r = Abs::random_regs(rng);
        r.sp = match rng.below(8) {
            // SP = 0x0000 is in the domain as well: the two bytes below it are 0xFFFE/0xFFFF (RAM)
            0 => *rng.pick(&[0x4002u16, 0x4003, 0x8000, 0x8001, 0xC000, 0xC001, 0xFFFF, 0xFFFE, 0x5B00, 0x0000, 0x0000]),
            _ => 0x4002 + rng.below(0x10000 - 0x4002) as u16,
        };
        let n = if is128 { 8 } else { 3 };
        let pages = (0..n).map(|_| rng.bytes(PAGE)).collect();
        let latch = if is128 {
            // lock bit in a quarter of the cases; bits 6,7 are not connected and kept 0
            (rng.u8() & 0x1F) | if rng.chance(1, 4) { 0x20 } else { 0 }
        } else {
            0
        };
        Abs {
            is128,
            r,
            ei_last: false,
            border: rng.below(8) as u8,
            latch,
            pages,
            ay: None,
            mouse: None,
            keyb: None,
            cycles: rng.below(if is128 { 70908 } else { 69888 }) as u32,
            fe_hi: (rng.u8() & 0x18),
        }
    }
    pub fn fingerprint(&self) -> u64 {
        let mut h = crate::rng::FNV_INIT;
        crate::rng::fnv1a(&mut h, format!("{:?}{}{}{}", self.r, self.border, self.latch, self.ei_last).as_bytes());
        for p in &self.pages {
            crate::rng::fnv1a(&mut h, &p[..64]);
        }
        h
    }
}

// ------------------------------------------------------------------------------------------ SNA
fn w16(v: &mut Vec<u8>, x: u16) {
    v.extend_from_slice(&x.to_le_bytes());
}

fn sna_header(a: &Abs, sp: u16) -> Vec<u8> {
    let r = &a.r;
    let mut v = Vec::with_capacity(27);
    v.push(r.i);
    w16(&mut v, r.hl_);
    w16(&mut v, r.de_);
    w16(&mut v, r.bc_);
    w16(&mut v, r.af_);
    w16(&mut v, r.hl);
    w16(&mut v, r.de);
    w16(&mut v, r.bc);
    w16(&mut v, r.iy);
    w16(&mut v, r.ix);
    v.push(if r.iff2 { 0x04 } else { 0 });
    v.push(r.r);
    w16(&mut v, r.af);
    w16(&mut v, sp);
    v.push(r.im);
    v.push(a.border);
    v
}

/// SNA file of the state. 48K: PC is pushed onto the stack image (the caller guarantees that
/// SP-2..SP-1 is RAM).
pub fn write_sna(a: &Abs) -> Vec<u8> {
    if !a.is128 {
        let sp = a.r.sp.wrapping_sub(2);
        let mut img = a.clone();
        img.poke(sp, a.r.pc as u8);
        img.poke(sp.wrapping_add(1), (a.r.pc >> 8) as u8);
        let mut v = sna_header(a, sp);
        for p in &img.pages {
            v.extend_from_slice(p);
        }
        v
    } else {
        let n = (a.latch & 7) as usize;
        let mut v = sna_header(a, a.r.sp);
        v.extend_from_slice(&a.pages[5]);
        v.extend_from_slice(&a.pages[2]);
        v.extend_from_slice(&a.pages[n]);
        w16(&mut v, a.r.pc);
        v.push(a.latch);
        v.push(0);
        for b in 0..8 {
            if b != 5 && b != 2 && b != n {
                v.extend_from_slice(&a.pages[b]);
            }
        }
        v
    }
}

/// Length the format prescribes for a state
pub fn sna_len(a: &Abs) -> usize {
    if !a.is128 {
        49179
    } else if matches!(a.latch & 7, 2 | 5) {
        147487
    } else {
        131103
    }
}

/// Parses an SNA file per the specification. 48K: PC is taken from the stack image and SP is
/// the popped value; the two stack bytes stay in the image.
pub fn parse_sna(d: &[u8], is128: bool) -> Result<Abs, String> {
    if d.len() < 49179 {
        return Err(format!("file too short: {}", d.len()));
    }
    let g = |o: usize| u16::from_le_bytes([d[o], d[o + 1]]);
    let mut r = RegFile::default();
    r.i = d[0];
    r.hl_ = g(1);
    r.de_ = g(3);
    r.bc_ = g(5);
    r.af_ = g(7);
    r.hl = g(9);
    r.de = g(11);
    r.bc = g(13);
    r.iy = g(15);
    r.ix = g(17);
    r.iff2 = d[19] & 4 != 0;
    r.iff1 = r.iff2;
    r.r = d[20];
    r.af = g(21);
    r.sp = g(23);
    r.im = d[25];
    let border = d[26];
    let mut a = Abs {
        is128,
        r,
        ei_last: false,
        border,
        latch: 0,
        pages: vec![],
        ay: None,
        mouse: None,
        keyb: None,
        cycles: 0,
        fe_hi: 0,
    };
    if !is128 {
        if d.len() != 49179 {
            return Err(format!("48K SNA must be 49179 bytes, is {}", d.len()));
        }
        for p in 0..3 {
            a.pages.push(d[27 + p * PAGE..27 + (p + 1) * PAGE].to_vec());
        }
        let sp = a.r.sp;
        let lo = a.peek(sp).ok_or("SP in ROM")?;
        let hi = a.peek(sp.wrapping_add(1)).ok_or("SP+1 in ROM")?;
        a.r.pc = u16::from_le_bytes([lo, hi]);
        a.r.sp = sp.wrapping_add(2);
    } else {
        if d.len() < 131103 {
            return Err(format!("128K SNA too short: {}", d.len()));
        }
        a.r.pc = g(49179);
        a.latch = d[49181];
        let n = (a.latch & 7) as usize;
        let want = if n == 5 || n == 2 { 147487 } else { 131103 };
        if d.len() != want {
            return Err(format!("128K SNA with bank {} paged must be {} bytes, is {}", n, want, d.len()));
        }
        a.pages = vec![vec![]; 8];
        a.pages[5] = d[27..27 + PAGE].to_vec();
        a.pages[2] = d[27 + PAGE..27 + 2 * PAGE].to_vec();
        let third = d[27 + 2 * PAGE..27 + 3 * PAGE].to_vec();
        if (n == 5 || n == 2) && third != a.pages[n] {
            return Err(format!("duplicate copy of bank {} differs from its first copy", n));
        }
        a.pages[n] = third;
        let mut o = 49183;
        for b in 0..8 {
            if b != 5 && b != 2 && b != n {
                a.pages[b] = d[o..o + PAGE].to_vec();
                o += PAGE;
            }
        }
    }
    Ok(a)
}

// ------------------------------------------------------------------------------------------ zlib
pub fn adler32(d: &[u8]) -> u32 {
    let (mut a, mut b) = (1u32, 0u32);
    for &x in d {
        a = (a + x as u32) % 65521;
        b = (b + a) % 65521;
    }
    (b << 16) | a
}

/// zlib stream made only of stored deflate blocks of at most `blk` bytes
pub fn zlib_stored(d: &[u8], blk: usize) -> Vec<u8> {
    let blk = blk.clamp(1, 65535);
    let mut v = vec![0x78, 0x01];
    let chunks: Vec<&[u8]> = if d.is_empty() { vec![&d[..]] } else { d.chunks(blk).collect() };
    for (i, c) in chunks.iter().enumerate() {
        v.push(if i + 1 == chunks.len() { 1 } else { 0 });
        let l = c.len() as u16;
        v.extend_from_slice(&l.to_le_bytes());
        v.extend_from_slice(&(!l).to_le_bytes());
        v.extend_from_slice(c);
    }
    v.extend_from_slice(&adler32(d).to_be_bytes());
    v
}

// ------------------------------------------------------------------------------------------ SZX
#[derive(Clone, Debug)]
pub struct Chunk {
    pub id: [u8; 4],
    pub data: Vec<u8>,
}

#[derive(Clone, Debug)]
pub struct SzxFile {
    pub major: u8,
    pub minor: u8,
    pub machine: u8,
    pub flags: u8,
    pub chunks: Vec<Chunk>,
}

impl SzxFile {
    pub fn to_bytes(&self) -> Vec<u8> {
        let mut v = b"ZXST".to_vec();
        v.extend_from_slice(&[self.major, self.minor, self.machine, self.flags]);
        for c in &self.chunks {
            v.extend_from_slice(&c.id);
            v.extend_from_slice(&(c.data.len() as u32).to_le_bytes());
            v.extend_from_slice(&c.data);
        }
        v
    }
    pub fn find(&self, id: &[u8; 4]) -> Option<usize> {
        self.chunks.iter().position(|c| &c.id == id)
    }
}

#[derive(Clone, Copy, Debug, PartialEq, Eq)]
pub enum Comp {
    Stored,
    Miniz(u8),
    /// zlib container with stored deflate blocks of the given size
    Hand(usize),
}

#[derive(Clone, Debug)]
pub struct SzxOpts {
    pub minor: u8,
    /// compression of each RAMP chunk (cycled)
    pub comp: Vec<Comp>,
    pub shuffle: bool,
    pub unknown: usize,
    /// None: no CRTR; Some(n): CRTR with n extra data bytes after the 36 mandatory ones
    pub crtr: Option<usize>,
    /// PC convention of a halted state: true = PC after the HALT, false = PC at the HALT
    pub halt_pc_after: bool,
}

impl SzxOpts {
    pub fn plain() -> SzxOpts {
        SzxOpts { minor: 4, comp: vec![Comp::Stored], shuffle: false, unknown: 0, crtr: None, halt_pc_after: true }
    }
    pub fn random(rng: &mut Rng) -> SzxOpts {
        let mut comp = vec![];
        let uniform = rng.below(4);
        for _ in 0..8 {
            let k = if uniform < 3 { uniform } else { rng.below(3) };
            comp.push(match k {
                0 => Comp::Stored,
                1 => Comp::Miniz(*rng.pick(&[0u8, 1, 6, 9])),
                _ => Comp::Hand(*rng.pick(&[65535usize, 16384, 4096, 1000, 1])),
            });
        }
        // Hand(1) makes an 80 KiB chunk per page – keep it rare
        for c in comp.iter_mut() {
            if *c == Comp::Hand(1) && !rng.chance(1, 8) {
                *c = Comp::Hand(8191);
            }
        }
        SzxOpts {
            minor: *rng.pick(&[4u8, 5, 3, 1]),
            comp,
            shuffle: rng.chance(2, 3),
            unknown: rng.below(4) as usize,
            crtr: None,
            halt_pc_after: rng.bool(),
        }
    }
    pub fn describe(&self) -> String {
        format!("{:?}", self)
    }
}

pub fn z80r_chunk(a: &Abs, halt_pc_after: bool) -> Chunk {
    let r = &a.r;
    let mut v = Vec::with_capacity(37);
    for x in [r.af, r.bc, r.de, r.hl, r.af_, r.bc_, r.de_, r.hl_, r.ix, r.iy, r.sp] {
        w16(&mut v, x);
    }
    // abstract PC of a halted machine is the address of the HALT
    let pc = if r.halted && halt_pc_after { r.pc.wrapping_add(1) } else { r.pc };
    w16(&mut v, pc);
    v.push(r.i);
    v.push(r.r);
    v.push(r.iff1 as u8);
    v.push(r.iff2 as u8);
    v.push(r.im);
    v.extend_from_slice(&a.cycles.to_le_bytes());
    v.push(0); // chHoldIntReqCycles
    v.push((a.ei_last as u8) | ((r.halted as u8) << 1));
    w16(&mut v, r.memptr);
    Chunk { id: *b"Z80R", data: v }
}

pub fn spcr_chunk(a: &Abs) -> Chunk {
    Chunk { id: *b"SPCR", data: vec![a.border, a.latch, 0, a.border | a.fe_hi, 0, 0, 0, 0] }
}

pub fn ramp_chunk(page_no: u8, data: &[u8], comp: Comp) -> Chunk {
    let mut v = vec![];
    match comp {
        Comp::Stored => {
            v.extend_from_slice(&[0, 0, page_no]);
            v.extend_from_slice(data);
        }
        Comp::Miniz(l) => {
            v.extend_from_slice(&[1, 0, page_no]);
            v.extend_from_slice(&miniz_oxide::deflate::compress_to_vec_zlib(data, l));
        }
        Comp::Hand(b) => {
            v.extend_from_slice(&[1, 0, page_no]);
            v.extend_from_slice(&zlib_stored(data, b));
        }
    }
    Chunk { id: *b"RAMP", data: v }
}

pub fn crtr_chunk(rng: &mut Rng, extra: usize) -> Chunk {
    let mut v = vec![0u8; 32];
    let name = *rng.pick(&["Fuse 1.6.0", "Spectaculator", "vcheck spec writer", "ZXSEC", "x"]);
    v[..name.len()].copy_from_slice(name.as_bytes());
    w16(&mut v, rng.below(12) as u16);
    w16(&mut v, rng.below(100) as u16);
    for _ in 0..extra {
        v.push(b' ' + rng.below(90) as u8);
    }
    Chunk { id: *b"CRTR", data: v }
}

const UNKNOWN_IDS: [&[u8; 4]; 12] = [
    b"ZXAT", b"ZXCF", b"JOY\0", b"ZXPR", b"IF1\0", b"COVX", b"SCLD", b"GS\0\0", b"ZMMC", b"DIVD", b"XQ9Z", b"BETA",
];

/// The SZX description of the state, chunk by chunk.
pub fn szx_file(a: &Abs, o: &SzxOpts, rng: &mut Rng) -> SzxFile {
    let mut chunks = vec![];
    if let Some(extra) = o.crtr {
        chunks.push(crtr_chunk(rng, extra));
    }
    chunks.push(z80r_chunk(a, o.halt_pc_after));
    chunks.push(spcr_chunk(a));
    if let Some(k) = a.keyb {
        chunks.push(Chunk { id: *b"KEYB", data: vec![0, 0, 0, 0, k] });
    }
    if let Some(ay) = &a.ay {
        let mut d = vec![ay.flags, ay.cur];
        d.extend_from_slice(&ay.regs);
        chunks.push(Chunk { id: *b"AY\0\0", data: d });
    }
    if let Some(m) = a.mouse {
        chunks.push(Chunk { id: *b"AMXM", data: vec![if m { 2 } else { 0 }, 0, 0, 0, 0, 0, 0] });
    }
    let page_nos: Vec<u8> = if a.is128 { (0..8).collect() } else { vec![5, 2, 0] };
    for (i, pn) in page_nos.iter().enumerate() {
        let data = if a.is128 { &a.pages[*pn as usize] } else { &a.pages[i] };
        chunks.push(ramp_chunk(*pn, data, o.comp[i % o.comp.len()]));
    }
    for _ in 0..o.unknown {
        let id = **rng.pick(&UNKNOWN_IDS);
        let n = *rng.pick(&[0usize, 1, 4, 7, 36, 37, 64, 300]);
        chunks.push(Chunk { id, data: rng.bytes(n) });
    }
    if o.shuffle {
        rng.shuffle(&mut chunks);
    }
    SzxFile { major: 1, minor: o.minor, machine: if a.is128 { 2 } else { 1 }, flags: 0, chunks }
}

pub fn write_szx(a: &Abs, o: &SzxOpts, rng: &mut Rng) -> Vec<u8> {
    szx_file(a, o, rng).to_bytes()
}

// ------------------------------------------------------------------------------------------ SCR
/// Expected canvas of a screen page: per pixel the two colour values (colour | bright<<3) that are
/// admissible (they differ only in FLASH cells, whose phase is not part of any file).
pub fn decode_screen(page: &[u8]) -> Vec<(u8, u8)> {
    let mut out = vec![(0u8, 0u8); 256 * 192];
    for y in 0..192usize {
        for xb in 0..32usize {
            let addr = ((y & 0xC0) << 5) | ((y & 7) << 8) | ((y & 0x38) << 2) | xb;
            let bits = page[addr];
            let attr = page[0x1800 + (y >> 3) * 32 + xb];
            let ink = attr & 7;
            let paper = (attr >> 3) & 7;
            let bright = (attr >> 6) & 1;
            let flash = attr & 0x80 != 0;
            for px in 0..8 {
                let on = bits & (0x80 >> px) != 0;
                let c = (if on { ink } else { paper }) | bright << 3;
                let alt = if flash { (if on { paper } else { ink }) | bright << 3 } else { c };
                out[y * 256 + xb * 8 + px] = (c, alt);
            }
        }
    }
    out
}

/// number of canvas pixels that are not what the page prescribes
pub fn canvas_mismatches(px: &[u8], page: &[u8]) -> usize {
    let e = decode_screen(page);
    if px.len() != e.len() {
        return usize::MAX;
    }
    px.iter().zip(e.iter()).filter(|(p, (a, b))| **p != *a && **p != *b).count()
}

// ------------------------------------------------------------------------------------------ priors
#[derive(Clone, Copy, Debug, PartialEq, Eq, Hash)]
pub enum Prior {
    Fresh,
    Ran,
    Halted,
    Prefix,
    Locked,
}
impl Prior {
    pub fn name(&self) -> &'static str {
        match self {
            Prior::Fresh => "fresh",
            Prior::Ran => "ran",
            Prior::Halted => "halted",
            Prior::Prefix => "mid-prefix",
            Prior::Locked => "locked",
        }
    }
    pub fn random(rng: &mut Rng, is128: bool) -> Prior {
        match rng.below(if is128 { 6 } else { 5 }) {
            0 => Prior::Fresh,
            1 | 2 => Prior::Ran,
            3 => Prior::Halted,
            4 => Prior::Prefix,
            _ => Prior::Locked,
        }
    }
}

/// Runs `f` with interrupts masked and restores the complete register file afterwards (emulated
/// IN/OUT helpers execute real instructions).
pub fn quiet_io<T>(m: &mut Machine, f: impl FnOnce(&mut Machine) -> T) -> T {
    let rf = m.regs();
    let mut q = rf;
    q.iff1 = false;
    q.iff2 = false;
    q.halted = false;
    q.sp = 0xBFF0;
    m.set_regs(&q);
    // flush hidden CPU state (pending prefix, skip-interrupt) so that the I/O helpers execute what they say
    m.exec_at(0x8000, &[0x00, 0x00], 1);
    let r = f(m);
    m.set_regs(&rf);
    r
}

/// Puts an existing machine into a hostile state of the requested kind (other border, other
/// IM/IFF, AY playing, garbage in RAM, random unlocked latch – plus the one hidden-state feature
/// the kind names). Returns whether the named feature was established (observable ones only).
pub fn make_hostile(m: &mut Machine, rng: &mut Rng, kind: Prior) -> bool {
    if kind == Prior::Fresh {
        return true;
    }
    let is128 = m.cfg.is128;
    m.run_frames(1 + rng.below(2) as usize);
    for _ in 0..rng.below(300) {
        m.step();
    }
    let mut rf = Abs::random_regs(rng);
    rf.iff1 = false;
    rf.sp = 0xBFF0;
    m.set_regs(&rf);
    for _ in 0..6 {
        let a = 0x4000 + rng.below(0xC000 - 256) as u16;
        let n = 1 + rng.below(255) as usize;
        m.poke_bytes(a, &rng.bytes(n));
    }
    m.out(0x00FE, rng.u8() & 0x1F);
    // AY making noise (harmless where no AY is fitted)
    let period = 40 + rng.below(200) as u8;
    for (r, v) in [(0u8, period), (1, 0), (7, 0x3E), (8, 0x0F), (9, 0x0A), (2, 0x55), (11, rng.u8()), (13, rng.u8() & 0x0F)] {
        m.out(0xFFFD, r);
        m.out(0xBFFD, v);
    }
    m.out(0xFFFD, rng.u8() & 0x0F);
    if is128 {
        m.out(0x7FFD, rng.u8() & 0x1F);
        m.poke_bytes(0xC000 + rng.below(0x3000) as u16, &rng.bytes(200));
    }
    let mut rf = Abs::random_regs(rng);
    rf.sp = 0xBFF0;
    let mut ok = true;
    match kind {
        Prior::Halted => {
            rf.iff1 = false;
            rf.iff2 = false;
            rf.pc = 0x8100;
            m.set_regs(&rf);
            m.poke_bytes(0x8100, &[0x76, 0x76, 0x76]);
            m.step();
            m.step();
            ok = m.regs().halted;
        }
        Prior::Prefix => {
            rf.pc = 0x8100;
            m.set_regs(&rf);
            m.poke_bytes(0x8100, &[0xDD, 0xDD, 0xDD, 0xDD, 0xDD, 0xDD]);
            m.step();
            // after one emulate call of "DD DD" the second DD is pending (PC advanced by 2)
            ok = m.regs().pc == 0x8102;
        }
        Prior::Locked => {
            if is128 {
                m.set_regs(&rf);
                m.out(0x7FFD, 0x20 | (rng.u8() & 0x1F));
                ok = m.emu.verif_paging().1;
            } else {
                m.set_regs(&rf);
            }
        }
        _ => m.set_regs(&rf),
    }
    ok
}

pub fn prior_cfg(rng: &mut Rng, is128: bool) -> Cfg {
    let mut c = Cfg::of(is128);
    c.mouse = rng.bool();
    c.kempston = rng.bool();
    if !is128 {
        c.ay = rng.bool();
    }
    c
}

pub fn make_prior(rng: &mut Rng, is128: bool, kind: Prior) -> (Machine, bool) {
    let mut m = Machine::new(prior_cfg(rng, is128));
    // part of "what the machine was doing before": an earlier snapshot may have attached or detached
    // devices whatever the emulator was constructed with (SZX AMXM / AY chunks)
    if kind != Prior::Fresh && rng.chance(1, 3) {
        let mut a = Abs::random(rng, is128);
        a.latch &= !0x20;
        a.r.iff1 = false;
        a.r.iff2 = false;
        a.r.pc = 0x8000;
        a.poke_bytes(0x8000, &[0x18, 0xFE]);
        a.mouse = Some(rng.bool());
        a.ay = Some(AyState { flags: if is128 { 0 } else { *rng.pick(&[0u8, 2]) }, cur: rng.u8() & 15, regs: [0; 16] });
        let bytes = write_szx(&a, &SzxOpts::plain(), rng);
        let _ = load_szx(&mut m, &bytes);
    }
    let ok = make_hostile(&mut m, rng, kind);
    // the receiving emulator may have a host I/O extender attached that claims port 0x00FE (a
    // host-side keyboard, say): restoring a snapshot's border is not a port write of the program
    if kind != Prior::Fresh && rng.chance(1, 4) {
        m.emu.set_io_extender(crate::host::LogExt::new(vec![(0xFFFF, 0x00FE)]));
    }
    (m, ok)
}

// ------------------------------------------------------------------------------------------ compare
#[derive(Clone, Debug)]
pub struct Diff {
    pub item: String,
    pub exp: String,
    pub got: String,
}

/// Complete observable state of a machine (registers, RAM pages, paging, border)
#[derive(Clone)]
pub struct Capture {
    pub r: RegFile,
    pub pages: Vec<Vec<u8>>,
    pub latch: u8,
    pub locked: bool,
    pub border: u8,
    pub clock: usize,
}

pub fn capture(m: &mut Machine) -> Capture {
    let r = m.regs();
    let pages = (0..m.ram_pages()).map(|p| m.emu.verif_ram_page(p as u8).unwrap().to_vec()).collect();
    let (latch, locked) = m.emu.verif_paging();
    Capture { r, pages, latch, locked, border: m.emu.border_color() as u8, clock: m.clock() }
}

pub fn reg_items(r: &RegFile) -> Vec<(&'static str, u32)> {
    vec![
        ("af", r.af as u32),
        ("bc", r.bc as u32),
        ("de", r.de as u32),
        ("hl", r.hl as u32),
        ("af'", r.af_ as u32),
        ("bc'", r.bc_ as u32),
        ("de'", r.de_ as u32),
        ("hl'", r.hl_ as u32),
        ("ix", r.ix as u32),
        ("iy", r.iy as u32),
        ("sp", r.sp as u32),
        ("pc", r.pc as u32),
        ("i", r.i as u32),
        ("r", r.r as u32),
        ("im", r.im as u32),
        ("iff1", r.iff1 as u32),
        ("iff2", r.iff2 as u32),
    ]
}

/// Item-wise comparison of a captured machine with an abstract state. `exempt` lists CPU
/// addresses whose RAM byte is not judged. Paging is judged on the 128K only.
pub fn diff_capture(c: &Capture, a: &Abs, exempt: &[u16]) -> Vec<Diff> {
    let mut out = vec![];
    for ((n, e), (_, g)) in reg_items(&a.r).into_iter().zip(reg_items(&c.r)) {
        if e != g {
            out.push(Diff { item: format!("reg:{}", n), exp: format!("{:04x}", e), got: format!("{:04x}", g) });
        }
    }
    if c.border != a.border {
        out.push(Diff { item: "border".into(), exp: a.border.to_string(), got: c.border.to_string() });
    }
    if a.is128 {
        if c.latch != a.latch {
            out.push(Diff { item: "latch".into(), exp: format!("{:02x}", a.latch), got: format!("{:02x}", c.latch) });
        }
        if c.locked != (a.latch & 0x20 != 0) {
            out.push(Diff { item: "lock".into(), exp: (a.latch & 0x20 != 0).to_string(), got: c.locked.to_string() });
        }
    }
    if c.pages.len() != a.pages.len() {
        out.push(Diff { item: "ram:page-count".into(), exp: a.pages.len().to_string(), got: c.pages.len().to_string() });
        return out;
    }
    let ex: Vec<(usize, usize)> = exempt.iter().filter_map(|ad| a.page_index(*ad).map(|p| (p, *ad as usize & (PAGE - 1)))).collect();
    let mut bad_pages = vec![];
    let mut first = None;
    for p in 0..a.pages.len() {
        if c.pages[p] != a.pages[p] {
            let offs: Vec<usize> = (0..PAGE).filter(|o| c.pages[p][*o] != a.pages[p][*o] && !ex.contains(&(p, *o))).collect();
            if !offs.is_empty() {
                bad_pages.push(format!("{}({} bytes)", p, offs.len()));
                if first.is_none() {
                    first = Some((p, offs[0], a.pages[p][offs[0]], c.pages[p][offs[0]]));
                }
            }
        }
    }
    if let Some((p, o, e, g)) = first {
        out.push(Diff {
            item: "ram".into(),
            exp: format!("page {} offset {:04x} = {:02x}", p, o, e),
            got: format!("{:02x}; differing pages: {}", g, bad_pages.join(",")),
        });
    }
    out
}

/// Is the CPU's view of 0x4000..0xFFFF what the abstract state says? (sampled + every 97th byte)
pub fn cpu_view_mismatch(m: &Machine, a: &Abs, exempt: &[u16]) -> Option<(u16, u8, u8)> {
    let mut ad = 0x4000u32;
    while ad < 0x10000 {
        let e = a.peek(ad as u16).unwrap();
        let g = m.peek(ad as u16);
        if e != g && !exempt.contains(&(ad as u16)) {
            return Some((ad as u16, e, g));
        }
        ad += 97;
    }
    None
}

/// The file reaches the loader through a whole-buffer asset or one whose reads return at most 1, 7,
/// 512 or 4096 bytes (the asset contract allows short reads); which one is a function of the file, so
/// that a case is reproducible.
fn snapshot_asset(bytes: &[u8]) -> crate::host::DynAsset {
    let mut h = crate::rng::FNV_INIT;
    crate::rng::fnv1a(&mut h, &bytes[..bytes.len().min(4096)]);
    match h % 7 {
        0 => crate::host::DynAsset(Box::new(crate::host::ShortRead::new(bytes.to_vec(), 1))),
        1 => crate::host::DynAsset(Box::new(crate::host::ShortRead::new(bytes.to_vec(), 7))),
        2 => crate::host::DynAsset(Box::new(crate::host::ShortRead::new(bytes.to_vec(), 512))),
        3 => crate::host::DynAsset(Box::new(crate::host::ShortRead::new(bytes.to_vec(), 4096))),
        _ => mem_asset(bytes.to_vec()),
    }
}
pub fn load_sna(m: &mut Machine, bytes: &[u8]) -> Result<Result<(), String>, String> {
    let a = snapshot_asset(bytes);
    crate::host::catch(|| m.emu.load_snapshot(Snapshot::Sna(a)).map_err(|e| format!("{:?}", e)))
}
pub fn load_szx(m: &mut Machine, bytes: &[u8]) -> Result<Result<(), String>, String> {
    let a = snapshot_asset(bytes);
    crate::host::catch(|| m.emu.load_snapshot(Snapshot::Szx(a)).map_err(|e| format!("{:?}", e)))
}

pub fn diffs_json(d: &[Diff]) -> crate::json::J {
    crate::json::J::Arr(d.iter().map(|x| jobj! {"item" => x.item.as_str(), "expected" => x.exp.as_str(), "observed" => x.got.as_str()}).collect())
}

pub fn regs_json(r: &RegFile) -> crate::json::J {
    crate::json::J::Str(format!("{:x?}", r))
}

/// `basename|message with digit runs replaced by #` of the last caught panic on this thread
pub fn panic_sig() -> String {
    norm_panic(&crate::last_panic())
}
pub fn norm_panic(lp: &str) -> String {
    let (msg, loc) = match lp.rfind(" @ ") {
        Some(i) => (&lp[..i], &lp[i + 3..]),
        None => (lp, ""),
    };
    let file = loc.rsplit('/').next().unwrap_or("").split(':').next().unwrap_or("");
    // payload details of wrapped errors (`Utf8Error { valid_up_to: .. }`) are input-specific
    let msg = msg.split(" {").next().unwrap_or(msg);
    let mut out = String::new();
    let mut in_num = false;
    for c in msg.chars() {
        if c.is_ascii_digit() {
            if !in_num {
                out.push('#');
            }
            in_num = true;
        } else {
            in_num = false;
            out.push(if c == '\n' { ' ' } else { c });
        }
    }
    if out.len() > 120 {
        out.truncate(120);
    }
    format!("{}|{}", file, out.trim())
}

/// Builds a machine that is in the abstract state without using any loader: RAM through pokes
/// in the paging windows, ports through emulated OUTs, registers through the hook. (Pokes do not
/// refresh the video shadow, so the canvas of such a machine is not meaningful.)
pub fn materialise(a: &Abs) -> Machine {
    let mut m = Machine::new(Cfg::of(a.is128));
    let mut q = RegFile::default();
    q.sp = 0xBFF0;
    q.pc = 0x8000;
    m.set_regs(&q);
    if a.is128 {
        for bank in 0..8u8 {
            m.out(0x7FFD, bank);
            m.poke_bytes(0xC000, &a.pages[bank as usize]);
        }
        m.out(0x7FFD, a.latch);
    } else {
        for w in 0..3 {
            m.poke_bytes(0x4000 + (w as u16) * 0x4000, &a.pages[w]);
        }
    }
    m.out(0x00FE, a.border | a.fe_hi);
    m.set_regs(&a.r);
    m
}

/// Hidden state of a receiving emulator as observed just before a load (the pending prefix is
/// not observable and is taken from the construction).
#[derive(Clone, Copy, Debug, Default)]
pub struct PriorObs {
    pub locked: bool,
    pub halted: bool,
    pub skip: bool,
    pub prefix: bool,
}
pub fn observe_prior(m: &mut Machine, kind: Prior, established: bool) -> PriorObs {
    PriorObs {
        locked: m.cfg.is128 && m.emu.verif_paging().1,
        halted: m.cpu().halted,
        skip: m.cpu().skip_interrupt,
        prefix: kind == Prior::Prefix && established,
    }
}
impl PriorObs {
    /// label used for symptoms that hang on the memory map
    pub fn map_label(&self) -> &'static str {
        if self.locked { "locked" } else { "unlocked" }
    }
    /// label used for CPU-behaviour symptoms
    pub fn cpu_label(&self) -> String {
        let mut v = vec![];
        if self.halted {
            v.push("halted");
        }
        if self.prefix {
            v.push("mid-prefix");
        } else if self.skip {
            v.push("skipint");
        }
        if v.is_empty() { "clean".into() } else { v.join("+") }
    }
    pub fn any_label(&self) -> String {
        let c = self.cpu_label();
        if c != "clean" {
            c
        } else if self.locked {
            "locked".into()
        } else {
            "plain".into()
        }
    }
}
