//! C16 – emulation is deterministic and independent of how the host drives it.
//!
//! Twin executions of the same scenario (initial state + input events applied at frame boundaries)
//! under different drivings; digests of CPU state + all RAM + paging + border colour ("core"), of
//! both frame buffers ("video") and of the drained audio are compared at equal emulated instants.
//! Instants are identified by frame number: known from the driving for FrameCount(n)/Max calls
//! (Max: from the scripted stopwatch), and observed through the frame-clock hook for breakpoint
//! drivings – never by wall time. Audio is compared only between runs with the same drain policy
//! and one-frame-per-call driving (in other modes the host is told there is no sound).
use crate::host::{mem_asset, set_stopwatch, Cfg, DbgMode, DynAsset, Machine, RegFile, ShortRead, SwScript};
use crate::json::J;
use crate::report::{par_map, repo_root, Ctx, Evidence};
use crate::rng::{fnv1a, Rng, FNV_INIT};
use rustzx_core::host::{Snapshot, Tape};
use rustzx_core::zx::joy::kempston::KempstonKey;
use rustzx_core::zx::joy::sinclair::{SinclairJoyNum, SinclairKey};
use rustzx_core::zx::keys::{CompoundKey, ZXKey};
use rustzx_core::zx::mouse::kempston::{KempstonMouseButton, KempstonMouseWheelDirection};
use rustzx_core::{EmulationMode, EmulationStopReason, IterableEnum};
use rustzx_utils::io::{FileAsset, GzipAsset};
use std::collections::HashSet;
use std::io::Read;
use std::time::Duration;

#[derive(Clone, Debug)]
enum Scenario {
    /// ROM boot with key events
    Boot { is128: bool },
    /// random program in RAM
    Program { is128: bool, seed: u64 },
    /// snapshot from the repository's test data
    Snap { name: &'static str, is128: bool },
    /// tape with autoload (real time or fast)
    TapeLoad { is128: bool, fast: bool },
    /// fast loading enabled *and* the host presses play: a program keeps calling ROM LD-BYTES while a
    /// one-block tape plays in real time and stops by itself at its end (about frame 151), after
    /// which the fast loader may serve the requests again
    TapePoll { is128: bool, iff: bool },
    /// interrupt-driven idle loop (EI; HALT; record R; ...) at `base`, `pad` NOPs shift its phase
    HaltLoop { is128: bool, base: u16, pad: u8 },
}

#[derive(Clone, Debug, PartialEq)]
enum Driving {
    /// FrameCount(1) per call, audio drained every `drain` frames (0 = never)
    PerFrame { drain: usize, sound: bool, ay: bool },
    /// FrameCount(n) with the given partition of the run; the second field selects what the host
    /// stopwatch reads meanwhile and how small the time limit is (FrameCount ignores both)
    Partition(Vec<usize>, u8),
    /// Max mode: (frames per call) realised through scripted stopwatch readings
    Max(Vec<usize>, u8),
    /// FrameCount(1) + breakpoint every k-th instruction
    Breaks(u64),
    /// FrameCount(1) + breakpoints at given instruction counts
    BreaksAt(Vec<u64>),
    /// FrameCount(1) + breakpoints at program counter values (resumed at once)
    BreaksPc(Vec<u16>),
    /// speed mode chosen anew for every call (FrameCount(n) / Max), with breakpoints at the given
    /// instruction counts interrupting multi-frame passes; the run is resumed in whatever mode
    /// comes next
    Mixed(Vec<u64>, u64),
}

#[derive(Clone, Copy, Debug)]
enum AssetKind {
    Buffer,
    File,
    Gzip,
    Short(usize),
}

fn gunzip(path: &std::path::Path) -> Vec<u8> {
    let mut v = vec![];
    flate2::read::GzDecoder::new(std::fs::File::open(path).expect("test asset")).read_to_end(&mut v).expect("gunzip");
    v
}

fn make_asset(kind: AssetKind, gz_path: &std::path::Path, raw: &[u8], tag: u64) -> DynAsset {
    match kind {
        AssetKind::Buffer => mem_asset(raw.to_vec()),
        AssetKind::Short(k) => DynAsset(Box::new(ShortRead::new(raw.to_vec(), k))),
        AssetKind::Gzip => DynAsset(Box::new(GzipAsset::new(std::fs::File::open(gz_path).expect("gz")).expect("gzip asset"))),
        AssetKind::File => {
            let dir = std::env::temp_dir().join(format!("vcheck_c16_{}", std::process::id()));
            let _ = std::fs::create_dir_all(&dir);
            let p = dir.join(format!("a{}.bin", tag));
            std::fs::write(&p, raw).expect("temp asset");
            let f = std::fs::File::open(&p).expect("temp asset open");
            let _ = std::fs::remove_file(&p);
            DynAsset(Box::new(FileAsset::from(f)))
        }
    }
}

/// one host input (indices into the `IterableEnum` orders)
#[derive(Clone, Debug)]
enum Input {
    Key(usize, bool),
    Compound(usize, bool),
    Sinclair(usize, usize, bool),
    Kempston(usize, bool),
    MouseBtn(usize, bool),
    Wheel(bool),
    Move(i8, i8),
    /// cassette deck commands: 0 play, 1 stop, 2 rewind
    Deck(u8),
}

struct Events {
    /// (frame, input)
    keys: Vec<(usize, Input)>,
}

fn send(m: &mut Machine, i: &Input) {
    match i {
        Input::Key(k, p) => m.emu.send_key(ZXKey::iter().nth(*k).unwrap(), *p),
        Input::Compound(k, p) => m.emu.send_compound_key(CompoundKey::iter().nth(*k).unwrap(), *p),
        Input::Sinclair(j, k, p) => m.emu.send_sinclair_key(SinclairJoyNum::iter().nth(*j).unwrap(), SinclairKey::iter().nth(*k).unwrap(), *p),
        Input::Kempston(k, p) => m.emu.send_kempston_key(KempstonKey::iter().nth(*k).unwrap(), *p),
        Input::MouseBtn(k, p) => m.emu.send_mouse_button(KempstonMouseButton::iter().nth(*k).unwrap(), *p),
        Input::Wheel(up) => m.emu.send_mouse_wheel(if *up { KempstonMouseWheelDirection::Up } else { KempstonMouseWheelDirection::Down }),
        Input::Move(x, y) => m.emu.send_mouse_pos_diff(*x, *y),
        Input::Deck(0) => m.emu.play_tape(),
        Input::Deck(1) => m.emu.stop_tape(),
        Input::Deck(_) => {
            let _ = m.emu.rewind_tape();
        }
    }
}

fn random_input(rng: &mut Rng) -> Input {
    match rng.below(11) {
        10 => Input::Deck(rng.below(3) as u8),
        0..=3 => Input::Key(rng.below(ZXKey::iter().count() as u64) as usize, rng.bool()),
        4 => Input::Compound(rng.below(CompoundKey::iter().count() as u64) as usize, rng.bool()),
        5 => Input::Sinclair(rng.below(2) as usize, rng.below(SinclairKey::iter().count() as u64) as usize, rng.bool()),
        6 | 7 => Input::Kempston(rng.below(KempstonKey::iter().count() as u64) as usize, rng.bool()),
        8 => if rng.bool() { Input::MouseBtn(rng.below(KempstonMouseButton::iter().count() as u64) as usize, rng.bool()) } else { Input::Wheel(rng.bool()) },
        _ => Input::Move(rng.u8() as i8, rng.u8() as i8),
    }
}

fn build(scn: &Scenario, asset: AssetKind, tag: u64) -> Machine {
    let is128 = match scn {
        Scenario::Boot { is128 } | Scenario::Program { is128, .. } | Scenario::Snap { is128, .. } | Scenario::TapeLoad { is128, .. } | Scenario::HaltLoop { is128, .. } | Scenario::TapePoll { is128, .. } => *is128,
    };
    let mut cfg = Cfg::of(is128);
    cfg.ay = true;
    cfg.kempston = true;
    cfg.mouse = true;
    if let Scenario::TapeLoad { fast, .. } = scn {
        cfg.fastload = *fast;
        cfg.autoload = true;
    }
    if let Scenario::TapePoll { .. } = scn {
        cfg.fastload = true;
    }
    let mut m = Machine::new(cfg);
    let td = repo_root().join("rustzx-test/test_data");
    match scn {
        Scenario::Boot { .. } => {}
        Scenario::Program { seed, .. } => {
            let mut rng = Rng::new(*seed);
            let mut code = rng.bytes(0x3000);
            // bias: sprinkle port I/O, interrupts, screen writes and short loops
            let mut i = 0;
            while i + 4 < code.len() {
                match rng.below(10) {
                    0 => { code[i] = 0xD3; code[i + 1] = 0xFE; }
                    1 => { code[i] = 0xDB; code[i + 1] = 0xFE; }
                    2 => { code[i] = 0xFB; }
                    3 => { code[i] = 0x32; code[i + 1] = rng.u8(); code[i + 2] = 0x40 + (rng.u8() & 0x1F); }
                    4 => { code[i] = 0x10; code[i + 1] = 0xFC; }
                    5 => { code[i] = 0x76; }
                    // Kempston joystick, and the mouse ports through IN r,(C) with BC loaded first
                    6 => { code[i] = 0xDB; code[i + 1] = 0x1F; }
                    7 if i + 6 < code.len() => {
                        let port = *rng.pick(&[0xFADFu16, 0xFBDF, 0xFFDF, 0xF7FE, 0xEFFE, 0x001F]);
                        code[i] = 0x01; code[i + 1] = port as u8; code[i + 2] = (port >> 8) as u8;
                        code[i + 3] = 0xED; code[i + 4] = 0x40 + 8 * *rng.pick(&[0u8, 1, 2, 3, 4, 5, 7]);
                        i += 4;
                    }
                    _ => {}
                }
                i += 1 + rng.below(6) as usize;
            }
            // never leave RAM for long: a jump back at the end
            // the program sits in uncontended RAM, in contended RAM (0x5B00.., so that HALTs, loops
            // and I/O are stretched by the ULA) or, on the 128K, in a contended bank paged at 0xC000
            let base: u16 = match rng.below(4) {
                0 => 0x5B00,
                1 if is128 => 0xC000,
                _ => 0x8000,
            };
            if base == 0xC000 {
                m.out(0x7FFD, *rng.pick(&[1u8, 3, 5, 7]));
            }
            let n = code.len();
            code[n - 3] = 0xC3;
            code[n - 2] = base as u8;
            code[n - 1] = (base >> 8) as u8;
            m.poke_bytes(base, &code);
            let mut rf = RegFile::default();
            rf.pc = base;
            rf.sp = if base == 0x8000 { 0x7F00 } else { 0xBF00 };
            rf.im = 1;
            rf.iff1 = true;
            rf.iff2 = true;
            rf.iy = 0x5C3A;
            m.set_regs(&rf);
        }
        Scenario::TapePoll { iff, .. } => {
            if is128 {
                m.out(0x7FFD, 0x10);
            }
            // one block: flag FF, 16 data bytes, checksum
            let mut blk = vec![0xFFu8];
            blk.extend((0..16u8).map(|i| i.wrapping_mul(37) ^ 0x5A));
            let ck = blk.iter().fold(0u8, |a, b| a ^ b);
            blk.push(ck);
            let mut tap = vec![blk.len() as u8, 0];
            tap.extend_from_slice(&blk);
            m.emu.load_tape(Tape::Tap(make_asset(asset, &td.join("simple_tape.tap.gz"), &tap, tag))).expect("tape");
            m.emu.play_tape();
            // loop: LD IX,9000; LD DE,0010; LD A,FF; SCF; CALL 0556; count calls at A000, keep F at A002
            let code = [0xDD, 0x21, 0x00, 0x90, 0x11, 0x10, 0x00, 0x3E, 0xFF, 0x37, 0xCD, 0x56, 0x05, 0x2A, 0x00, 0xA0, 0x23, 0x22, 0x00, 0xA0, 0xF5, 0xC1, 0xED, 0x43, 0x02, 0xA0, 0x18, 0xE4];
            m.poke_bytes(0x8000, &code);
            let mut rf = RegFile::default();
            rf.pc = 0x8000;
            rf.sp = 0xBF00;
            rf.im = 1;
            rf.iff1 = *iff;
            rf.iff2 = *iff;
            rf.iy = 0x5C3A;
            m.set_regs(&rf);
        }
        Scenario::HaltLoop { base, pad, .. } => {
            if *base >= 0xC000 && is128 {
                m.out(0x7FFD, 0x10 | if *pad % 2 == 0 { 1 } else { 0 });
            } else if is128 {
                m.out(0x7FFD, 0x10);
            }
            // loop: EI; NOP*pad; HALT; LD A,R; LD (HL),A; INC L; IN A,(0xFE); OUT (0xFE),A; JR loop
            let mut code = vec![0xFB];
            code.extend(std::iter::repeat(0x00).take(*pad as usize));
            code.extend_from_slice(&[0x76, 0xED, 0x5F, 0x77, 0x2C, 0xDB, 0xFE, 0xD3, 0xFE]);
            let back = -(code.len() as i32 + 2);
            code.extend_from_slice(&[0x18, back as u8]);
            m.poke_bytes(*base, &code);
            let mut rf = RegFile::default();
            rf.pc = *base;
            rf.sp = 0xBF00;
            rf.hl = 0x9800;
            rf.im = 1;
            rf.iff1 = true;
            rf.iff2 = true;
            rf.iy = 0x5C3A;
            m.set_regs(&rf);
        }
        Scenario::Snap { name, .. } => {
            let p = td.join(name);
            let raw = gunzip(&p);
            m.emu.load_snapshot(Snapshot::Sna(make_asset(asset, &p, &raw, tag))).expect("snapshot");
        }
        Scenario::TapeLoad { .. } => {
            let p = td.join("simple_tape.tap.gz");
            let raw = gunzip(&p);
            m.emu.load_tape(Tape::Tap(make_asset(asset, &p, &raw, tag))).expect("tape");
            if !cfg.fastload {
                m.emu.play_tape();
            }
        }
    }
    // an emulator that has been running for 22 minutes: the frames pass quickly because the frame
    // clock is put just before each frame's end (hook); the same for every driving of the tuple
    let age = AGE.with(|a| a.get());
    if age > 0 {
        let fl = m.frame_len();
        for _ in 0..age {
            m.set_clock(fl - 4);
            m.run_frames(1);
        }
        m.drain_audio();
    }
    m
}

thread_local! {
    /// frames every machine of the current tuple has behind it when the driving starts
    static AGE: std::cell::Cell<u64> = std::cell::Cell::new(0);
}

fn audio_hash(h: &mut u64, v: &[(f32, f32)]) {
    for (l, r) in v {
        fnv1a(h, &l.to_bits().to_le_bytes());
        fnv1a(h, &r.to_bits().to_le_bytes());
    }
}

/// result: per checkpoint frame (core, video), final audio hash, samples
struct Trace {
    /// instruction count (debug-interface calls) at every frame boundary of this run
    boundaries: Vec<u64>,
    points: Vec<(usize, u64, u64)>,
    audio: u64,
    samples: u64,
}

fn drive(scn: &Scenario, asset: AssetKind, drv: &Driving, ev: &Events, checkpoints: &[usize], total: usize, tag: u64, base_boundaries: &[u64]) -> Result<Trace, String> {
    let mut m = build(scn, asset, tag);
    let mut tr = Trace { boundaries: vec![], points: vec![], audio: FNV_INIT, samples: 0 };
    m.dbg().calls = 0;
    let mut frame = 0usize;
    let apply = |m: &mut Machine, frame: usize| {
        for (f, i) in ev.keys.iter() {
            if *f == frame {
                send(m, i);
            }
        }
    };
    let check = |m: &mut Machine, tr: &mut Trace, frame: usize| {
        if checkpoints.contains(&frame) {
            let c = m.digest_core();
            let v = m.digest_video();
            tr.points.push((frame, c, v));
        }
    };
    match drv {
        Driving::PerFrame { drain, sound, ay } => {
            m.emu.set_sound(*sound);
            m.emu.set_ay_enabled(*ay);
            m.dbg().mode = DbgMode::Never;
            m.emu.set_speed(EmulationMode::FrameCount(1));
            while frame < total {
                apply(&mut m, frame);
                m.emu.emulate_frames(Duration::from_secs(100)).map_err(|e| format!("emulate_frames: {}", e))?;
                frame += 1;
                let calls = m.dbg().calls;
                tr.boundaries.push(calls);
                if *drain > 0 && frame % drain == 0 {
                    let a = m.drain_audio();
                    tr.samples += a.len() as u64;
                    audio_hash(&mut tr.audio, &a);
                }
                check(&mut m, &mut tr, frame);
            }
        }
        Driving::Partition(parts, sw) => {
            m.dbg().mode = DbgMode::Never;
            // "any host stopwatch readings": a slow host, a stuck or a jumping stopwatch and a tiny
            // limit must not change how many frames a FrameCount(n) call emulates
            let limit = match sw {
                0 => Duration::from_secs(100),
                1 => Duration::from_micros(1),
                2 => Duration::from_micros(0),
                _ => Duration::from_millis(20),
            };
            set_stopwatch(match sw {
                0 => SwScript::Zero,
                1 => SwScript::Const(3_600_000_000),
                2 => SwScript::List(vec![0, 5_000_000, 1, u64::MAX / 8, 19_999, 20_001]),
                _ => SwScript::List(vec![25_000, 0, 40_000, 19_000]),
            });
            for n in parts {
                apply(&mut m, frame);
                m.emu.set_speed(EmulationMode::FrameCount(*n));
                m.emu.emulate_frames(limit).map_err(|e| format!("emulate_frames: {}", e))?;
                frame += n;
                check(&mut m, &mut tr, frame);
            }
            set_stopwatch(SwScript::Zero);
        }
        Driving::Max(parts, style) => {
            m.dbg().mode = DbgMode::Never;
            m.emu.set_speed(EmulationMode::Max);
            for n in parts {
                apply(&mut m, frame);
                // readings: n-1 values <= limit (in various disorder), then values > limit
                let limit_us = 1000u64;
                let mut v: Vec<u64> = (0..n - 1).map(|i| match style { 0 => 0, 1 => (i as u64 * 37) % 1000, 2 => 1000 - (i as u64 % 7), _ => if i % 2 == 0 { 900 } else { 3 } }).collect();
                v.extend_from_slice(&[limit_us + 1 + *style as u64 * 1_000_000, u64::MAX / 4, 5]);
                set_stopwatch(SwScript::List(v));
                let r = m.emu.emulate_frames(Duration::from_micros(limit_us)).map_err(|e| format!("emulate_frames: {}", e))?;
                if r.stop_reason != EmulationStopReason::Timeout {
                    return Err("Max mode returned without Timeout".into());
                }
                frame += n;
                check(&mut m, &mut tr, frame);
            }
            set_stopwatch(SwScript::Zero);
        }
        Driving::Mixed(at, mseed) => {
            let mut mr = Rng::new(*mseed);
            m.dbg().calls = 0;
            m.dbg().mode = DbgMode::AtCalls(at.clone());
            let mut cuts: Vec<usize> = checkpoints.to_vec();
            cuts.extend(ev.keys.iter().map(|(f, _)| *f).filter(|f| *f > 0));
            cuts.push(total);
            cuts.sort();
            cuts.dedup();
            apply(&mut m, 0);
            let mut guard = 0u32;
            for target in cuts {
                while frame < target {
                    guard += 1;
                    if guard > 100_000 {
                        return Err("mixed-mode driving did not make progress".into());
                    }
                    let left = target - frame;
                    let n = 1 + mr.below(left.min(6) as u64) as usize;
                    if mr.chance(1, 3) {
                        // Max mode: n frame ends, then the stopwatch runs out
                        let mut v: Vec<u64> = (0..n - 1).map(|i| (i as u64 * 211) % 1000).collect();
                        v.extend_from_slice(&[5_000_000, u64::MAX / 4, 7]);
                        set_stopwatch(SwScript::List(v));
                        m.emu.set_speed(EmulationMode::Max);
                        m.emu.emulate_frames(Duration::from_micros(1000)).map_err(|e| format!("emulate_frames: {}", e))?;
                    } else {
                        set_stopwatch(SwScript::Zero);
                        m.emu.set_speed(EmulationMode::FrameCount(n));
                        m.emu.emulate_frames(Duration::from_secs(100)).map_err(|e| format!("emulate_frames: {}", e))?;
                    }
                    let calls = m.dbg().calls;
                    while frame < base_boundaries.len() && calls >= base_boundaries[frame] {
                        frame += 1;
                    }
                    if frame > target {
                        return Err(format!("a call asked to end at frame {} at the latest ran on into frame {}", target, frame));
                    }
                }
                // exactly on the boundary (a call completed its frames, or a breakpoint hit on it)
                if m.dbg().calls == base_boundaries[target - 1] {
                    check(&mut m, &mut tr, target);
                } else {
                    return Err(format!("frame {} ended after {} instructions, the reference run needed {}", target, m.dbg().calls, base_boundaries[target - 1]));
                }
                if target < total {
                    apply(&mut m, target);
                }
            }
            set_stopwatch(SwScript::Zero);
        }
        Driving::Breaks(_) | Driving::BreaksAt(_) | Driving::BreaksPc(_) => {
            m.emu.set_speed(EmulationMode::FrameCount(1));
            m.dbg().calls = 0;
            m.dbg().mode = match drv {
                Driving::Breaks(k) => DbgMode::EveryK(*k),
                Driving::BreaksAt(v) => DbgMode::AtCalls(v.clone()),
                Driving::BreaksPc(v) => DbgMode::Set(v.clone()),
                _ => unreachable!(),
            };
            // Frame boundaries are located by instruction count: the reference run recorded how
            // many instructions precede each boundary, and every FrameCount(1) call returns at the
            // boundary at the latest (a breakpoint on the very instruction that ends a frame masks
            // the Completed reason, so the stop reason cannot be used).
            let mut guard = 0u64;
            apply(&mut m, 0);
            while frame < total {
                m.emu.emulate_frames(Duration::from_secs(100)).map_err(|e| format!("emulate_frames: {}", e))?;
                guard += 1;
                if guard > 50_000_000 {
                    return Err("breakpoint driving did not make progress".into());
                }
                let calls = m.dbg().calls;
                if frame < base_boundaries.len() && calls >= base_boundaries[frame] {
                    frame += 1;
                    tr.boundaries.push(calls);
                    let a = m.drain_audio();
                    tr.samples += a.len() as u64;
                    audio_hash(&mut tr.audio, &a);
                    check(&mut m, &mut tr, frame);
                    if frame < total {
                        apply(&mut m, frame);
                    }
                }
            }
        }
    }
    Ok(tr)
}

fn partition(rng: &mut Rng, cuts: &[usize], total: usize, max_part: usize) -> Vec<usize> {
    // random partition of 0..total in which every cut is a boundary
    let mut parts = vec![];
    let mut pos = 0;
    let mut bounds: Vec<usize> = cuts.iter().cloned().filter(|c| *c > 0 && *c < total).collect();
    bounds.push(total);
    bounds.sort();
    bounds.dedup();
    for b in bounds {
        while pos < b {
            let n = (1 + rng.below(max_part as u64) as usize).min(b - pos);
            parts.push(n);
            pos += n;
        }
    }
    parts
}

struct St {
    tuples: u64,
    aged_tuples: u64,
    frames: u64,
    comparisons: u64,
    kinds: HashSet<String>,
    sample: Vec<J>,
}

fn one_tuple(ctx: &Ctx, rng: &mut Rng, st: &mut St, case: u64) {
    // one tuple in 24: the 65536th frame since power-on ends within the first 18 frames of the run
    let age = if case % 24 == 5 { 65_536 - 3 - rng.below(15) } else { 0 };
    AGE.with(|a| a.set(age));
    if age > 0 {
        st.aged_tuples += 1;
    }
    one_tuple_inner(ctx, rng, st, case);
    AGE.with(|a| a.set(0));
}

fn one_tuple_inner(ctx: &Ctx, rng: &mut Rng, st: &mut St, case: u64) {
    let is128 = rng.bool();
    let scn = match rng.below(9) {
        8 => Scenario::TapePoll { is128, iff: rng.bool() },
        7 => Scenario::HaltLoop { is128, base: *rng.pick(&[0x6000u16, 0x5CCB, 0x7FF8, 0x8000, 0xC000]), pad: rng.below(8) as u8 },
        0 => Scenario::Boot { is128 },
        1 | 2 => Scenario::Program { is128, seed: rng.next() },
        3 => Scenario::Snap { name: "sound.48k.sna.gz", is128: false },
        4 => Scenario::Snap { name: "sound.128k.sna.gz", is128: true },
        5 => Scenario::Snap { name: "keyboard.48k.sna.gz", is128: false },
        _ => Scenario::TapeLoad { is128, fast: rng.bool() },
    };
    let mut total = if ctx.quick() { 20 + rng.below(60) as usize } else { 100 + rng.below(200) as usize };
    if matches!(scn, Scenario::TapePoll { .. }) {
        total = 165 + rng.below(40) as usize; // the tape stops by itself around frame 151
    }
    // events at a few frames
    let n_ev = rng.below(10) as usize;
    let mut ev_frames: Vec<usize> = (0..n_ev).map(|_| rng.below(total as u64) as usize).collect();
    ev_frames.sort();
    let ev = Events { keys: ev_frames.iter().map(|f| (*f, random_input(rng))).collect() };
    let mut checkpoints: Vec<usize> = ev_frames.iter().cloned().filter(|f| *f > 0).collect();
    checkpoints.push(total);
    checkpoints.sort();
    checkpoints.dedup();
    let base_drv = Driving::PerFrame { drain: 1, sound: true, ay: true };
    let scn_name = format!("{:?}", scn);
    let all_frames: Vec<usize> = (1..=total).collect();
    let dense = std::env::var("VERIF_C16_ALLFRAMES").is_ok();
    let base = match crate::host::catch(|| drive(&scn, AssetKind::Buffer, &base_drv, &ev, if dense { &all_frames } else { &checkpoints }, total, case * 16, &[])) {
        Ok(Ok(t)) => t,
        Ok(Err(e)) => {
            ctx.violation("driving:error", &format!("{} failed under the reference driving: {}", scn_name, e), jobj! {"case"=>case});
            return;
        }
        Err(p) => {
            ctx.violation("driving:panic", &format!("{} panicked under the reference driving: {}", scn_name, p), jobj! {"case"=>case});
            return;
        }
    };
    st.frames += total as u64;
    // alternatives
    let mut alts: Vec<(String, Driving, AssetKind, bool)> = vec![];
    alts.push(("repeat".into(), base_drv.clone(), AssetKind::Buffer, true));
    alts.push(("partition".into(), Driving::Partition(partition(rng, &checkpoints, total, 5), rng.below(4) as u8), AssetKind::Buffer, false));
    alts.push(("max-mode".into(), Driving::Max(partition(rng, &checkpoints, total, 4), rng.below(4) as u8), AssetKind::Buffer, false));
    let kmax = if rng.bool() { 50 } else { 20000 };
    alts.push(("breaks-every-k".into(), Driving::Breaks(1 + rng.below(kmax)), AssetKind::Buffer, true));
    let mut at: Vec<u64> = (0..30).map(|_| 1 + rng.below(total as u64 * 9000)).collect();
    at.sort();
    at.dedup();
    alts.push(("breaks-at".into(), Driving::BreaksAt(at), AssetKind::Buffer, true));
    // breakpoints on addresses where the emulator itself hooks in or that run every frame:
    // tape trap (LD-BREAK 0x056B), interrupt entry, SA/LD-RET, keyboard scan, plus random ones
    let mut pcs: Vec<u16> = vec![0x056B, 0x0038, 0x053F, 0x0556, 0x05E2, 0x02BF, 0x0066, 0x8000];
    for _ in 0..6 {
        pcs.push(rng.u16());
    }
    alts.push(("breaks-at-pcs".into(), Driving::BreaksPc(pcs), AssetKind::Buffer, true));
    let mut at2: Vec<u64> = (0..12).map(|_| 1 + rng.below(total as u64 * 9000)).collect();
    at2.sort();
    at2.dedup();
    alts.push(("mixed-modes".into(), Driving::Mixed(at2, rng.next()), AssetKind::Buffer, false));
    alts.push(("sound-off".into(), Driving::PerFrame { drain: 1, sound: false, ay: true }, AssetKind::Buffer, false));
    alts.push(("ay-mix-off".into(), Driving::PerFrame { drain: 1, sound: true, ay: false }, AssetKind::Buffer, false));
    alts.push(("drain-every-3".into(), Driving::PerFrame { drain: 3, sound: true, ay: true }, AssetKind::Buffer, false));
    alts.push(("never-drain".into(), Driving::PerFrame { drain: 0, sound: true, ay: true }, AssetKind::Buffer, false));
    if matches!(scn, Scenario::TapePoll { .. }) {
        alts.push(("asset-file".into(), base_drv.clone(), AssetKind::File, true));
        alts.push(("asset-short-read".into(), base_drv.clone(), AssetKind::Short(*rng.pick(&[1usize, 7, 100])), true));
    }
    if matches!(scn, Scenario::Snap { .. } | Scenario::TapeLoad { .. }) {
        alts.push(("asset-file".into(), base_drv.clone(), AssetKind::File, true));
        alts.push(("asset-gzip".into(), base_drv.clone(), AssetKind::Gzip, true));
        alts.push(("asset-short-read".into(), base_drv.clone(), AssetKind::Short(*rng.pick(&[1usize, 7, 100, 4096])), true));
    }
    // quick: a random subset of 5; thorough: all
    if ctx.quick() {
        rng.shuffle(&mut alts);
        // the breakpoint-on-hook-addresses driving always stays for tape scenarios
        if matches!(scn, Scenario::TapeLoad { .. }) {
            if let Some(i) = alts.iter().position(|a| a.0 == "breaks-at-pcs") {
                alts.swap(0, i);
            }
        }
        // halting loops are what speed modes may shortcut: keep Max mode and FrameCount(n)
        if matches!(scn, Scenario::HaltLoop { .. } | Scenario::TapePoll { .. }) {
            for (slot, name) in ["max-mode", "partition"].iter().enumerate() {
                if let Some(i) = alts.iter().position(|a| a.0 == *name) {
                    alts.swap(slot, i);
                }
            }
        }
        alts.truncate(5);
    }
    for (i, (name, drv, asset, audio)) in alts.iter().enumerate() {
        st.tuples += 1;
        st.kinds.insert(format!("{}|{}", scn_name.split(' ').next().unwrap_or(""), name));
        let per_frame_capable = matches!(drv, Driving::PerFrame { .. } | Driving::Breaks(_) | Driving::BreaksAt(_) | Driving::BreaksPc(_) | Driving::Mixed(..));
        if dense && !per_frame_capable {
            continue;
        }
        let t = match crate::host::catch(|| drive(&scn, *asset, drv, &ev, if dense { &all_frames } else { &checkpoints }, total, case * 16 + 1 + i as u64, &base.boundaries)) {
            Ok(Ok(t)) => t,
            Ok(Err(e)) => {
                ctx.violation(&format!("driving:{}:error", name), &format!("{} under driving '{}' failed: {}", scn_name, name, e), jobj! {"case"=>case});
                continue;
            }
            Err(p) => {
                ctx.violation(&format!("driving:{}:panic", name), &format!("{} under driving '{}' panicked: {}", scn_name, name, p), jobj! {"case"=>case});
                continue;
            }
        };
        st.frames += total as u64;
        if t.points.len() != base.points.len() {
            ctx.violation(&format!("driving:{}:frame-count", name), &format!("{}: driving '{}' visited {} checkpoints instead of {}", scn_name, name, t.points.len(), base.points.len()), jobj! {"case"=>case,"driving"=>format!("{:?}", drv)});
            continue;
        }
        for (a, b) in base.points.iter().zip(t.points.iter()) {
            st.comparisons += 1;
            if a.1 != b.1 || a.2 != b.2 {
                let what = if a.1 != b.1 { "cpu/memory" } else { "video" };
                ctx.violation(
                    &format!("driving:{}:{}", name, what),
                    &format!("{}: at frame {} the {} digest under driving '{}' differs from one-frame-per-call driving", scn_name, a.0, what, name),
                    jobj! {"case"=>case,"scenario"=>scn_name.as_str(),"driving"=>format!("{:?}", drv),"asset"=>format!("{:?}", asset),"frame"=>a.0,"events"=>format!("{:?}", ev.keys)},
                );
                break;
            }
        }
        if *audio {
            st.comparisons += 1;
            if t.audio != base.audio || t.samples != base.samples {
                ctx.violation(
                    &format!("driving:{}:audio", name),
                    &format!("{}: audio stream under driving '{}' ({} samples) differs from the reference run ({} samples)", scn_name, name, t.samples, base.samples),
                    jobj! {"case"=>case,"scenario"=>scn_name.as_str(),"driving"=>format!("{:?}", drv),"asset"=>format!("{:?}", asset)},
                );
            }
        }
    }
    if st.sample.len() < 3 {
        st.sample.push(jobj! {"scenario"=>scn_name,"frames"=>total,"events"=>format!("{:?}", ev.keys),"drivings"=>J::Arr(alts.iter().map(|a| J::from(format!("{:?}/{:?}", a.1, a.2))).collect())});
    }
}

/// A damaged file (cut short at a random place) is the same bytes whoever delivers them: the outcome
/// of the load (accepted / refused) and the machine afterwards – the host carries on after an error –
/// do not depend on the asset implementation either.
fn damaged_file_twin(ctx: &Ctx, rng: &mut Rng, st: &mut St, case: u64) {
    let is128 = rng.bool();
    let td = repo_root().join("rustzx-test/test_data");
    let full = gunzip(&td.join(if is128 { "sound.128k.sna.gz" } else { "sound.48k.sna.gz" }));
    let cut = match rng.below(4) {
        0 => rng.below(27) as usize,
        1 => 27 + rng.below(200) as usize,
        2 => full.len() - 1 - rng.below(20000) as usize,
        _ => rng.below(full.len() as u64) as usize,
    };
    let bytes = full[..cut].to_vec();
    let run = |kind: u8| -> (bool, u64, u64) {
        let mut m = Machine::new(Cfg::of(is128));
        let r = match kind {
            0 => m.emu.load_snapshot(Snapshot::Sna(rustzx_core::host::BufferCursor::new(bytes.clone()))).is_ok(),
            1 => m.emu.load_snapshot(Snapshot::Sna(mem_asset(bytes.clone()))).is_ok(),
            2 => m.emu.load_snapshot(Snapshot::Sna(DynAsset(Box::new(ShortRead::new(bytes.clone(), 1 + (cut % 97)))))).is_ok(),
            _ => m.emu.load_snapshot(Snapshot::Sna(make_asset(AssetKind::File, &td, &bytes, case * 8 + 7))).is_ok(),
        };
        // the host logs the error and keeps going
        m.dbg().mode = DbgMode::Never;
        m.emu.set_speed(EmulationMode::FrameCount(1));
        for _ in 0..3 {
            let _ = m.emu.emulate_frames(Duration::from_secs(100));
        }
        (r, m.digest_core(), m.digest_video())
    };
    let names = ["in-memory cursor", "boxed in-memory asset", "short reads", "real file"];
    let base = match crate::host::catch(|| run(0)) {
        Ok(b) => b,
        Err(_) => return, // loaders that panic are C15's business
    };
    st.tuples += 1;
    st.kinds.insert("damaged-file|asset-kinds".into());
    for k in 1..4u8 {
        let Ok(o) = crate::host::catch(|| run(k)) else { return };
        st.comparisons += 1;
        st.frames += 3;
        if o != base {
            ctx.violation(
                "asset-kind:damaged-file",
                &format!("{}K SNA cut to {} of {} bytes: delivered by '{}' the load {} and the machine afterwards differs from delivery by '{}' (load {})", if is128 { 128 } else { 48 }, cut, full.len(), names[k as usize], if o.0 { "succeeds" } else { "fails" }, names[0], if base.0 { "succeeds" } else { "fails" }),
                jobj! {"case"=>case,"is128"=>is128,"cut"=>cut,"asset"=>names[k as usize]},
            );
            return;
        }
    }
}

pub fn run(ctx: &Ctx) -> Evidence {
    let n = ctx.scale(160, 3_000) as usize;
    let shards = 32usize;
    let res = par_map(ctx.jobs(), shards, |sh| {
        let mut st = St { tuples: 0, aged_tuples: 0, frames: 0, comparisons: 0, kinds: HashSet::new(), sample: vec![] };
        for i in 0..(n / shards).max(1) {
            let case = (sh * (n / shards).max(1) + i) as u64;
            if let Ok(c) = std::env::var("VERIF_C16_CASE") {
                if c.parse::<u64>().ok() != Some(case) {
                    continue;
                }
            }
            let mut rng = Rng::fork(ctx.seed ^ 0xC16, case);
            one_tuple(ctx, &mut rng, &mut st, case);
            for k in 0..3 {
                let mut r2 = Rng::fork(ctx.seed ^ 0xC16D, case * 4 + k);
                damaged_file_twin(ctx, &mut r2, &mut st, case * 4 + k);
            }
        }
        st
    });
    let mut ev = Evidence::new("scenarios (ROM boot, random programs with interrupts/port I/O, the repository's sound/keyboard snapshots, tape loading in real time and fast) with key events at frame boundaries, each run under the reference driving (one frame per call) and under alternatives: repetition, FrameCount(n) partitions, Max mode with scripted stopwatch readings (zero, increasing, non-monotonic, jumps), breakpoints every k-th instruction / at random instruction counts with resume, sound off, AY mixing off, audio drained every 3rd frame / never, file / gzip / short-read assets; digests compared at every event frame and at the end; plus snapshots cut short at random places delivered by a bare in-memory cursor, a boxed one, short reads and a real file (same outcome, same machine afterwards); one tuple in 24 runs on machines whose 65536th frame ends inside the compared run. distinct = (scenario kind, driving kind) pairs");
    let mut kinds = HashSet::new();
    for r in res {
        ev.evaluations += r.tuples;
        ev.add_num("frames_emulated", r.frames);
        ev.add_num("digest_comparisons", r.comparisons);
        ev.add_num("tuples_on_machines_65536_frames_old", r.aged_tuples);
        kinds.extend(r.kinds);
        for s in r.sample {
            ev.sample(s);
        }
    }
    ev.distinct_nontrivial = kinds.len() as u64;
    ctx.require("scenario x driving kinds", kinds.len() as u64, 30);
    ev.assumptions.push("audio is compared only between one-frame-per-call runs with the same drain policy".into());
    ev
}
