//! C20 – VTX playback is frame-accurate and independent of play() chunking; decoding transposes
//! register-major data into frame-major order without losing or reordering a byte.
//!
//! Observed (real code: `vtx::player::Player::play`, `vtx::Vtx::load`):
//!  A. *Schedule log.* `Player<Rec>` where `Rec` is a harness `AymBackend` that logs
//!     `(sample_index, register, value)` for every `write_register` and returns its running sample
//!     index as the sample. Oracle (from the statement): for a `Vtx` with F frames, spf =
//!     floor(rate/player_frequency): the log equals, for k in 0..F, the writes `(k*spf, r, v[k][r])`
//!     for r = 0..13 in register order, with r = 13 omitted when the value is 0xFF; the samples
//!     delivered are exactly 0,1,2,…,F*spf-1 (per channel) in order; afterwards play() returns 0.
//!     While the track has not ended a call fills its whole usable buffer (len, or len rounded
//!     down to even in stereo) – a short count is how the end is reported, so it must not occur
//!     earlier. Checked for many partitions of the output into buffers (all-1, 2, odd lengths in
//!     stereo, primes, random, one big buffer, empty buffers in between), mono and stereo.
//!  B. *Chunking differential on the real chip.* `Player<AymPrecise>`: the concatenated output
//!     must be bit-identical for every partition, for the sample types i8/i16/i32/f32/f64, mono
//!     and stereo. In stereo the f64 stream must additionally be bit-identical to a reference
//!     produced by the harness driving its own `AymPrecise` (same chip/stereo mode/clock/rate)
//!     with the statement's schedule (frame k's registers written before sample k*spf, R13 skipped
//!     when 0xFF). (Mono: only the differential – the statement does not say how mono is mixed.)
//!  C. *Decoding, synthetic files.* The harness writes a VTX header and packs chosen
//!     register-major data with its own literal-only lh5 encoder (`spec_lh5`); the packed stream
//!     is first validated by decoding it with `delharc` directly (a mismatch there is a harness
//!     fault → inconclusive). `Vtx::load(file).frame_data[f*14+r]` must equal `data[r*F+f]`, and
//!     the header fields / five (ASCII) strings must round-trip.
//!  D. *Decoding, repository files* (`vtx/src/test/*.vtx`): header parsed by the harness, payload
//!     inflated by `delharc` directly, transposed by the harness, compared with `Vtx::load`.
//!
//! Domain: player_frequency ≥ 1 and rate ≥ player_frequency (spf ≥ 1); frame_data a multiple of
//! 14 bytes. Degenerate parameters are outside the judged domain and not generated.
//! Don't-cares: contents of the buffer beyond the returned count; left/right order inside a stereo
//! pair is not judged in A (both values of a pair must carry the same sample index).
//! The AymPrecise low-rate resampler defect (C18/C19 key `ay-resampler-low-rate`) cannot show here:
//! C20 judges schedule and chunk-independence, not signal amplitude, and both sides of every
//! comparison run the same chip code.
use crate::json::{hex, J};
use crate::report::{par_map, repo_root, Ctx, Evidence};
use crate::rng::{fnv1a, Rng, FNV_INIT};
use crate::spec_lh5::{lh5_literal, parse_vtx_header, vtx_file, VtxHeader};
use aym::{AyMode, AymBackend, AymPrecise, StereoSample};
use delharc::decode::{Decoder, Lh5Decoder};
use std::cell::RefCell;
use std::collections::HashSet;
use vtx::player::{Player, PlayerSample};
use vtx::{SoundChip, Stereo, Vtx};

// ------------------------------------------------------------------ recording backend
thread_local! {
    static REC_LOG: RefCell<Vec<(u64, u8, u8)>> = RefCell::new(vec![]);
}
struct Rec {
    n: u64,
}
impl AymBackend for Rec {
    type SoundSample = f64;
    fn new(_chip: aym::SoundChip, _mode: AyMode, _frequency: usize, _sample_rate: usize) -> Self {
        REC_LOG.with(|l| l.borrow_mut().clear());
        Rec { n: 0 }
    }
    fn write_register(&mut self, address: u8, value: u8) {
        REC_LOG.with(|l| l.borrow_mut().push((self.n, address, value)));
    }
    fn next_sample(&mut self) -> StereoSample<f64> {
        let s = StereoSample { left: self.n as f64, right: self.n as f64 + 0.5 };
        self.n += 1;
        s
    }
}

// ------------------------------------------------------------------ helpers
fn stereo_of(i: u8) -> Stereo {
    match i % 7 {
        0 => Stereo::Mono,
        1 => Stereo::ABC,
        2 => Stereo::ACB,
        3 => Stereo::BAC,
        4 => Stereo::BCA,
        5 => Stereo::CAB,
        _ => Stereo::CBA,
    }
}
fn aymode_of(i: u8) -> AyMode {
    match i % 7 {
        0 => AyMode::Mono,
        1 => AyMode::ABC,
        2 => AyMode::ACB,
        3 => AyMode::BAC,
        4 => AyMode::BCA,
        5 => AyMode::CAB,
        _ => AyMode::CBA,
    }
}

#[derive(Clone, Debug)]
struct Track {
    ym: bool,
    stereo: u8,
    frequency: u32,
    pf: u8,
    frames: Vec<[u8; 14]>,
    /// 0..13 stray bytes after the last whole frame (a register dump cut in mid-frame): no frame
    tail: Vec<u8>,
}
impl Track {
    fn vtx(&self) -> Vtx {
        let mut fd = Vec::with_capacity(self.frames.len() * 14);
        for f in self.frames.iter() {
            fd.extend_from_slice(f);
        }
        fd.extend_from_slice(&self.tail);
        Vtx {
            chip: if self.ym { SoundChip::YM } else { SoundChip::AY },
            stereo: stereo_of(self.stereo),
            frequency: self.frequency,
            player_frequency: self.pf,
            loop_start_frame: 0,
            year: 1999,
            title: "t".into(),
            author: "a".into(),
            from: "f".into(),
            tracker: "k".into(),
            comment: "c".into(),
            frame_data: fd,
        }
    }
    fn json(&self) -> J {
        let mut fd = vec![];
        for f in self.frames.iter() {
            fd.extend_from_slice(f);
        }
        jobj! {"ym"=>self.ym,"stereo_mode"=>self.stereo,"frequency"=>self.frequency as u64,"player_frequency"=>self.pf,
        "frames"=>self.frames.len() as u64,"frame_data_hex"=>hex(&fd),"stray_tail_hex"=>hex(&self.tail)}
    }
}

fn gen_track(rng: &mut Rng, max_frames: usize) -> Track {
    let nf = match rng.below(10) {
        0 => 0,
        1 => 1,
        2 => 2,
        _ => rng.below(max_frames as u64 + 1) as usize,
    };
    let r13_mode = rng.below(4);
    let frames = (0..nf)
        .map(|_| {
            let mut f = [0u8; 14];
            let b = rng.bytes(14);
            f.copy_from_slice(&b);
            if rng.chance(1, 4) {
                // musically plausible values: audible volumes, mixer with tone enabled
                f[7] = rng.u8() & 0x3F;
                for r in 8..11 {
                    f[r] = rng.u8() & 0x1F;
                }
                f[1] &= 0x0F;
                f[3] &= 0x0F;
                f[5] &= 0x0F;
            }
            f[13] = match r13_mode {
                0 => 0xFF,
                1 => rng.u8(),
                _ => {
                    if rng.bool() {
                        0xFF
                    } else if rng.chance(1, 8) {
                        *rng.pick(&[0xFEu8, 0x7F, 0x0F, 0xF0, 0x00])
                    } else {
                        rng.u8() & 0x0F
                    }
                }
            };
            f
        })
        .collect();
    Track {
        ym: rng.bool(),
        stereo: rng.below(7) as u8,
        frequency: *rng.pick(&[1_773_400u32, 1_750_000, 2_000_000, 1_000_000]),
        pf: match rng.below(6) {
            0 => 50,
            1 => 1,
            2 => 255,
            3 => 60,
            _ => 1 + rng.below(255) as u8,
        },
        frames,
        tail: if rng.chance(1, 5) { let n = 1 + rng.below(13) as usize; rng.bytes(n) } else { vec![] },
    }
}

/// Partition generators: returns the buffer lengths for successive play() calls; the caller keeps
/// cycling through them (a trailing sequence of calls is added to observe the end).
fn gen_partition(rng: &mut Rng, kind: u64, stereo: bool, total: usize) -> Vec<usize> {
    let ch = if stereo { 2 } else { 1 };
    let mut v = gen_partition0(rng, kind, ch, total);
    if !v.iter().any(|l| *l >= 2) {
        v.push(2 + rng.below(7) as usize); // at least one buffer that can make progress in stereo
    }
    v
}
fn gen_partition0(rng: &mut Rng, kind: u64, ch: usize, total: usize) -> Vec<usize> {
    let stereo = ch == 2;
    match kind {
        0 => vec![total * ch + 7],                         // one big buffer
        1 => vec![if stereo { 2 } else { 1 }],            // one sample at a time
        2 => vec![if stereo { 3 } else { 1 }, 1, 0],      // odd stereo buffers, useless 1/0 calls
        3 => vec![7, 13, 2, 31, 3, 101, 5, 1009],         // primes
        4 => (0..1 + rng.below(8)).map(|_| rng.below(2 * total as u64 * ch as u64 / 3 + 3) as usize).collect(),
        5 => (0..1 + rng.below(6)).map(|_| 1 + rng.below(9) as usize).collect(),
        6 => vec![total * ch],                             // exactly the track
        _ => {
            // odd lengths around multiples of the frame size
            let base = (total / 3).max(1) * ch;
            vec![base + 1, base.saturating_sub(1).max(1), 3, base | 1]
        }
    }
}

trait Bits: Copy + Default {
    fn bits(self) -> u64;
}
impl Bits for i8 {
    fn bits(self) -> u64 {
        self as u8 as u64
    }
}
impl Bits for i16 {
    fn bits(self) -> u64 {
        self as u16 as u64
    }
}
impl Bits for i32 {
    fn bits(self) -> u64 {
        self as u32 as u64
    }
}
impl Bits for f32 {
    fn bits(self) -> u64 {
        self.to_bits() as u64
    }
}
impl Bits for f64 {
    fn bits(self) -> u64 {
        self.to_bits()
    }
}

struct PlayOut {
    /// concatenated filled parts, as raw bits
    stream: Vec<u64>,
    /// (buffer length, returned count) per call
    calls: Vec<(usize, usize)>,
    /// a returned count exceeded the buffer
    overrun: bool,
}

/// Drives `play` with the cyclic partition until `expect_total` values were delivered or the
/// player stalls (`max_stall` consecutive calls that could have produced data but returned 0),
/// then makes three more calls with a non-trivial buffer to observe the end report.
fn drive<AY: AymBackend, S: PlayerSample + Bits>(p: &mut Player<AY>, part: &[usize], stereo: bool, expect_total: usize) -> PlayOut {
    drive_disturbed::<AY, S>(p, part, stereo, expect_total, None)
}

/// `disturb`: after that many play() calls the caller asks for a frame that does not exist
/// (`set_frame` refuses and must leave the playback alone)
fn drive_disturbed<AY: AymBackend, S: PlayerSample + Bits>(p: &mut Player<AY>, part: &[usize], stereo: bool, expect_total: usize, disturb: Option<(usize, usize)>) -> PlayOut {
    let mut out = PlayOut { stream: Vec::with_capacity(expect_total), calls: vec![], overrun: false };
    let min_useful = if stereo { 2 } else { 1 };
    let mut i = 0usize;
    let mut stall = 0;
    let max_calls = expect_total * 12 + 64;
    while out.stream.len() < expect_total && out.calls.len() < max_calls {
        let len = part[i % part.len()];
        i += 1;
        let mut buf = vec![S::default(); len];
        let n = p.play(&mut buf);
        out.calls.push((len, n));
        if n > len {
            out.overrun = true;
            break;
        }
        out.stream.extend(buf[..n].iter().map(|s| s.bits()));
        if let Some((after, bad_frame)) = disturb {
            if out.calls.len() == after && p.set_frame(bad_frame) {
                out.overrun = true; // a frame beyond the end was accepted
                break;
            }
        }
        if len >= min_useful {
            if n == 0 {
                stall += 1;
                if stall >= 3 {
                    break;
                }
            } else {
                stall = 0;
            }
        }
    }
    for len in [8usize, 3, 64] {
        let mut buf = vec![S::default(); len];
        let n = p.play(&mut buf);
        out.calls.push((len, n));
        if n > len {
            out.overrun = true;
            break;
        }
        out.stream.extend(buf[..n].iter().map(|s| s.bits()));
    }
    out
}

fn calls_json(c: &[(usize, usize)]) -> J {
    J::Arr(c.iter().take(64).map(|(l, n)| J::Arr(vec![J::from(*l as u64), J::from(*n as u64)])).collect())
}

#[derive(Default)]
struct Stats {
    evals: u64,
    sched_cases: u64,
    long_logs: u64,
    second_passes: u64,
    refused_seeks: u64,
    diff_cases: u64,
    ref_cases: u64,
    decode_cases: u64,
    events: u64,
    samples: u64,
    r13_skips: u64,
    odd_stereo_calls: u64,
    distinct: HashSet<u64>,
    sample: Option<J>,
}

// ------------------------------------------------------------------ A: schedule log
fn schedule_case(ctx: &Ctx, rng: &mut Rng, id: u64, st: &mut Stats) {
    // one case in 40 is a very long log (around and beyond 65536 frames: the container's data size is
    // a 32-bit field, nothing bounds the frame count to 16 bits) played at 1-2 samples per frame
    let long = id % 40 == 17;
    let t = if long {
        let mut t = gen_track(rng, 8);
        let nf = *rng.pick(&[65_535usize, 65_536, 65_537, 65_541, 70_001, 131_073]);
        let proto: Vec<[u8; 14]> = (0..64).map(|_| { let mut f = [0u8; 14]; f.copy_from_slice(&rng.bytes(14)); if rng.chance(3, 4) { f[13] = 0xFF; } f }).collect();
        t.frames = (0..nf).map(|k| { let mut f = proto[k % 61 % 64]; f[0] = k as u8; f[2] = (k >> 8) as u8; f[4] = (k >> 16) as u8; f }).collect();
        t
    } else {
        gen_track(rng, 300)
    };
    let pf = t.pf as usize;
    let rate = match if long { rng.below(2) } else { rng.below(8) } {
        0 => pf,                       // spf = 1
        1 => pf + rng.below(pf as u64) as usize, // still spf = 1
        2 => 2 * pf + rng.below(pf as u64) as usize,
        3 => *rng.pick(&[8000usize, 11025, 22050, 44100, 48000, 96000, 192000]),
        _ => pf * (1 + rng.below(60) as usize) + rng.below(pf as u64) as usize,
    };
    let spf = rate / pf;
    if spf == 0 {
        return;
    }
    // keep the amount of work bounded: shorten the track, never the frame length
    let mut t = t;
    let max_frames = (400_000 / spf).max(2);
    t.frames.truncate(max_frames);
    let nf = t.frames.len();
    let stereo = rng.bool();
    let ch = if stereo { 2 } else { 1 };
    let total = nf * spf;
    // expected log
    let mut want: Vec<(u64, u8, u8)> = vec![];
    for (k, f) in t.frames.iter().enumerate() {
        for r in 0..14u8 {
            if r == 13 && f[13] == 0xFF {
                st.r13_skips += 1;
                continue;
            }
            want.push(((k * spf) as u64, r, f[r as usize]));
        }
    }
    let kind = rng.below(8);
    let part = gen_partition(rng, kind, stereo, total);
    let mut vt = t.vtx();
    let loop_start = if nf > 0 { rng.below(nf.min(65_536) as u64) as usize } else { 0 };
    vt.loop_start_frame = loop_start as u16;
    let mut p = Player::<Rec>::new(vt, rate, stereo);
    let disturb = if rng.chance(1, 3) && nf > 0 { Some((1 + rng.below(6) as usize, nf + rng.below(3) as usize)) } else { None };
    if disturb.is_some() {
        st.refused_seeks += 1;
    }
    let out = drive_disturbed::<Rec, f64>(&mut p, &part, stereo, total * ch, disturb);
    let got: Vec<(u64, u8, u8)> = REC_LOG.with(|l| l.borrow().clone());
    // a second pass after the end was reported: rewind / rewind_loop / set_frame restart the schedule
    // at frame k (the player resets the envelope shape first), again (frames-k)*spf samples long
    let second = if nf > 0 && nf < 5000 && !out.overrun && out.stream.len() == total * ch {
        let (op, k) = match rng.below(3) {
            0 => ("rewind", 0usize),
            1 => ("rewind_loop", loop_start),
            _ => ("set_frame", rng.below(nf as u64) as usize),
        };
        match op {
            "rewind" => p.rewind(),
            "rewind_loop" => p.rewind_loop(),
            _ => {
                let _ = p.set_frame(k);
            }
        }
        let out2 = drive::<Rec, f64>(&mut p, &part, stereo, (nf - k) * spf * ch);
        let log2: Vec<(u64, u8, u8)> = REC_LOG.with(|l| l.borrow()[got.len()..].to_vec());
        Some((op, k, out2, log2))
    } else {
        None
    };
    st.evals += 1;
    st.sched_cases += 1;
    if nf >= 65_535 {
        st.long_logs += 1;
    }
    st.events += got.len() as u64;
    st.samples += out.stream.len() as u64;
    let wit = |what: &str| {
        jobj! {"monitor"=>"schedule","case"=>id,"what"=>what,"track"=>t.json(),"rate"=>rate as u64,"stereo"=>stereo,
        "samples_per_frame"=>spf as u64,"partition"=>J::Arr(part.iter().map(|x|J::from(*x as u64)).collect()),
        "calls_len_ret"=>calls_json(&out.calls)}
    };
    if out.overrun {
        ctx.violation("play-count-exceeds-buffer", "play() returned more than the buffer length", wit("overrun"));
        return;
    }
    // 1. delivered samples: indices 0..total in order, both values of a stereo pair equal index
    let mut ok_stream = out.stream.len() == total * ch;
    if ok_stream {
        for (i, b) in out.stream.iter().enumerate() {
            let v = f64::from_bits(*b);
            if v.floor() != (i / ch) as f64 {
                ok_stream = false;
                break;
            }
        }
    }
    if !ok_stream {
        let key = if out.stream.len() != total * ch { "total-sample-count" } else { "sample-order" };
        let mut w = wit("delivered samples differ from 0..frames*spf");
        if let J::Obj(o) = &mut w {
            o.push(("delivered".into(), J::from(out.stream.len() as u64)));
            o.push(("expected".into(), J::from((total * ch) as u64)));
        }
        ctx.violation(key, &format!("play() delivered {} values, statement says frames*floor(rate/pf)*channels = {}", out.stream.len(), total * ch), w);
    }
    // 2. per-call counts: full usable buffer until the end, then 0
    let mut produced = 0usize;
    for (len, n) in out.calls.iter() {
        let usable = if stereo { len & !1 } else { *len };
        if stereo && len % 2 == 1 && *len > 1 {
            st.odd_stereo_calls += 1;
        }
        let exp = usable.min(total * ch - produced.min(total * ch));
        if *n != exp {
            ctx.violation("play-return-count", &format!("play() returned {} for a buffer of {}, expected {}", n, len, exp), wit("per-call count"));
            break;
        }
        produced += n;
    }
    // 3. register write log
    if got != want {
        let idx = got.iter().zip(want.iter()).position(|(a, b)| a != b).unwrap_or(got.len().min(want.len()));
        let g = got.get(idx).copied();
        let w = want.get(idx).copied();
        let key = match (g, w) {
            (Some(g), Some(w)) if g.1 == w.1 && g.2 == w.2 => "register-write-at-wrong-sample",
            (Some(g), Some(w)) if g.1 == 13 && g.2 == 0xFF && w.1 != 13 => "r13-ff-written",
            (None, Some(_)) => "register-writes-missing",
            (Some(_), None) => "register-writes-extra",
            _ => "register-write-mismatch",
        };
        let mut j = wit("register write log differs from the statement's schedule");
        if let J::Obj(o) = &mut j {
            o.push(("first_difference_index".into(), J::from(idx as u64)));
            o.push(("got_sample_reg_val".into(), g.map(|x| J::Arr(vec![J::from(x.0), J::from(x.1), J::from(x.2)])).unwrap_or(J::Null)));
            o.push(("want_sample_reg_val".into(), w.map(|x| J::Arr(vec![J::from(x.0), J::from(x.1), J::from(x.2)])).unwrap_or(J::Null)));
        }
        ctx.violation(key, "register writes do not happen at sample k*floor(rate/pf) in register order with R13=0xFF skipped", j);
    }
    if let Some((op, k, out2, log2)) = second {
        st.second_passes += 1;
        let exp = (nf - k) * spf * ch;
        let mut want2: Vec<(u64, u8, u8)> = vec![(total as u64, 13, 0)];
        for (j, f) in t.frames.iter().enumerate().skip(k) {
            for r in 0..14u8 {
                if r == 13 && f[13] == 0xFF {
                    continue;
                }
                want2.push(((total + (j - k) * spf) as u64, r, f[r as usize]));
            }
        }
        if out2.stream.len() != exp {
            let mut w = wit("second pass");
            w.set("restart", J::from(format!("{} -> frame {}", op, k)));
            ctx.violation("second-pass:total-sample-count", &format!("after the end was reported, {}() restarts at frame {} of {}: play() delivered {} values, (frames-k)*floor(rate/pf)*channels = {}", op, k, nf, out2.stream.len(), exp), w);
        } else if log2 != want2 {
            let idx = log2.iter().zip(want2.iter()).position(|(a, b)| a != b).unwrap_or(log2.len().min(want2.len()));
            let mut w = wit("second pass");
            w.set("restart", J::from(format!("{} -> frame {}", op, k)));
            w.set("first_difference_index", J::from(idx as u64));
            w.set("got", J::from(format!("{:?}", log2.get(idx))));
            w.set("want", J::from(format!("{:?}", want2.get(idx))));
            ctx.violation("second-pass:register-writes", &format!("after {}() the register writes do not follow the schedule from frame {} on", op, k), w);
        }
    }
    let mut h = FNV_INIT;
    fnv1a(&mut h, &[stereo as u8, kind as u8, (nf.min(255)) as u8, (spf.min(255)) as u8, (nf == 0) as u8]);
    fnv1a(&mut h, &(rate as u32).to_le_bytes());
    st.distinct.insert(h);
    if st.sample.is_none() && nf > 2 {
        st.sample = Some(jobj! {"monitor"=>"schedule","frames"=>nf as u64,"rate"=>rate as u64,"pf"=>pf as u64,"stereo"=>stereo,"partition_kind"=>kind,"writes_logged"=>got.len() as u64});
    }
}

// ------------------------------------------------------------------ B: real chip
fn play_typed<S: PlayerSample + Bits>(t: &Track, rate: usize, stereo: bool, part: &[usize], total_vals: usize) -> PlayOut {
    let mut p = Player::<AymPrecise>::new(t.vtx(), rate, stereo);
    drive::<AymPrecise, S>(&mut p, part, stereo, total_vals)
}

fn reference_stream(t: &Track, rate: usize) -> Vec<u64> {
    let spf = rate / t.pf as usize;
    let chip = if t.ym { aym::SoundChip::YM } else { aym::SoundChip::AY };
    let mut ay = AymPrecise::new(chip, aymode_of(t.stereo), t.frequency as usize, rate);
    let mut out = Vec::with_capacity(t.frames.len() * spf * 2);
    for f in t.frames.iter() {
        for r in 0..14u8 {
            if r == 13 && f[13] == 0xFF {
                continue;
            }
            ay.write_register(r, f[r as usize]);
        }
        for _ in 0..spf {
            let s = ay.next_sample();
            out.push(s.left.to_bits());
            out.push(s.right.to_bits());
        }
    }
    out
}

fn diff_case(ctx: &Ctx, rng: &mut Rng, id: u64, st: &mut Stats) {
    let mut t = gen_track(rng, 24);
    if t.frames.is_empty() && rng.chance(3, 4) {
        t = gen_track(rng, 24);
    }
    t.pf = match rng.below(4) {
        0 => 50,
        1 => 200 + rng.below(56) as u8,
        _ => 25 + rng.below(100) as u8,
    };
    let rate = *rng.pick(&[8000usize, 11025, 22050, 32000, 44100, 48000, 96000]);
    let spf = rate / t.pf as usize;
    let nf = t.frames.len();
    let stereo = rng.bool();
    let ch = if stereo { 2 } else { 1 };
    let total_vals = nf * spf * ch;
    let ty = rng.below(5);
    let big = vec![total_vals + 5];
    let kinds: Vec<u64> = {
        let mut k = vec![1u64, 2, 3, 4, 5, 6, 7];
        rng.shuffle(&mut k);
        k.truncate(3);
        k
    };
    macro_rules! run_ty {
        ($S:ty, $name:expr) => {{
            let base = play_typed::<$S>(&t, rate, stereo, &big, total_vals);
            st.samples += base.stream.len() as u64;
            if base.stream.len() != total_vals {
                ctx.violation("total-sample-count", &format!("one-buffer play delivered {} values, expected {}", base.stream.len(), total_vals),
                    jobj!{"monitor"=>"chunking","case"=>id,"track"=>t.json(),"rate"=>rate as u64,"stereo"=>stereo,"type"=>$name});
            }
            for kind in kinds.iter() {
                let part = gen_partition(rng, *kind, stereo, nf * spf);
                let o = play_typed::<$S>(&t, rate, stereo, &part, total_vals);
                st.evals += 1;
                st.samples += o.stream.len() as u64;
                if o.stream != base.stream {
                    let idx = o.stream.iter().zip(base.stream.iter()).position(|(a, b)| a != b).unwrap_or(o.stream.len().min(base.stream.len()));
                    ctx.violation("chunking-changes-stream", &format!("sample stream depends on the play() partition (first difference at value {}, lengths {} vs {})", idx, o.stream.len(), base.stream.len()),
                        jobj!{"monitor"=>"chunking","case"=>id,"track"=>t.json(),"rate"=>rate as u64,"stereo"=>stereo,"type"=>$name,
                        "partition"=>J::Arr(part.iter().map(|x|J::from(*x as u64)).collect()),"first_difference"=>idx as u64,"calls_len_ret"=>calls_json(&o.calls)});
                }
                let mut h = FNV_INIT;
                fnv1a(&mut h, &[1, stereo as u8, *kind as u8, ty as u8, (rate / 1000) as u8, nf as u8]);
                st.distinct.insert(h);
            }
            base
        }};
    }
    st.diff_cases += 1;
    let base_f64 = match ty {
        0 => {
            run_ty!(i8, "i8");
            None
        }
        1 => {
            run_ty!(i16, "i16");
            None
        }
        2 => {
            run_ty!(i32, "i32");
            None
        }
        3 => {
            run_ty!(f32, "f32");
            None
        }
        _ => Some(run_ty!(f64, "f64")),
    };
    if let (Some(base), true) = (base_f64, stereo) {
        let r = reference_stream(&t, rate);
        st.ref_cases += 1;
        st.evals += 1;
        if r != base.stream {
            let idx = r.iter().zip(base.stream.iter()).position(|(a, b)| a != b).unwrap_or(r.len().min(base.stream.len()));
            let frame = idx / 2 / spf.max(1);
            ctx.violation("stream-differs-from-scheduled-reference", &format!("Player<AymPrecise> stereo f64 stream differs from a chip driven with the statement's schedule (value {}, frame {})", idx, frame),
                jobj!{"monitor"=>"reference","case"=>id,"track"=>t.json(),"rate"=>rate as u64,"first_difference"=>idx as u64,"frame"=>frame as u64,
                "got_len"=>base.stream.len() as u64,"want_len"=>r.len() as u64});
        }
    }
}

// ------------------------------------------------------------------ C/D: decoding
/// `Read + Seek` over a buffer whose `read` returns at most `chunk` bytes (0 = no limit): a host
/// reader is allowed to return short reads, and what is decoded must not depend on it.
struct ChunkedReader {
    inner: std::io::Cursor<Vec<u8>>,
    chunk: usize,
}
impl std::io::Read for ChunkedReader {
    fn read(&mut self, buf: &mut [u8]) -> std::io::Result<usize> {
        let n = if self.chunk == 0 { buf.len() } else { buf.len().min(self.chunk) };
        self.inner.read(&mut buf[..n])
    }
}
impl std::io::Seek for ChunkedReader {
    fn seek(&mut self, p: std::io::SeekFrom) -> std::io::Result<u64> {
        self.inner.seek(p)
    }
}
fn chunked(file: &[u8]) -> ChunkedReader {
    let mut h = FNV_INIT;
    fnv1a(&mut h, &file[..file.len().min(512)]);
    ChunkedReader { inner: std::io::Cursor::new(file.to_vec()), chunk: [0usize, 0, 1, 7, 40, 255, 256][(h % 7) as usize] }
}

fn delharc_unpack(packed: &[u8], n: usize) -> Result<Vec<u8>, String> {
    let mut out = vec![0u8; n];
    let mut d = Lh5Decoder::new(std::io::Cursor::new(packed));
    d.fill_buffer(&mut out).map_err(|e| format!("{}", e))?;
    Ok(out)
}

fn ascii(rng: &mut Rng, max: usize) -> String {
    let n = match rng.below(4) {
        0 => 0,
        _ => rng.below(max as u64 + 1) as usize,
    };
    (0..n).map(|_| (0x20 + rng.below(0x5F) as u8) as char).collect()
}

fn check_loaded(ctx: &Ctx, what: &str, v: &Vtx, h: &VtxHeader, regmajor: &[u8], wit: &dyn Fn() -> J) {
    let nf = regmajor.len() / 14;
    if v.frame_data.len() != regmajor.len() {
        ctx.violation("decode-length", &format!("{}: frame_data has {} bytes, file holds {}", what, v.frame_data.len(), regmajor.len()), wit());
        return;
    }
    for f in 0..nf {
        for r in 0..14 {
            if v.frame_data[f * 14 + r] != regmajor[r * nf + f] {
                ctx.violation("decode-transposition", &format!("{}: frame {} register {} is {:02x}, register-major data says {:02x}", what, f, r, v.frame_data[f * 14 + r], regmajor[r * nf + f]), wit());
                return;
            }
        }
    }
    let chip_ok = matches!((&v.chip, h.ym), (SoundChip::YM, true) | (SoundChip::AY, false));
    let hdr_ok = chip_ok
        && format!("{:?}", v.stereo) == format!("{:?}", stereo_of(h.stereo))
        && v.frequency == h.frequency
        && v.player_frequency == h.player_frequency
        && v.loop_start_frame == h.loop_frame
        && v.year == h.year;
    if !hdr_ok {
        ctx.violation("decode-header-field", &format!("{}: header fields do not round-trip", what), wit());
    }
    let got = [&v.title, &v.author, &v.from, &v.tracker, &v.comment];
    for i in 0..5 {
        if *got[i] != h.strings[i] {
            ctx.violation("decode-header-string", &format!("{}: string {} is {:?}, file says {:?}", what, i, got[i], h.strings[i]), wit());
            break;
        }
    }
}

fn decode_case(ctx: &Ctx, rng: &mut Rng, id: u64, st: &mut Stats) {
    let nf = match rng.below(8) {
        0 => 0usize,
        1 => 1,
        2 => 2 + rng.below(14) as usize,
        _ => rng.below(1500) as usize,
    };
    // register-major data with distinguishable contents
    let mut data = vec![0u8; nf * 14];
    match rng.below(4) {
        0 => {
            for (i, b) in data.iter_mut().enumerate() {
                *b = (i as u32).wrapping_mul(2654435761).rotate_left(9) as u8; // position-dependent marker
            }
        }
        1 => {
            // long runs (exercises the single-symbol block flavour)
            let mut i = 0;
            while i < data.len() {
                let v = rng.u8();
                let n = 1 + rng.below(200) as usize;
                for b in data[i..(i + n).min(nf * 14)].iter_mut() {
                    *b = v;
                }
                i += n;
            }
        }
        _ => rng.fill(&mut data),
    }
    let h = VtxHeader {
        ym: rng.bool(),
        stereo: rng.below(7) as u8,
        loop_frame: rng.u16(),
        frequency: if rng.bool() { 1_773_400 } else { rng.u32() },
        player_frequency: rng.u8(),
        year: rng.u16(),
        strings: [ascii(rng, 40), ascii(rng, 40), ascii(rng, 40), ascii(rng, 30), ascii(rng, 60)],
    };
    let packed = lh5_literal(&data, rng);
    match delharc_unpack(&packed, data.len()) {
        Ok(d) if d == data => {}
        other => {
            ctx.inconclusive(&format!("harness lh5 encoder output not decodable by delharc (case {}): {:?}", id, other.err()));
            return;
        }
    }
    let file = vtx_file(&h, data.len() as u32, &packed);
    let wit = || jobj! {"monitor"=>"decode-synthetic","case"=>id,"file_hex"=>hex(&file[..file.len().min(6000)]),"file_len"=>file.len() as u64,"frames"=>nf as u64};
    st.evals += 1;
    st.decode_cases += 1;
    st.samples += data.len() as u64;
    match crate::host::catch(|| Vtx::load(chunked(&file[..]))) {
        Ok(Ok(v)) => check_loaded(ctx, "synthetic file", &v, &h, &data, &wit),
        Ok(Err(e)) => ctx.violation("decode-rejects-valid-file", &format!("Vtx::load failed on a well-formed file: {}", e), wit()),
        Err(p) => ctx.violation("decode-panics-on-valid-file", &format!("Vtx::load panicked on a well-formed file: {}", p), wit()),
    }
    let mut hh = FNV_INIT;
    fnv1a(&mut hh, &[2, (nf.min(255)) as u8, (nf / 256) as u8, h.ym as u8, h.stereo]);
    st.distinct.insert(hh);
}

fn repo_files(ctx: &Ctx, st: &mut Stats) -> u64 {
    let dir = repo_root().join("vtx/src/test");
    let mut n = 0;
    let mut names: Vec<_> = match std::fs::read_dir(&dir) {
        Ok(rd) => rd.filter_map(|e| e.ok()).map(|e| e.path()).filter(|p| p.extension().map(|x| x == "vtx").unwrap_or(false)).collect(),
        Err(_) => vec![],
    };
    names.sort();
    for p in names {
        let Ok(file) = std::fs::read(&p) else { continue };
        let name = p.file_name().unwrap().to_string_lossy().to_string();
        let Some((h, size, off)) = parse_vtx_header(&file) else {
            ctx.note(&format!("{}: harness could not parse the header, skipped", name));
            continue;
        };
        if size % 14 != 0 {
            continue;
        }
        let Ok(data) = delharc_unpack(&file[off..], size as usize) else {
            ctx.note(&format!("{}: delharc could not unpack, skipped", name));
            continue;
        };
        let wit = || jobj! {"monitor"=>"decode-repo-file","file"=>name.as_str()};
        st.evals += 1;
        st.samples += data.len() as u64;
        match crate::host::catch(|| Vtx::load(chunked(&file[..]))) {
            Ok(Ok(v)) => check_loaded(ctx, &name, &v, &h, &data, &wit),
            Ok(Err(e)) => ctx.violation("decode-rejects-valid-file", &format!("Vtx::load failed on {}: {}", name, e), wit()),
            Err(pm) => ctx.violation("decode-panics-on-valid-file", &format!("Vtx::load panicked on {}: {}", name, pm), wit()),
        }
        let mut hh = FNV_INIT;
        fnv1a(&mut hh, name.as_bytes());
        st.distinct.insert(hh);
        n += 1;
    }
    n
}

pub fn run(ctx: &Ctx) -> Evidence {
    let n_sched = ctx.scale(30_000, 600_000) as usize;
    let n_diff = ctx.scale(2_000, 40_000) as usize;
    let n_dec = ctx.scale(6_000, 150_000) as usize;
    let shards = 64usize;
    let res = par_map(ctx.jobs(), shards, |sh| {
        let mut st = Stats::default();
        for (stream, n, f) in [
            (0xA0u64, n_sched, schedule_case as fn(&Ctx, &mut Rng, u64, &mut Stats)),
            (0xB0, n_diff, diff_case),
            (0xC0, n_dec, decode_case),
        ] {
            let per = (n + shards - 1) / shards;
            for i in 0..per {
                let id = (sh * per + i) as u64;
                let mut rng = Rng::fork(ctx.seed ^ 0xC20 ^ (stream << 32), id);
                f(ctx, &mut rng, id, &mut st);
            }
        }
        st
    });
    let mut ev = Evidence::new("A: Player on a recording AymBackend – register-write log must equal the statement's schedule (frame k at sample k*floor(rate/pf), 14 writes in order, R13=0xFF skipped), samples 0..F*spf in order, full buffers until the end then 0, over 8 kinds of play() partitions, mono+stereo; B: Player<AymPrecise> bit-identical across partitions for i8/i16/i32/f32/f64 and (stereo f64) bit-identical to a harness-scheduled chip; C: synthetic VTX files (own header writer + literal-only lh5 encoder validated against delharc) must load to the exact transposition with header/strings round-trip; D: the repository's .vtx files vs own header parser + delharc + own transposition. distinct = distinct (monitor, stereo, partition kind, type, rate, frame-count class) fingerprints");
    let mut tot = Stats::default();
    for r in res {
        tot.evals += r.evals;
        tot.sched_cases += r.sched_cases;
        tot.long_logs += r.long_logs;
        tot.second_passes += r.second_passes;
        tot.refused_seeks += r.refused_seeks;
        tot.diff_cases += r.diff_cases;
        tot.ref_cases += r.ref_cases;
        tot.decode_cases += r.decode_cases;
        tot.events += r.events;
        tot.samples += r.samples;
        tot.r13_skips += r.r13_skips;
        tot.odd_stereo_calls += r.odd_stereo_calls;
        tot.distinct.extend(r.distinct);
        if let Some(s) = r.sample {
            ev.sample(s);
        }
    }
    let nrepo = repo_files(ctx, &mut tot);
    ev.evaluations = tot.evals;
    ev.distinct_nontrivial = tot.distinct.len() as u64;
    ev.add_num("schedule_cases", tot.sched_cases);
    ev.add_num("schedule_cases_with_65535_or_more_frames", tot.long_logs);
    ev.add_num("second_passes_after_rewind_or_set_frame", tot.second_passes);
    ev.add_num("passes_with_a_refused_out_of_range_set_frame", tot.refused_seeks);
    ev.add_num("register_writes_checked", tot.events);
    ev.add_num("r13_ff_frames", tot.r13_skips);
    ev.add_num("odd_length_stereo_calls", tot.odd_stereo_calls);
    ev.add_num("chunking_cases", tot.diff_cases);
    ev.add_num("scheduled_reference_cases", tot.ref_cases);
    ev.add_num("synthetic_files_decoded", tot.decode_cases);
    ev.add_num("repository_files_decoded", nrepo);
    ev.add_num("values_compared", tot.samples);
    ctx.require("schedule cases", tot.sched_cases, 500);
    ctx.require("very long logs played", tot.long_logs, 3);
    ctx.require("register writes checked", tot.events, 10_000);
    ctx.require("frames with R13=0xFF", tot.r13_skips, 100);
    ctx.require("odd-length stereo play() calls", tot.odd_stereo_calls, 100);
    ctx.require("chunking cases", tot.diff_cases, 50);
    ctx.require("scheduled-reference cases", tot.ref_cases, 5);
    ctx.require("synthetic files decoded", tot.decode_cases, 200);
    ctx.require("repository vtx files decoded", nrepo, 4);
    ev.assumptions.push("VTX container layout and lh5 bit stream typed from the format descriptions; delharc (third-party) is trusted as the lh5 inflater for validating the encoder and for the repository files".into());
    ev.assumptions.push("domain: player_frequency >= 1, rate >= player_frequency, frame_data multiple of 14; play() reports the end by a short count, so a short count before the end is a violation".into());
    ev
}
