//! Minimal JSON value, writer and parser.
use std::fmt::Write;

#[derive(Clone, Debug, PartialEq)]
pub enum J {
    Null,
    Bool(bool),
    Int(i64),
    Num(f64),
    Str(String),
    Arr(Vec<J>),
    Obj(Vec<(String, J)>),
}

impl From<&str> for J { fn from(s: &str) -> J { J::Str(s.to_string()) } }
impl From<String> for J { fn from(s: String) -> J { J::Str(s) } }
impl From<bool> for J { fn from(s: bool) -> J { J::Bool(s) } }
impl From<i64> for J { fn from(s: i64) -> J { J::Int(s) } }
impl From<u64> for J { fn from(s: u64) -> J { J::Int(s as i64) } }
impl From<usize> for J { fn from(s: usize) -> J { J::Int(s as i64) } }
impl From<u32> for J { fn from(s: u32) -> J { J::Int(s as i64) } }
impl From<i32> for J { fn from(s: i32) -> J { J::Int(s as i64) } }
impl From<u16> for J { fn from(s: u16) -> J { J::Int(s as i64) } }
impl From<u8> for J { fn from(s: u8) -> J { J::Int(s as i64) } }
impl From<f64> for J { fn from(s: f64) -> J { J::Num(s) } }
impl From<Vec<J>> for J { fn from(s: Vec<J>) -> J { J::Arr(s) } }

#[macro_export]
macro_rules! jobj {
    ($($k:expr => $v:expr),* $(,)?) => {
        $crate::json::J::Obj(vec![$(($k.to_string(), $crate::json::J::from($v))),*])
    };
}

pub fn hex(data: &[u8]) -> String {
    let mut s = String::with_capacity(data.len() * 2);
    for b in data {
        write!(s, "{:02x}", b).unwrap();
    }
    s
}
pub fn unhex(s: &str) -> Vec<u8> {
    (0..s.len() / 2).map(|i| u8::from_str_radix(&s[2 * i..2 * i + 2], 16).unwrap_or(0)).collect()
}

impl J {
    pub fn get(&self, k: &str) -> Option<&J> {
        if let J::Obj(v) = self {
            v.iter().find(|(n, _)| n == k).map(|(_, v)| v)
        } else {
            None
        }
    }
    pub fn as_i64(&self) -> Option<i64> {
        match self {
            J::Int(i) => Some(*i),
            J::Num(f) => Some(*f as i64),
            _ => None,
        }
    }
    pub fn as_str(&self) -> Option<&str> {
        if let J::Str(s) = self { Some(s) } else { None }
    }
    pub fn as_arr(&self) -> Option<&Vec<J>> {
        if let J::Arr(s) = self { Some(s) } else { None }
    }
    pub fn set(&mut self, k: &str, v: J) {
        if let J::Obj(o) = self {
            if let Some(e) = o.iter_mut().find(|(n, _)| n == k) {
                e.1 = v;
            } else {
                o.push((k.to_string(), v));
            }
        }
    }
    pub fn to_string(&self) -> String {
        let mut s = String::new();
        self.write(&mut s, 0, false);
        s
    }
    pub fn pretty(&self) -> String {
        let mut s = String::new();
        self.write(&mut s, 0, true);
        s
    }
    fn write(&self, s: &mut String, ind: usize, pretty: bool) {
        match self {
            J::Null => s.push_str("null"),
            J::Bool(b) => s.push_str(if *b { "true" } else { "false" }),
            J::Int(i) => write!(s, "{}", i).unwrap(),
            J::Num(f) => {
                if f.is_finite() {
                    write!(s, "{}", f).unwrap()
                } else {
                    write!(s, "\"{}\"", f).unwrap()
                }
            }
            J::Str(t) => {
                s.push('"');
                for c in t.chars() {
                    match c {
                        '"' => s.push_str("\\\""),
                        '\\' => s.push_str("\\\\"),
                        '\n' => s.push_str("\\n"),
                        '\r' => s.push_str("\\r"),
                        '\t' => s.push_str("\\t"),
                        c if (c as u32) < 0x20 => write!(s, "\\u{:04x}", c as u32).unwrap(),
                        c => s.push(c),
                    }
                }
                s.push('"');
            }
            J::Arr(v) => {
                s.push('[');
                let simple = v.iter().all(|x| !matches!(x, J::Arr(_) | J::Obj(_)));
                for (i, x) in v.iter().enumerate() {
                    if i > 0 {
                        s.push(',');
                    }
                    if pretty && !simple {
                        s.push('\n');
                        for _ in 0..ind + 1 { s.push(' '); }
                    }
                    x.write(s, ind + 1, pretty);
                }
                if pretty && !simple && !v.is_empty() {
                    s.push('\n');
                    for _ in 0..ind { s.push(' '); }
                }
                s.push(']');
            }
            J::Obj(v) => {
                s.push('{');
                for (i, (k, x)) in v.iter().enumerate() {
                    if i > 0 {
                        s.push(',');
                    }
                    if pretty {
                        s.push('\n');
                        for _ in 0..ind + 1 { s.push(' '); }
                    }
                    J::Str(k.clone()).write(s, 0, false);
                    s.push(':');
                    if pretty { s.push(' '); }
                    x.write(s, ind + 1, pretty);
                }
                if pretty && !v.is_empty() {
                    s.push('\n');
                    for _ in 0..ind { s.push(' '); }
                }
                s.push('}');
            }
        }
    }

    pub fn parse(text: &str) -> Result<J, String> {
        let b = text.as_bytes();
        let mut p = 0usize;
        let v = parse_val(b, &mut p)?;
        skip_ws(b, &mut p);
        if p != b.len() {
            return Err(format!("trailing data at {}", p));
        }
        Ok(v)
    }
}

fn skip_ws(b: &[u8], p: &mut usize) {
    while *p < b.len() && (b[*p] as char).is_ascii_whitespace() {
        *p += 1;
    }
}

fn parse_val(b: &[u8], p: &mut usize) -> Result<J, String> {
    skip_ws(b, p);
    if *p >= b.len() {
        return Err("eof".into());
    }
    match b[*p] {
        b'n' => { *p += 4; Ok(J::Null) }
        b't' => { *p += 4; Ok(J::Bool(true)) }
        b'f' => { *p += 5; Ok(J::Bool(false)) }
        b'"' => Ok(J::Str(parse_str(b, p)?)),
        b'[' => {
            *p += 1;
            let mut v = vec![];
            loop {
                skip_ws(b, p);
                if *p < b.len() && b[*p] == b']' { *p += 1; break; }
                v.push(parse_val(b, p)?);
                skip_ws(b, p);
                if *p < b.len() && b[*p] == b',' { *p += 1; continue; }
                if *p < b.len() && b[*p] == b']' { *p += 1; break; }
                return Err(format!("bad array at {}", p));
            }
            Ok(J::Arr(v))
        }
        b'{' => {
            *p += 1;
            let mut v = vec![];
            loop {
                skip_ws(b, p);
                if *p < b.len() && b[*p] == b'}' { *p += 1; break; }
                let k = parse_str(b, p)?;
                skip_ws(b, p);
                if *p >= b.len() || b[*p] != b':' { return Err(format!("expected : at {}", p)); }
                *p += 1;
                let x = parse_val(b, p)?;
                v.push((k, x));
                skip_ws(b, p);
                if *p < b.len() && b[*p] == b',' { *p += 1; continue; }
                if *p < b.len() && b[*p] == b'}' { *p += 1; break; }
                return Err(format!("bad object at {}", p));
            }
            Ok(J::Obj(v))
        }
        _ => {
            let st = *p;
            while *p < b.len() && (b[*p] == b'-' || b[*p] == b'+' || b[*p] == b'.' || b[*p] == b'e' || b[*p] == b'E' || b[*p].is_ascii_digit()) {
                *p += 1;
            }
            let t = std::str::from_utf8(&b[st..*p]).unwrap();
            if let Ok(i) = t.parse::<i64>() {
                Ok(J::Int(i))
            } else {
                t.parse::<f64>().map(J::Num).map_err(|_| format!("bad number '{}' at {}", t, st))
            }
        }
    }
}

fn parse_str(b: &[u8], p: &mut usize) -> Result<String, String> {
    if b[*p] != b'"' {
        return Err(format!("expected string at {}", p));
    }
    *p += 1;
    let mut out = Vec::new();
    while *p < b.len() {
        match b[*p] {
            b'"' => { *p += 1; return String::from_utf8(out).map_err(|e| e.to_string()); }
            b'\\' => {
                *p += 1;
                match b[*p] {
                    b'n' => out.push(b'\n'),
                    b't' => out.push(b'\t'),
                    b'r' => out.push(b'\r'),
                    b'u' => {
                        let h = std::str::from_utf8(&b[*p + 1..*p + 5]).unwrap();
                        let c = char::from_u32(u32::from_str_radix(h, 16).unwrap_or(63)).unwrap_or('?');
                        let mut buf = [0u8; 4];
                        out.extend_from_slice(c.encode_utf8(&mut buf).as_bytes());
                        *p += 4;
                    }
                    c => out.push(c),
                }
                *p += 1;
            }
            c => { out.push(c); *p += 1; }
        }
    }
    Err("unterminated string".into())
}
