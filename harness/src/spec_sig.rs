//! Small signal-analysis helpers for the audio monitors (C18). Nothing here knows about the chip.

pub fn mean(x: &[f64]) -> f64 {
    if x.is_empty() {
        return 0.0;
    }
    x.iter().sum::<f64>() / x.len() as f64
}

/// RMS of the signal with its mean removed
pub fn ac_rms(x: &[f64]) -> f64 {
    if x.is_empty() {
        return 0.0;
    }
    let m = mean(x);
    (x.iter().map(|v| (v - m) * (v - m)).sum::<f64>() / x.len() as f64).sqrt()
}

pub fn min_max(x: &[f64]) -> (f64, f64) {
    x.iter().fold((f64::INFINITY, f64::NEG_INFINITY), |(a, b), v| (a.min(*v), b.max(*v)))
}

/// Interpolated positions (in samples) of the crossings of `mid`, detected with a Schmitt trigger
/// of half-width `hyst`. Returns (position, rising?) pairs. The position is the linear
/// interpolation of the last pair of samples that straddles `mid` before the trigger fired.
pub fn crossings(x: &[f64], mid: f64, hyst: f64) -> Vec<(f64, bool)> {
    let mut out = vec![];
    let mut state: i8 = 0;
    let mut last_straddle: Option<f64> = None;
    for i in 0..x.len() {
        if i > 0 {
            let (a, b) = (x[i - 1] - mid, x[i] - mid);
            if (a < 0.0) != (b < 0.0) && a != b {
                last_straddle = Some((i - 1) as f64 + a / (a - b));
            }
        }
        let v = x[i];
        let new = if v > mid + hyst {
            1
        } else if v < mid - hyst {
            -1
        } else {
            state
        };
        if new != state {
            if state != 0 {
                out.push((last_straddle.unwrap_or(i as f64), new > 0));
            }
            state = new;
        }
    }
    out
}

/// Fundamental frequency (cycles per sample) from rising crossings of the mid level; also returns
/// the number of whole periods spanned.
pub fn freq_by_crossings(x: &[f64]) -> Option<(f64, usize)> {
    let (lo, hi) = min_max(x);
    if !(hi - lo).is_finite() || hi - lo <= 0.0 {
        return None;
    }
    let c: Vec<f64> = crossings(x, (lo + hi) / 2.0, (hi - lo) * 0.15).into_iter().filter(|c| c.1).map(|c| c.0).collect();
    if c.len() < 3 {
        return None;
    }
    let periods = c.len() - 1;
    Some((periods as f64 / (c[c.len() - 1] - c[0]), periods))
}

/// Power of the (mean-removed, Hann-windowed) signal at normalised frequency `f` (cycles/sample),
/// scaled so that a sine of amplitude A gives about A²/2.
pub fn tone_power(x: &[f64], f: f64) -> f64 {
    let n = x.len();
    if n < 8 {
        return 0.0;
    }
    let m = mean(x);
    let (mut re, mut im, mut wsum) = (0.0, 0.0, 0.0);
    let w0 = 2.0 * std::f64::consts::PI / (n as f64 - 1.0);
    let wf = 2.0 * std::f64::consts::PI * f;
    for (i, v) in x.iter().enumerate() {
        let w = 0.5 - 0.5 * (w0 * i as f64).cos();
        let ph = wf * i as f64;
        re += w * (v - m) * ph.cos();
        im -= w * (v - m) * ph.sin();
        wsum += w;
    }
    let a = 2.0 * (re * re + im * im).sqrt() / wsum; // amplitude estimate
    a * a / 2.0
}

/// Hann-windowed AC power (same scaling as `tone_power`: window-weighted mean square)
pub fn windowed_power(x: &[f64]) -> f64 {
    let n = x.len();
    if n < 8 {
        return 0.0;
    }
    let m = mean(x);
    let w0 = 2.0 * std::f64::consts::PI / (n as f64 - 1.0);
    let (mut p, mut wsum) = (0.0, 0.0);
    for (i, v) in x.iter().enumerate() {
        let w = 0.5 - 0.5 * (w0 * i as f64).cos();
        p += w * (v - m) * (v - m);
        wsum += w;
    }
    p / wsum
}

/// Maximal runs of samples classified to the same index (`None` = unclassified), at least
/// `minlen` long. Returns (class, first, last) inclusive.
pub fn runs(cls: &[Option<u8>], minlen: usize) -> Vec<(u8, usize, usize)> {
    let mut out: Vec<(u8, usize, usize)> = vec![];
    let mut i = 0;
    while i < cls.len() {
        if let Some(c) = cls[i] {
            let mut j = i;
            while j + 1 < cls.len() && cls[j + 1] == Some(c) {
                j += 1;
            }
            if j - i + 1 >= minlen {
                out.push((c, i, j));
            }
            i = j + 1;
        } else {
            i += 1;
        }
    }
    out
}
