//! Workloads for the Z80 differential monitors C01/C02/C03.
use crate::json::J;
use crate::refz80::{Cy, RZ};
use crate::report::{par_map, Ctx, Evidence};
use crate::rng::Rng;
use crate::z80diff::*;
use std::collections::HashSet;

#[derive(Default)]
pub struct Stats {
    pub steps: u64,
    pub cases: u64,
    pub cycles: u64,
    pub encodings: HashSet<u16>,
    /// (page, opcode, taken, intkind) variants whose result + cycle list were compared
    pub variants: HashSet<u32>,
    pub int_accepts: u64,
    pub nmi_accepts: u64,
    pub halted_steps: u64,
    pub prefix_only_steps: u64,
    pub foreign: u64,
    pub samples: Vec<J>,
}
impl Stats {
    fn merge(&mut self, o: Stats) {
        self.steps += o.steps;
        self.cases += o.cases;
        self.cycles += o.cycles;
        self.encodings.extend(o.encodings);
        self.variants.extend(o.variants);
        self.int_accepts += o.int_accepts;
        self.nmi_accepts += o.nmi_accepts;
        self.halted_steps += o.halted_steps;
        self.prefix_only_steps += o.prefix_only_steps;
        self.foreign += o.foreign;
        if self.samples.len() < 4 {
            self.samples.extend(o.samples.into_iter().take(1));
        }
    }
}

pub struct Work<'a> {
    pub ctx: &'a Ctx,
    pub class: Class,
    pub verbose: bool,
    pub last_was_repeat: std::cell::Cell<bool>,
}

impl<'a> Work<'a> {
    fn note(&self, st: &mut Stats, out: &StepOut, before: &RZ, kind: &str, case_id: u64, bytes: &[u8], step_no: usize) {
        st.steps += 1;
        st.cycles += out.ref_cycles.len() as u64;
        let i = &out.info;
        if i.prefix_only {
            st.prefix_only_steps += 1;
        } else {
            st.encodings.insert((i.page as u16) << 8 | i.opcode as u16);
            let ik = if i.int_accepted { 1 + before.im as u32 } else if i.nmi_accepted { 4 } else { 0 };
            st.variants.insert((i.page as u32) << 16 | (i.opcode as u32) << 8 | (i.taken as u32) << 4 | ik);
        }
        st.int_accepts += i.int_accepted as u64;
        st.nmi_accepts += i.nmi_accepted as u64;
        st.halted_steps += before.halted as u64;
        for m in out.mismatch.iter().chain(out.more.iter()) {
            if self.verbose {
                println!("MISMATCH class={:?} key={} {}", m.class, m.key, m.what);
                println!("  before={:04x?}", before);
                println!("  ref  cycles={:?}", out.ref_cycles);
                println!("  real cycles={:?}", out.real_cycles);
            }
            if m.class == self.class {
                self.ctx.violation(
                    &m.key,
                    &m.what,
                    jobj! {
                        "kind" => kind, "case" => case_id, "step" => step_no,
                        "bytes_at_pc" => crate::json::hex(bytes),
                        "state_before" => rz_json(before),
                        "ref_cycles" => format!("{:?}", out.ref_cycles),
                        "real_cycles" => format!("{:?}", out.real_cycles),
                        "mismatch" => m.what.as_str(),
                    },
                );
            } else {
                st.foreign += 1;
            }
        }
    }

    /// One instruction of a given encoding from a random state, followed by an SCF/CCF step that
    /// exposes Q. Returns false if the pair diverged (case abandoned).
    pub fn single_case(&self, pair: &mut Pair, st: &mut Stats, page: u8, opcode: u8, case_id: u64) {
        let mut rng = Rng::fork(self.ctx.seed ^ 0x51, case_id);
        pair.reset_case();
        let mut s = random_state(&mut rng);
        if is_block_repeat(page, opcode) {
            s.pc = (s.pc & 0xFF00) | (0x10 + rng.below(0xD0) as u16);
        }
        let mut bytes = encode(page, opcode, &mut rng);
        if !is_instruction(page, opcode) && (page == 3 || page == 4) {
            // a prefix chain: let it grow and end in the Q readers SCF/CCF now and then
            let mut i = 2;
            while i < 5 && rng.chance(1, 2) {
                bytes[i] = *rng.pick(&[0xDDu8, 0xFD]);
                i += 1;
            }
            if rng.chance(1, 2) && i < bytes.len() {
                bytes[i] = *rng.pick(&[0x37u8, 0x3F]);
            }
        }
        pair.script = Script { seed: case_id ^ self.ctx.seed, step: 0, int: false, nmi: false, vector: rng.u8() };
        pair.set_state(&s);
        pair.poke_bytes(s.pc, &bytes);
        st.cases += 1;
        // the instruction itself (a DD/FD followed by another prefix needs more than one step)
        let mut n = 0;
        loop {
            let before = pair.rs;
            let out = pair.step();
            self.note(st, &out, &before, "single", case_id, &bytes, n);
            if out.mismatch.is_some() {
                return;
            }
            self.last_was_repeat.set(out.info.taken && is_block_repeat(out.info.page, out.info.opcode));
            n += 1;
            if !out.info.prefix_only || n > 6 {
                break;
            }
        }
        if pair.rs.halted {
            return;
        }
        // Q after a *repeating* block iteration is not pinned by any hardware-derived suite
        // (the next instruction is normally the same block instruction again): don't-care
        if self.last_was_repeat.get() {
            return;
        }
        // follower: SCF or CCF at the new PC
        let fol = if rng.bool() { 0x37 } else { 0x3F };
        let pc = pair.rs.pc;
        pair.poke(pc, fol);
        let before = pair.rs;
        let out = pair.step();
        self.note(st, &out, &before, "single-follower", case_id, &[fol], n);
        if st.samples.is_empty() {
            st.samples.push(jobj! {"kind"=>"single","case"=>case_id,"bytes"=>crate::json::hex(&bytes),"start"=>rz_json(&s),"follower"=>fol});
        }
    }

    /// one step from a fully specified state (exhaustive operand sweeps)
    fn exact_case(&self, pair: &mut Pair, st: &mut Stats, s: &RZ, bytes: &[u8], tag: u64) {
        pair.reset_case();
        pair.script = Script { seed: tag, step: 0, int: false, nmi: false, vector: 0xFF };
        pair.set_state(s);
        pair.poke_bytes(s.pc, bytes);
        let before = pair.rs;
        let out = pair.step();
        self.note(st, &out, &before, "sweep", tag, bytes, 0);
        st.cases += 1;
    }

    /// Exhaustive operand sweeps of the small spaces (this shard's share):
    /// 8-bit ALU A x operand x carry (x all F in thorough), INC/DEC/rotates/DAA/NEG/CPL/SCF/CCF,
    /// 16-bit add lattice, all (n, A) for OUT (n),A / IN A,(n) / LD (nn),A MEMPTR.
    pub fn sweeps(&self, pair: &mut Pair, st: &mut Stats, sh: usize, shards: usize, all_f: bool) {
        let mut base = RZ::default();
        base.pc = 0x8000;
        base.sp = 0xF000;
        base.hl = 0x9000;
        base.ix = 0xA000;
        base.iy = 0xB000;
        let f_values: Vec<u8> = if all_f { (0..=255u8).collect() } else { vec![0x00, 0x01, 0xFF, 0xFE, 0x10, 0x11, 0x02, 0x13] };
        let mut tag = 0u64;
        // ALU r / ALU n
        for op in (0x80u8..=0xBF).step_by(8) {
            for a in 0..=255u8 {
                if (a as usize) % shards != sh {
                    continue;
                }
                for v in 0..=255u8 {
                    for &f in f_values.iter() {
                        let mut s = base;
                        s.af = (a as u16) << 8 | f as u16;
                        s.q = if v & 1 == 0 { f } else { 0 };
                        s.bc = (v as u16) << 8;
                        tag += 1;
                        self.exact_case(pair, st, &s, &[op], tag);
                        if f & 0xFE == 0 {
                            // immediate form too
                            self.exact_case(pair, st, &s, &[op | 0x46, v], tag);
                        }
                    }
                }
            }
        }
        // single operand ops over all A x F: INC/DEC A, RLCA.., DAA, CPL, SCF, CCF, NEG, CB rotates on A
        let singles: Vec<Vec<u8>> = {
            let mut v: Vec<Vec<u8>> = [0x3Cu8, 0x3D, 0x07, 0x0F, 0x17, 0x1F, 0x27, 0x2F, 0x37, 0x3F].iter().map(|o| vec![*o]).collect();
            v.push(vec![0xED, 0x44]);
            for r in 0..8u8 {
                v.push(vec![0xCB, r << 3 | 7]);
            }
            for b in 0..8u8 {
                v.push(vec![0xCB, 0x47 | b << 3]);
            }
            v
        };
        for code in singles.iter() {
            for a in 0..=255u8 {
                if (a as usize) % shards != sh {
                    continue;
                }
                for f in 0..=255u8 {
                    for q0 in [false, true] {
                        let mut s = base;
                        s.af = (a as u16) << 8 | f as u16;
                        s.q = if q0 { 0 } else { f };
                        tag += 1;
                        self.exact_case(pair, st, &s, code, tag);
                    }
                }
            }
        }
        // 16-bit arithmetic lattice: HL x operand from a lattice of interesting words x carry
        let lat: Vec<u16> = {
            let mut v = vec![];
            for h in [0x00u16, 0x01, 0x0F, 0x10, 0x7F, 0x80, 0xEF, 0xF0, 0xFF] {
                for l in [0x00u16, 0x01, 0x7F, 0x80, 0xFF] {
                    v.push(h << 8 | l);
                }
            }
            v
        };
        for (i, &hl) in lat.iter().enumerate() {
            if i % shards != sh {
                continue;
            }
            for &v in lat.iter() {
                for c in 0..2u16 {
                    for code in [vec![0x09u8], vec![0xED, 0x4A], vec![0xED, 0x42], vec![0xDD, 0x09], vec![0xFD, 0x09]] {
                        let mut s = base;
                        s.hl = hl;
                        s.ix = hl;
                        s.iy = hl;
                        s.bc = v;
                        s.af = 0xFF00 | c | 0xC4;
                        tag += 1;
                        self.exact_case(pair, st, &s, &code, tag);
                    }
                }
            }
        }
        // MEMPTR of OUT (n),A / IN A,(n) / LD (nn),A / LD (BC),A for all (n, A), exposed by BIT 0,(HL)
        for a in 0..=255u8 {
            if (a as usize) % shards != sh {
                continue;
            }
            for n in 0..=255u8 {
                for code in [vec![0xD3u8, n], vec![0xDB, n], vec![0x32, n, 0x7F], vec![0x32, 0xFF, n], vec![0x02], vec![0x12]] {
                    let mut s = base;
                    s.af = (a as u16) << 8;
                    s.bc = (n as u16) | 0x4000;
                    s.de = (n as u16) << 8 | 0xFF;
                    tag += 1;
                    self.exact_case(pair, st, &s, &code, tag);
                }
            }
        }
    }

    /// random straight run of `len` steps through biased random code with a line script
    pub fn sequence_case(&self, pair: &mut Pair, st: &mut Stats, case_id: u64, irq_mode: u8) {
        let mut rng = Rng::fork(self.ctx.seed ^ 0x5E9, case_id);
        pair.reset_case();
        let mut s = random_state(&mut rng);
        s.pc = (s.pc & 0xFF00) | (0x10 + rng.below(0x80) as u16);
        // plant a program: instructions from all pages, biased towards sequencing opcodes
        let mut prog: Vec<u8> = vec![];
        let n_ins = 2 + rng.below(31) as usize;
        for _ in 0..n_ins {
            match rng.below(if irq_mode > 0 { 12 } else { 30 }) {
                0 => prog.push(0xFB),
                1 => prog.push(0xF3),
                2 => prog.push(0x76),
                3 => prog.extend_from_slice(&[0xED, *rng.pick(&[0x45u8, 0x4D, 0x55, 0x5D, 0x65, 0x6D, 0x75, 0x7D])]),
                4 => prog.extend_from_slice(&[0xED, *rng.pick(&[0x46u8, 0x56, 0x5E, 0x4E, 0x66, 0x6E, 0x76, 0x7E])]),
                5 => {
                    for _ in 0..1 + rng.below(4) {
                        prog.push(*rng.pick(&[0xDDu8, 0xFD]));
                    }
                    if rng.chance(1, 4) {
                        prog.push(0xED);
                    } else if rng.chance(1, 3) {
                        prog.push(*rng.pick(&[0x37u8, 0x3F]));
                    }
                }
                6 => prog.push(0x00),
                7 if rng.chance(1, 2) => {
                    // ED followed by a prefix byte is an undefined ED opcode, i.e. a two-byte NOP: whatever
                    // comes next is executed as if nothing had stood in front of it
                    prog.extend_from_slice(&[0xED, *rng.pick(&[0xDDu8, 0xFD, 0xED, 0xCB])]);
                    let follow: [&[u8]; 9] = [&[0x21, 0x34, 0x12], &[0xE5], &[0xB0], &[0x7E], &[0x09], &[0x34], &[0xE9], &[0x36, 0x55], &[0x46]];
                    prog.extend_from_slice(follow[rng.below(9) as usize]);
                }
                _ => {
                    let page = rng.below(7) as u8;
                    let mut op = rng.u8();
                    // avoid instructions that leave the planted region too often
                    if page == 0 && matches!(op, 0xC3 | 0xC9 | 0xCD | 0xE9) && rng.chance(2, 3) {
                        op = 0x00;
                    }
                    let b = encode(page, op, &mut rng);
                    let len = match page { 0 => 1, 5 | 6 => 4, _ => 2 } + rng.below(3) as usize;
                    prog.extend_from_slice(&b[..len.min(b.len())]);
                }
            }
        }
        pair.script = Script { seed: case_id ^ self.ctx.seed, step: 0, int: false, nmi: false, vector: rng.u8() };
        pair.set_state(&s);
        pair.poke_bytes(s.pc, &prog);
        // handlers get a few sensible bytes too so that nested behaviour is exercised
        if irq_mode > 0 {
            for base in [0x0038u16, 0x0066] {
                let h = [0x00, *rng.pick(&[0xFBu8, 0x00, 0xF3]), 0xED, *rng.pick(&[0x4Du8, 0x45]), 0x76];
                pair.poke_bytes(base, &h);
            }
        }
        st.cases += 1;
        let steps = 2 + rng.below(40) as usize;
        let p_int = *rng.pick(&[2u64, 30, 90]);
        let p_nmi = *rng.pick(&[0u64, 0, 3, 20]);
        let mut hold = 0u32;
        for n in 0..steps {
            if irq_mode > 0 {
                if hold > 0 {
                    hold -= 1;
                } else {
                    pair.script.int = rng.chance(p_int, 100);
                    if pair.script.int && rng.chance(1, 4) {
                        hold = rng.below(6) as u32;
                    }
                }
                // NMI right after EI/DI or inside a prefix chain is a don't-care: not generated
                let blocked = pair.rs.after_eidi || pair.rs.prefix != 0;
                pair.script.nmi = !blocked && rng.chance(p_nmi, 100);
            }
            let before = pair.rs;
            let out = pair.step();
            self.note(st, &out, &before, if irq_mode > 0 { "sequence-irq" } else { "sequence" }, case_id, &prog, n);
            if out.mismatch.is_some() {
                return;
            }
            // repeating block instruction at an address ending in FF: sources disagree on F3/F5
            if out.info.taken && is_block_repeat(out.info.page, out.info.opcode) {
                if (pair.rs.pc & 0xFF) >= 0xFE {
                    return;
                }
                // Q after a repeating iteration is a don't-care (see single_case)
                if matches!(pair.ref_mem.get(pair.rs.pc), 0x37 | 0x3F) {
                    return;
                }
            }
        }
        if st.samples.is_empty() {
            st.samples.push(jobj! {"kind"=>"sequence","case"=>case_id,"program"=>crate::json::hex(&prog),"start"=>rz_json(&s),"steps"=>steps});
        }
    }

    /// directed enumeration for C02: state x IFF x IM x lines
    pub fn directed_case(&self, pair: &mut Pair, st: &mut Stats, case_id: u64) {
        let mut rng = Rng::fork(self.ctx.seed ^ 0xD1, case_id);
        // decode the combination
        let mut c = case_id;
        let pre = (c % 7) as u8; c /= 7; // 0 normal, 1 after EI, 2 after DI, 3 DD pending, 4 FD pending, 5 chain, 6 halted
        let iff1 = c % 2 == 1; c /= 2;
        let iff2 = c % 2 == 1; c /= 2;
        let im = (c % 3) as u8; c /= 3;
        let lines = (c % 4) as u8; c /= 4; // bit0 int bit1 nmi
        let next_kind = (c % 6) as u8; // instruction that follows
        pair.reset_case();
        let mut s = random_state(&mut rng);
        s.pc = 0x8000 | (rng.u16() & 0x3F00) | 0x20;
        s.sp = 0xC000 | (rng.u16() & 0x3FF0);
        s.iff1 = iff1;
        s.iff2 = iff2;
        s.im = im;
        let lead: Vec<u8> = match pre {
            1 => vec![0xFB],
            2 => vec![0xF3],
            3 => vec![0xDD, 0xDD],
            4 => vec![0xFD, 0xFD],
            5 => vec![0xDD, 0xFD, 0xDD, 0xFD],
            6 => vec![0x76],
            _ => vec![0x00],
        };
        let next: Vec<u8> = match next_kind {
            0 => vec![0x00],
            1 => vec![0x21, 0x34, 0x12],
            2 => vec![0x76],
            3 => vec![0xED, 0x4D],
            4 => vec![0xED, 0x45],
            _ => vec![0xFB],
        };
        let mut prog = lead.clone();
        prog.extend_from_slice(&next);
        prog.extend_from_slice(&[0x00, 0x00, 0x00, 0x00]);
        pair.script = Script { seed: case_id, step: 0, int: false, nmi: false, vector: rng.u8() };
        pair.set_state(&s);
        pair.poke_bytes(s.pc, &prog);
        pair.poke_bytes(0x0038, &[0x00, 0xFB, 0xED, 0x4D]);
        pair.poke_bytes(0x0066, &[0x00, 0xED, 0x45]);
        st.cases += 1;
        // EI/DI at iff level: the lead instruction itself changes IFFs for pre 1/2 – intended
        for n in 0..6 {
            let arm = n >= 1; // lines become active after the lead step
            let blocked = pair.rs.after_eidi || pair.rs.prefix != 0;
            pair.script.int = arm && lines & 1 != 0;
            pair.script.nmi = arm && lines & 2 != 0 && !blocked;
            let before = pair.rs;
            let out = pair.step();
            self.note(st, &out, &before, "directed", case_id, &prog, n);
            if out.mismatch.is_some() {
                return;
            }
            // trace-level assertions independent of the model (real side only):
            // no stack write attributable to an interrupt right after EI/DI or inside a chain
            if (before.after_eidi || before.prefix != 0) && self.class == Class::Sequencing {
                let pushed_pc = out.real_cycles.iter().filter(|c| matches!(c, Cy::Wr(..))).count() >= 2
                    && matches!(pair.rs.pc, 0x0038..=0x003F | 0x0066..=0x006F)
                    && out.real_cycles.iter().any(|c| matches!(c, Cy::Ack(_)));
                if pushed_pc && before.prefix != 0 {
                    self.ctx.violation("trace:int-inside-prefix-chain", "interrupt entry observed between a DD/FD prefix and its opcode", jobj! {"case"=>case_id,"cycles"=>format!("{:?}", out.real_cycles)});
                }
            }
        }
    }
}

pub const N_DIRECTED: u64 = 7 * 2 * 2 * 3 * 4 * 6;

pub struct Plan {
    /// 0 = no operand sweeps, 1 = quick sweeps, 2 = sweeps over all F values
    pub sweeps: u8,
    pub per_encoding: u64,
    pub sequences: u64,
    pub irq_sequences: u64,
    pub directed_rounds: u64,
}

pub fn run_plan(ctx: &Ctx, class: Class, plan: &Plan) -> Stats {
    let verbose = ctx.replay.is_some() || std::env::var("VERIF_VERBOSE").is_ok();
    let mk = || Work { ctx, class, verbose, last_was_repeat: std::cell::Cell::new(false) };
    if let Some(r) = &ctx.replay {
        // replay one recorded case
        let d = r.get("details").cloned().unwrap_or(J::Null);
        let kind = d.get("kind").and_then(|x| x.as_str()).unwrap_or("").to_string();
        let case = d.get("case").and_then(|x| x.as_i64()).unwrap_or(0) as u64;
        let w = mk();
        let mut rng = Rng::fork(ctx.seed ^ 0xBAC, 0);
        let mut pair = Pair::new(&mut rng);
        let mut st = Stats::default();
        match kind.as_str() {
            "single" | "single-follower" => {
                let per = plan.per_encoding.max(1);
                let enc = case / per;
                w.single_case(&mut pair, &mut st, (enc >> 8) as u8, enc as u8, case)
            }
            "sequence" => w.sequence_case(&mut pair, &mut st, case, 0),
            "sequence-irq" => w.sequence_case(&mut pair, &mut st, case, 1),
            "directed" => w.directed_case(&mut pair, &mut st, case),
            _ => println!("replay: unknown kind '{}'", kind),
        }
        return st;
    }
    let shards = 64usize;
    // NOTE: every shard uses the same background memory image (seeded), so that a case id alone
    // identifies a case for replay.
    let res = par_map(ctx.jobs(), shards, |sh| {
        let w = mk();
        let mut rng = Rng::fork(ctx.seed ^ 0xBAC, 0);
        let mut pair = Pair::new(&mut rng);
        let mut st = Stats::default();
        // 1. all encodings
        let encs: Vec<(u8, u8)> = (0..7u8).flat_map(|p| (0..=255u8).map(move |o| (p, o))).filter(|(p, o)| is_instruction(*p, *o)).collect();
        for (i, (p, o)) in encs.iter().enumerate() {
            if i % shards != sh {
                continue;
            }
            let enc = (*p as u64) << 8 | *o as u64;
            for k in 0..plan.per_encoding {
                w.single_case(&mut pair, &mut st, *p, *o, enc * plan.per_encoding + k);
            }
        }
        // also: DD/FD followed by a prefix byte (prefix chains as "single" cases)
        if sh == 0 {
            for (p, o) in [(3u8, 0xDDu8), (3, 0xFD), (3, 0xED), (4, 0xDD), (4, 0xFD), (4, 0xED)] {
                let enc = (p as u64) << 8 | o as u64;
                for k in 0..plan.per_encoding.min(2000) {
                    w.single_case(&mut pair, &mut st, p, o, enc * plan.per_encoding + k);
                }
            }
        }
        if plan.sweeps > 0 {
            w.sweeps(&mut pair, &mut st, sh, shards, plan.sweeps > 1);
        }
        // 2. sequences
        let per = (plan.sequences as usize + shards - 1) / shards;
        for i in 0..per {
            w.sequence_case(&mut pair, &mut st, (sh * per + i) as u64, 0);
        }
        let per = (plan.irq_sequences as usize + shards - 1) / shards;
        for i in 0..per {
            w.sequence_case(&mut pair, &mut st, (1 << 40) | (sh * per + i) as u64, 1);
        }
        // 3. directed enumeration
        for round in 0..plan.directed_rounds {
            for c in 0..N_DIRECTED {
                if (c as usize) % shards == sh {
                    w.directed_case(&mut pair, &mut st, round * N_DIRECTED + c);
                }
            }
        }
        st
    });
    let mut total = Stats::default();
    for r in res {
        total.merge(r);
    }
    total
}

/// Qualifies the reference model (z80test tapes; + ZEXALL in thorough). A failing reference
/// makes the run inconclusive: no verdict is given on an unqualified oracle.
pub fn qualify_reference(ctx: &Ctx, ev: &mut Evidence) {
    if ctx.replay.is_some() {
        return;
    }
    let q = crate::refqual::qualify(ctx.jobs(), !ctx.quick());
    if !q.passed {
        for l in q.lines.iter() {
            println!("refqual: {}", l);
        }
        ctx.inconclusive("reference model failed its qualification suites (z80test/zexall/T-state table)");
    }
    ev.add("reference_qualification", J::Arr(q.lines.iter().map(|l| J::Str(l.chars().take(160).collect())).collect()));
    ev.add("reference_qualification_instructions", q.instructions);
}

pub fn fill_evidence(ev: &mut Evidence, st: &Stats) {
    ev.evaluations = st.steps;
    ev.distinct_nontrivial = st.variants.len() as u64;
    ev.add("cases", st.cases);
    ev.add("steps_compared", st.steps);
    ev.add("bus_cycles_compared", st.cycles);
    ev.add("encodings_hit", st.encodings.len());
    ev.add("distinct_encoding_variants", st.variants.len());
    ev.add("interrupts_accepted", st.int_accepts);
    ev.add("nmis_accepted", st.nmi_accepts);
    ev.add("halted_steps", st.halted_steps);
    ev.add("prefix_only_steps", st.prefix_only_steps);
    ev.add("mismatches_of_other_property_classes_ignored_here", st.foreign);
    for s in st.samples.iter() {
        ev.sample(s.clone());
    }
}
