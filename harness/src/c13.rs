//! C13 – SNA save → load restores the machine; saving is side-effect free.
//!
//! Observed: `Emulator::save_snapshot(SnapshotRecorder::Sna)` into an in-memory recorder (whole or
//! short writes) on a machine that was put into a generated state *without any loader* (RAM by
//! pokes through the paging windows, ports by emulated OUTs, registers by the hook), then
//! `load_snapshot` of the produced bytes into (a) the same emulator after it ran on and was driven
//! into a hostile state (halted / stopped inside a DD chain / paging locked / other border, IM,
//! IFF, latch, garbage in RAM) and (b) a fresh emulator of the same model.
//!
//! Oracle, in three independent parts whose conjunction is the statement:
//!  1. side-effect freedom: registers, every RAM byte, latch+lock and border of the saving machine
//!     are identical before and after `save_snapshot` (the frame clock is *not* in the statement; a
//!     clock change is only counted in the evidence);
//!  2. the file, read by the independent SNA parser of `spec_snap`, describes the state at save time
//!     item by item (48K: PC on the stack image, the two bytes below SP are the format's);
//!  3. after the load every SNA item, latch+lock and every RAM byte equal the saved state (48K: the
//!     two bytes below SP exempt; states whose SP-2..SP-1 is not RAM are not generated), and the
//!     loaded machine *behaves* like a pristine machine in the state the file describes: same frame
//!     clock by hook, 64 single steps of a program insensitive to what SNA cannot carry (no
//!     BIT n,(HL), SCF/CCF, I/O, nothing read below SP, IFF1==IFF2, IM 2 handler under the
//!     generator's control or interrupts off), registers compared after every step and RAM at the end.
//!     Items already shown wrong in the file (part 2) are not reported again for the load.
//!
//! Attribution: an item that fails only in target (a) gets `@prior-<kind>` (items hanging on the
//! memory map are grouped as `memory-map`); one that also fails on the fresh emulator is bare.
use crate::c14::install_program;
use crate::host::{Cfg, Machine, VecRecorder};
use crate::json::J;
use crate::report::{par_map, Ctx, Evidence};
use crate::rng::Rng;
use crate::spec_snap::*;
use rustzx_core::host::SnapshotRecorder;
use std::collections::{BTreeMap, HashSet};

#[derive(Default)]
struct Stats {
    trips: u64,
    loads: u64,
    checks: u64,
    steps: u64,
    ram_bytes: u64,
    clock_moved: u64,
    by_kind: BTreeMap<String, u64>,
    distinct: HashSet<u64>,
    samples: Vec<J>,
    harness_errors: u64,
}

fn is_map_item(i: &str) -> bool {
    matches!(i, "latch" | "lock" | "ram" | "cpu-view")
}

struct Trace {
    regs: Vec<crate::host::RegFile>,
    end: Capture,
}

fn trace(m: &mut Machine, clock: usize, n: usize) -> Trace {
    m.set_clock(clock);
    let mut regs = vec![];
    for _ in 0..n {
        m.step();
        regs.push(m.regs());
    }
    Trace { regs, end: capture(m) }
}

fn run_trip(ctx: &Ctx, id: u64, st: &mut Stats) {
    let mut rng = Rng::fork(ctx.seed ^ 0xC13_0000, id);
    let is128 = rng.bool();
    let mut a = Abs::random(&mut rng, is128);
    if is128 && rng.chance(1, 4) {
        a.r.sp = rng.iword(); // the 128K form does not touch the stack: any SP
    }
    let live = install_program(&mut a, &mut rng, 64);
    a.cycles = 0;
    // the snapshot may be taken while the CPU sits in HALT: rustzx keeps PC on the HALT then, and the
    // SNA format has no halted flag, so the file must carry that very PC (the loaded machine simply
    // executes the HALT again)
    let halted_save = rng.chance(1, 6);
    if halted_save {
        let pc = a.r.pc;
        a.poke(pc, 0x76);
    }
    let kind = Prior::random(&mut rng, is128);
    let fl = if is128 { 70908usize } else { 69888 };
    let save_clock = rng.below(fl as u64) as usize;
    let run_clock = if live {
        if rng.chance(1, 5) { rng.below(28) as usize } else { fl - 20 - rng.below(600) as usize }
    } else {
        rng.below(fl as u64 - 3000) as usize
    };
    st.trips += 1;
    *st.by_kind.entry(format!("{}-prior-{}", if is128 { "128k" } else { "48k" }, kind.name())).or_insert(0) += 1;
    st.distinct.insert(a.fingerprint());
    let base = |x: J| jobj! {"case"=>id,"is128"=>is128,"prior"=>kind.name(),"state"=>regs_json(&a.r),"border"=>a.border,"latch"=>a.latch,"interrupts_live"=>live,"save_clock"=>save_clock,"run_clock"=>run_clock,"observed"=>x};

    // ---- the saving machine
    let mut ma = materialise(&a);
    if halted_save {
        ma.cpu().halted = true;
        *st.by_kind.entry("saved-while-halted".into()).or_insert(0) += 1;
    }
    ma.set_clock(save_clock);
    let c0 = capture(&mut ma);
    let d0 = diff_capture(&c0, &a, &[]);
    if !d0.is_empty() {
        st.harness_errors += 1;
        ctx.inconclusive(&format!("harness could not establish the generated state (case {}: {})", id, d0[0].item));
        return;
    }
    // A locked 128K machine ignores further paging writes; a program may well issue some before the
    // snapshot is taken. They must change nothing – neither the machine nor what gets saved.
    if is128 && c0.locked && rng.chance(2, 3) {
        let keep = ma.regs();
        // the helper steps must not accept a frame interrupt (it would push onto the stack)
        let mut quiet = keep;
        quiet.iff1 = false;
        quiet.iff2 = false;
        ma.set_regs(&quiet);
        for _ in 0..1 + rng.below(3) {
            let v = rng.u8();
            ma.out(0x7FFD, v);
        }
        ma.set_regs(&keep);
        ma.set_clock(save_clock);
        *st.by_kind.entry("ignored-paging-writes-before-save".into()).or_insert(0) += 1;
    }
    // a save that fails half way (recorder full or broken) must leave the machine alone as well
    if rng.chance(1, 6) {
        let full = sna_len(&a);
        let mut frec = crate::host::FailingRecorder { data: vec![], limit: *rng.pick(&[0usize, 1, 26, 27, 28, 100, 49178, 49179, 49181, 49182, 60000]) % full.max(1), kind: rng.below(2) as u8 };
        let cb = capture(&mut ma);
        let hb = ma.cpu().halted;
        let r = crate::host::catch(|| ma.emu.save_snapshot(SnapshotRecorder::Sna(&mut frec)).is_ok());
        let ca = capture(&mut ma);
        *st.by_kind.entry("save-into-a-failing-recorder".into()).or_insert(0) += 1;
        match r {
            Err(_) => {
                ctx.violation(&format!("save:panic:{}", panic_sig()), "save_snapshot panicked when the recorder gave up", base(J::Str(crate::last_panic())));
                return;
            }
            Ok(true) => {
                ctx.violation("save:failing-recorder-reported-ok", &format!("save_snapshot returned Ok although the recorder accepted only {} of {} bytes", frec.limit, full), base(J::Null));
                return;
            }
            Ok(false) => {}
        }
        if reg_items(&cb.r) != reg_items(&ca.r) || cb.pages != ca.pages || (cb.latch, cb.locked, cb.border) != (ca.latch, ca.locked, ca.border) || hb != ma.cpu().halted {
            let what = if cb.pages != ca.pages { "memory" } else if reg_items(&cb.r) != reg_items(&ca.r) { "registers" } else { "paging, border or halted state" };
            ctx.violation(&format!("save-side-effect:failed-save:{}", what.split(',').next().unwrap_or("")), &format!("a save that failed after {} bytes changed the machine's {}", frec.limit, what), base(J::Null));
            return;
        }
    }
    let mut rec = VecRecorder { data: vec![], chunk: *rng.pick(&[0usize, 0, 1, 1000, 16384]) };
    let res = crate::host::catch(|| ma.emu.save_snapshot(SnapshotRecorder::Sna(&mut rec)).map_err(|e| format!("{:?}", e)));
    match res {
        Err(_) => {
            ctx.violation(&format!("save:panic:{}", panic_sig()), "save_snapshot panicked", base(J::Str(crate::last_panic())));
            return;
        }
        Ok(Err(e)) => {
            ctx.violation(&format!("save:error:{}", e), "save_snapshot failed on an accepting recorder", base(J::Str(e)));
            return;
        }
        Ok(Ok(())) => {}
    }
    let bytes = rec.data;
    // ---- 1. side effects
    let c1 = capture(&mut ma);
    st.checks += 20;
    st.ram_bytes += (c0.pages.len() * PAGE) as u64;
    for ((n, e), (_, g)) in reg_items(&c0.r).into_iter().zip(reg_items(&c1.r)) {
        if e != g {
            ctx.violation(&format!("save-side-effect:reg:{}", n), &format!("saving changed register {}: {:04x} -> {:04x}", n, e, g), base(jobj! {"before"=>regs_json(&c0.r),"after"=>regs_json(&c1.r)}));
        }
    }
    if (c0.latch, c0.locked, c0.border) != (c1.latch, c1.locked, c1.border) {
        ctx.violation("save-side-effect:paging-or-border", "saving changed latch/lock/border", base(jobj! {"before"=>format!("{:02x} {} {}", c0.latch, c0.locked, c0.border),"after"=>format!("{:02x} {} {}", c1.latch, c1.locked, c1.border)}));
    }
    if c0.r.halted != c1.r.halted {
        ctx.violation("save-side-effect:halted", "saving changed the halted state", base(J::Null));
    }
    let mut changed: Vec<(usize, usize, u8, u8)> = vec![];
    for p in 0..c0.pages.len() {
        if c0.pages[p] != c1.pages[p] {
            for o in 0..PAGE {
                if c0.pages[p][o] != c1.pages[p][o] {
                    changed.push((p, o, c0.pages[p][o], c1.pages[p][o]));
                }
            }
        }
    }
    if !changed.is_empty() {
        let below: Vec<(usize, usize)> = [a.r.sp.wrapping_sub(2), a.r.sp.wrapping_sub(1)].iter().filter_map(|ad| a.page_index(*ad).map(|p| (p, *ad as usize & (PAGE - 1)))).collect();
        let only_below = changed.iter().all(|(p, o, _, _)| below.contains(&(*p, *o)));
        let key = if only_below { "save-side-effect:ram-below-sp" } else { "save-side-effect:ram" };
        let list: Vec<J> = changed.iter().take(8).map(|(p, o, b, n)| jobj! {"page"=>*p,"offset"=>*o,"before"=>*b,"after"=>*n}).collect();
        ctx.violation(key, &format!("saving changed {} byte(s) of the running machine's RAM{}", changed.len(), if only_below { " (the two bytes below SP now hold PC)" } else { "" }), base(jobj! {"changed"=>J::Arr(list),"sp"=>a.r.sp,"pc"=>a.r.pc}));
    }
    if c1.clock != c0.clock {
        st.clock_moved += 1;
    }
    // ---- 2. the file
    let mut bad: HashSet<String> = HashSet::new();
    if bytes.len() != sna_len(&a) {
        ctx.violation("save-file:length", &format!("SNA of this state must be {} bytes, saved {}", sna_len(&a), bytes.len()), base(jobj! {"length"=>bytes.len()}));
        return;
    }
    let parsed = match parse_sna(&bytes, is128) {
        Ok(p) => p,
        Err(e) => {
            ctx.violation("save-file:unparsable", &format!("saved file is not a well-formed SNA: {}", e), base(J::Str(e.clone())));
            return;
        }
    };
    let exempt: Vec<u16> = if is128 { vec![] } else { vec![a.r.sp.wrapping_sub(2), a.r.sp.wrapping_sub(1)] };
    let pc = Capture { r: parsed.r, pages: parsed.pages.clone(), latch: parsed.latch, locked: parsed.latch & 0x20 != 0, border: parsed.border, clock: 0 };
    st.checks += 20;
    for d in diff_capture(&pc, &a, &exempt) {
        if d.item == "lock" {
            continue; // the lock is bit 5 of the latch byte in the file
        }
        bad.insert(d.item.clone());
        ctx.violation(&format!("save-file:{}", d.item), &format!("saved file says {} = {}, machine had {}", d.item, d.got, d.exp), base(jobj! {"item"=>d.item.as_str(),"machine"=>d.exp.as_str(),"file"=>d.got.as_str(),"header"=>crate::json::hex(&bytes[..27])}));
    }
    // ---- 3. load back: reference = pristine machine in the state the file describes
    let mut mr = materialise(&parsed);
    let tr = trace(&mut mr, run_clock, 64);
    // target (a): the same emulator, later, hostile
    for _ in 0..rng.below(40) {
        ma.step();
    }
    let ok = make_hostile(&mut ma, &mut rng, kind);
    // "at any later moment": meanwhile the host may have attached an I/O extender that claims the
    // ULA port (a host-side keyboard, say) – restoring the border is not a port write of the program
    if rng.chance(1, 4) {
        ma.emu.set_io_extender(crate::host::LogExt::new(vec![(0xFFFF, 0x00FE)]));
        *st.by_kind.entry("receiver-with-io-extender-on-00fe".into()).or_insert(0) += 1;
    }
    *st.by_kind.entry(format!("hidden-state-{}", if ok { "established" } else { "not-established" })).or_insert(0) += 1;
    let po = observe_prior(&mut ma, kind, ok);
    let mut mb = Machine::new(Cfg::of(is128));
    let mut results: Vec<Vec<(String, String, J)>> = vec![];
    for m in [&mut ma, &mut mb] {
        let mut f: Vec<(String, String, J)> = vec![];
        st.loads += 1;
        match load_sna(m, &bytes) {
            Err(_) => f.push((format!("load-panic:{}", panic_sig()), "loading the saved snapshot panicked".into(), J::Str(crate::last_panic()))),
            Ok(Err(e)) => f.push((format!("load-rejected:{}", e), "loading the saved snapshot failed".into(), J::Str(e))),
            Ok(Ok(())) => {
                let c = capture(m);
                st.checks += 20;
                st.ram_bytes += (c.pages.len() * PAGE) as u64;
                let mut map_bad = false;
                for d in diff_capture(&c, &a, &exempt) {
                    if bad.contains(&d.item) {
                        continue;
                    }
                    map_bad |= is_map_item(&d.item);
                    f.push((d.item.clone(), format!("{} expected {} observed {}", d.item, d.exp, d.got), jobj! {"expected"=>d.exp.as_str(),"observed"=>d.got.as_str()}));
                }
                if let Some((ad, e, g)) = cpu_view_mismatch(m, &parsed, &exempt) {
                    if !bad.contains("ram") && !map_bad {
                        map_bad = true;
                        f.push(("cpu-view".into(), format!("CPU sees {:02x} at {:04x}, saved state had {:02x}", g, ad, e), jobj! {"addr"=>ad}));
                    }
                }
                if !map_bad {
                    // behaviour
                    m.set_clock(run_clock);
                    for s in 0..64 {
                        m.step();
                        st.steps += 1;
                        let r = m.regs();
                        if reg_items(&r) != reg_items(&tr.regs[s]) {
                            let d: Vec<J> = reg_items(&tr.regs[s]).iter().zip(reg_items(&r).iter()).filter(|(x, y)| x != y).map(|(x, y)| J::Str(format!("{}: reference {:04x} loaded {:04x}", x.0, x.1, y.1))).collect();
                            f.push(("behaviour".into(), format!("loaded machine diverges from the saved state at step {}", s), jobj! {"step"=>s,"differences"=>J::Arr(d),"reference"=>regs_json(&tr.regs[s]),"loaded"=>regs_json(&r)}));
                            break;
                        }
                    }
                    if !f.iter().any(|x| x.0 == "behaviour") {
                        let ce = capture(m);
                        let ex: Vec<(usize, usize)> = exempt.iter().filter_map(|ad| a.page_index(*ad).map(|p| (p, *ad as usize & (PAGE - 1)))).collect();
                        'pages: for p in 0..ce.pages.len() {
                            if ce.pages[p] != tr.end.pages[p] {
                                for o in 0..PAGE {
                                    if ce.pages[p][o] != tr.end.pages[p][o] && !ex.contains(&(p, o)) {
                                        f.push(("behaviour".into(), "RAM after 64 steps differs from the reference run".into(), jobj! {"page"=>p,"offset"=>o,"reference"=>tr.end.pages[p][o],"loaded"=>ce.pages[p][o]}));
                                        break 'pages;
                                    }
                                }
                            }
                        }
                    }
                }
            }
        }
        results.push(f);
    }
    let fresh_items: HashSet<String> = results[1].iter().map(|x| x.0.clone()).collect();
    for (item, what, det) in results[1].drain(..) {
        ctx.violation(&format!("roundtrip:{}", item), &format!("save → load into a fresh emulator: {}", what), base(det));
    }
    for (item, what, det) in results[0].drain(..) {
        if fresh_items.contains(&item) {
            continue;
        }
        // label the receiving emulator by what was observed of it just before the load
        let key = if is_map_item(&item) || item.starts_with("load-") {
            format!("roundtrip:{}@prior-{}", if is_map_item(&item) { "memory-map" } else { item.as_str() }, po.map_label())
        } else {
            format!("roundtrip:{}@prior-{}", item, po.cpu_label())
        };
        ctx.violation(&key, &format!("save → load into the same emulator later ({:?}): {}", po, what), base(det));
    }
    if st.samples.len() < 2 {
        st.samples.push(jobj! {"case"=>id,"is128"=>is128,"prior"=>kind.name(),"file_len"=>bytes.len(),"interrupts_live"=>live});
    }
}

pub fn run(ctx: &Ctx) -> Evidence {
    let n = ctx.scale(6000, 100_000);
    let replay_case = ctx.replay.as_ref().and_then(|r| r.get("details")).and_then(|d| d.get("case")).and_then(|c| c.as_i64());
    let shards = 64usize;
    let per = (n as usize + shards - 1) / shards;
    let res = par_map(ctx.jobs(), shards, |sh| {
        let mut st = Stats::default();
        for i in 0..per {
            let id = (sh * per + i) as u64;
            if replay_case.map(|rc| rc as u64 != id).unwrap_or(false) {
                continue;
            }
            run_trip(ctx, id, &mut st);
        }
        st
    });
    let mut ev = Evidence::new("generated machine states (all registers, I, R, IM, IFF, border, 128K latch incl. lock, all RAM random, SP anywhere RAM-backed) established without a loader; save_snapshot(SNA) checked for side effects (registers, every RAM byte, paging, border) and the file parsed by an independent SNA parser and compared item-wise; the bytes loaded into the same emulator later in a hostile state and into a fresh emulator; every item + all RAM compared, then 64 single steps against a pristine machine in the described state. distinct = distinct saved states");
    let mut all = Stats::default();
    for r in res {
        all.trips += r.trips;
        all.loads += r.loads;
        all.checks += r.checks;
        all.steps += r.steps;
        all.ram_bytes += r.ram_bytes;
        all.clock_moved += r.clock_moved;
        all.harness_errors += r.harness_errors;
        all.distinct.extend(r.distinct);
        for (k, v) in r.by_kind {
            *all.by_kind.entry(k).or_insert(0) += v;
        }
        for s in r.samples {
            ev.sample(s);
        }
    }
    ev.evaluations = all.checks + all.steps;
    ev.distinct_nontrivial = all.distinct.len() as u64;
    ev.add_num("round_trips", all.trips);
    ev.add_num("loads", all.loads);
    ev.add_num("single_steps_compared", all.steps);
    ev.add_num("ram_bytes_compared", all.ram_bytes);
    ev.add_num("saves_that_moved_the_frame_clock(not judged)", all.clock_moved);
    ev.add("cases_by_kind", J::Obj(all.by_kind.iter().map(|(k, v)| (k.clone(), J::Int(*v as i64))).collect()));
    if replay_case.is_none() {
        ctx.require("round trips", all.trips, n * 9 / 10);
        ctx.require("loads", all.loads, all.trips);
        let g = |k: &str| all.by_kind.iter().filter(|(n, _)| n.contains(k)).map(|(_, v)| *v).sum::<u64>();
        for k in ["48k-prior-", "128k-prior-", "prior-halted", "prior-mid-prefix", "prior-locked", "prior-fresh", "prior-ran", "hidden-state-established"] {
            ctx.require(&format!("cases of kind *{}*", k), g(k), 20);
        }
    }
    ev.assumptions.push("SNA layout typed from the format documentation; SNA carries IFF2 only, states are generated with IFF1 == IFF2; the saving machine is never inside a prefix chain (the format cannot carry that); one in six sits in HALT, where the file must hold the address of the HALT so that the loaded machine halts again".into());
    ev.assumptions.push("the frame clock is not an item of the statement: clock movement caused by saving is counted, not judged".into());
    ev
}
