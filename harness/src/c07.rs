//! C07 – port addresses reach the right device under Spectrum partial decoding; floating bus.
//!
//! Oracle (from the statement): device set of a port =
//!   ULA if A0=0 · paging latch (write, 128K) if A15=0,A1=0 · AY select/read if A15=A14=1,A1=0 ·
//!   AY data (write) if A15=1,A14=0,A1=0 · Kempston joystick (read, enabled) if A7..A5=0 ·
//!   Kempston mouse (read, enabled) · host extender if it claims the port.
//! Only ports whose set has exactly ONE member (that device and no other must react) or NONE (read =
//! floating bus, write = no effect) are judged. Mouse: published decodes differ (FUSE decodes only
//! A0/A5/A8/A10), so with the mouse enabled every A5=0 port is "possibly mouse"; the mouse is
//! *required* to answer only at low byte 0xDF with A9=1 (FADF/FBDF/FFDF and their A15..A11 aliases);
//! other A5=0 ports are then unjudged unless the extender claims them. With the mouse disabled it
//! must never answer.
//! Every device is put in a distinguishable state so that the byte read identifies its source; after
//! every OUT all device states are diffed. Bits 5 and 7 of a ULA read are not judged; bit 6 (EAR) must keep the value it had before any port was written, because no tape is inserted.
//! Floating bus (set oracle): outside the picture-fetch windows (with an 8 T guard) an unclaimed port
//! must read 0xFF; inside, 0xFF or a display/attribute byte of a cell fetched within +-8 T.
use crate::c17::MATRIX;
use crate::host::{Cfg, LogExt, Machine, RegFile};
use crate::json::J;
use crate::report::{par_map, Ctx, Evidence};
use crate::rng::Rng;
use rustzx_core::zx::joy::kempston::KempstonKey;
use rustzx_core::zx::keys::ZXKey;
use rustzx_core::zx::mouse::kempston::KempstonMouseButton;
use rustzx_core::IterableEnum;
use std::collections::HashSet;

#[derive(Clone, Copy, Debug, PartialEq, Eq)]
enum Dev {
    Ula,
    Latch,
    AySel,
    AyData,
    Kempston,
    MouseButtons,
    MouseX,
    MouseY,
    MouseMaybe,
    Ext,
}

#[derive(Clone, Copy, Debug)]
struct Conf {
    is128: bool,
    kemp: bool,
    mouse: bool,
    /// extender claim (mask, value); mask 0 = no extender
    ext: (u16, u16),
}

fn claims(c: &Conf, port: u16) -> bool {
    c.ext.0 != 0 && port & c.ext.0 == c.ext.1
}

/// device set for a read / write of `port`
fn devices(c: &Conf, port: u16, write: bool) -> Vec<Dev> {
    if claims(c, port) {
        // "a host I/O extender receives exactly the ports it claims"
        return vec![Dev::Ext];
    }
    let mut v = vec![];
    if port & 1 == 0 {
        v.push(Dev::Ula);
    }
    if write && c.is128 && port & 0x8002 == 0 {
        v.push(Dev::Latch);
    }
    if port & 0xC002 == 0xC000 {
        v.push(Dev::AySel);
    }
    if write && port & 0xC002 == 0x8000 {
        v.push(Dev::AyData);
    }
    if !write && c.kemp && port & 0x00E0 == 0 {
        v.push(Dev::Kempston);
    }
    if !write && c.mouse && port & 0x0020 == 0 {
        if port & 0x00FF == 0x00DF && port & 0x0200 != 0 {
            match (port & 0x0400 != 0, port & 0x0100 != 0) {
                (false, false) => v.push(Dev::MouseButtons),
                (false, true) => v.push(Dev::MouseX),
                (true, true) => v.push(Dev::MouseY),
                _ => v.push(Dev::MouseMaybe),
            }
        } else {
            v.push(Dev::MouseMaybe);
        }
    }
    v
}

// distinguishable device states (all non-ULA read values have bit 4 set and low5 != 0x1F, while
// every ULA read with at least one row selected has bit 4 clear)
const KEMP_STATE: u8 = 0x16;
const AY_SEL: u8 = 5;
const AY_VAL: u8 = 0xB5;
const MOUSE_X: u8 = 0x53;
const MOUSE_Y: u8 = 0x79;
const BORDER0: u8 = 5;
const OUT_VAL: u8 = 0x0B;
/// row r: bit 4 pressed in every row plus a distinct pattern in bits 0-3
const ROW_CODE: [u8; 8] = [0x0E, 0x0D, 0x0B, 0x07, 0x0C, 0x0A, 0x09, 0x06];

fn ula_expect(high: u8) -> u8 {
    let mut v = 0x1F;
    for r in 0..8 {
        if high & (1 << r) == 0 {
            v &= ROW_CODE[r];
        }
    }
    v
}

fn key_by_name(name: &str) -> ZXKey {
    ZXKey::iter().find(|k| format!("{:?}", k) == name).expect("key")
}

struct Rig {
    m: Machine,
    c: Conf,
    mouse_buttons: u8,
    /// canonical-or-alias ports used by the harness itself (never claimed by the extender and
    /// decoding to exactly one device)
    p_ula: u16,
    p_latch: u16,
    p_aysel: u16,
    p_aydata: u16,
    /// bit 6 of a ULA read before the harness wrote anything: no tape is inserted, so the EAR
    /// level – and with it bit 6 – must stay what it is whatever is written to any port
    ear_bit: u8,
    /// toggles on every reset: the speaker/MIC bits written along with the reference border
    flip: u8,
}

/// first port not claimed by the extender that satisfies `pred`, trying `canon` first
fn alias(c: &Conf, canon: u16, pred: impl Fn(u16) -> bool) -> u16 {
    if !claims(c, canon) {
        return canon;
    }
    for p in (0..=0xFFFFu16).rev() {
        if pred(p) && !claims(c, p) {
            return p;
        }
    }
    canon
}

fn build(c: &Conf) -> Rig {
    let mut cfg = Cfg::of(c.is128);
    cfg.kempston = c.kemp;
    cfg.mouse = c.mouse;
    cfg.ay = true;
    cfg.sound = false;
    let mut m = Machine::new(cfg);
    let ear_bit = m.inp(0xFEFE) & 0x40;
    // keyboard rows
    for r in 0..8 {
        for b in 0..5 {
            if ROW_CODE[r] & (1 << b) == 0 {
                m.emu.send_key(key_by_name(MATRIX[r][b]), true);
            }
        }
    }
    // Kempston joystick state 0x16 = left|down|fire
    for k in KempstonKey::iter() {
        if (k as u8) & KEMP_STATE != 0 {
            m.emu.send_kempston_key(k, true);
        }
    }
    // mouse: two buttons pressed, X/Y moved to chosen values (counters start somewhere: read first)
    let mut mouse_buttons = 0xFF;
    if c.mouse {
        m.emu.send_mouse_button(KempstonMouseButton::Left, true);
        m.emu.send_mouse_button(KempstonMouseButton::Middle, true);
        let x0 = m.inp(0xFBDF);
        let y0 = m.inp(0xFFDF);
        let dx = MOUSE_X.wrapping_sub(x0) as i8;
        let dy = y0.wrapping_sub(MOUSE_Y) as i8;
        m.emu.send_mouse_pos_diff(dx, dy);
        mouse_buttons = m.inp(0xFADF);
    }
    if c.ext.0 != 0 {
        m.emu.set_io_extender(LogExt::new(vec![c.ext]));
    }
    let p_ula = alias(c, 0xBFFE, |p| p & 0x0003 == 0x0002);
    let p_latch = alias(c, 0x7FFD, |p| p & 0x8003 == 0x0001);
    let p_aysel = alias(c, 0xFFFD, |p| p & 0xC023 == 0xC021);
    let p_aydata = alias(c, 0xBFFD, |p| p & 0xC003 == 0x8001);
    let mut rig = Rig { m, c: *c, mouse_buttons, p_ula, p_latch, p_aysel, p_aydata, ear_bit, flip: 0 };
    rig.reset_devices();
    rig
}

impl Rig {
    /// (re)establish the reference state of all writable devices through canonical ports
    fn reset_devices(&mut self) {
        let (pu, pl, ps, pd) = (self.p_ula, self.p_latch, self.p_aysel, self.p_aydata);
        // a device whose every port is claimed by the extender cannot be reached (nor observed)
        let ay_ok = !claims(&self.c, ps) && !claims(&self.c, pd);
        let ula_ok = !claims(&self.c, pu);
        let latch_ok = !claims(&self.c, pl);
        let m = &mut self.m;
        if ay_ok {
            for r in 0..16u8 {
                m.out(ps, r);
                m.out(pd, 0xB0 | r);
            }
            m.out(ps, AY_SEL);
        }
        if ula_ok {
            // speaker and MIC bits vary from reset to reset; they must never show up in reads
            self.flip = self.flip.wrapping_add(1);
            m.out(pu, BORDER0 | (self.flip & 3) << 3);
        }
        if self.c.is128 && latch_ok {
            m.out(pl, 0);
        }
        if let Some(e) = m.emu.io_extender() {
            e.log.clear();
        }
    }
    fn ext_log_len(&mut self) -> usize {
        self.m.emu.io_extender().map(|e| e.log.len()).unwrap_or(0)
    }
    /// snapshot of every writable device state
    fn state(&mut self) -> (u8, u8, u8, bool, usize) {
        let border = self.m.emu.border_color() as u8;
        let ay = if claims(&self.c, self.p_aysel) { AY_VAL } else { self.m.inp(self.p_aysel) };
        let (latch, locked) = self.m.emu.verif_paging();
        let n = self.ext_log_len();
        (border, ay, latch, locked, n)
    }
}

#[derive(Default)]
struct St {
    reads: u64,
    writes: u64,
    judged: u64,
    unjudged: u64,
    fb_points: u64,
    fb_data_seen: u64,
    ext_histories: u64,
    sigs: HashSet<u64>,
    sample: Vec<J>,
}

/// "otherwise a byte of the display or attribute memory being fetched": a port that is read many
/// times in the middle of picture fetches and answers 0xFF every single time is not floating.
fn never_floats(ctx: &Ctx, is128: bool, c: &Conf, reads: &std::collections::HashMap<u16, u32>, ffs: &std::collections::HashMap<u16, u32>) {
    for (port, n) in reads.iter() {
        let f = ffs.get(port).cloned().unwrap_or(0);
        if *n >= 40 && f == *n {
            ctx.violation(
                &format!("floating-bus:{}:constant-ff", if is128 { "128k" } else { "48k" }),
                &format!("[kempston={} mouse={}] unclaimed port {:04x} was read {} times while the ULA was fetching picture data and returned FF every time (no fetched byte is FF there)", c.kemp, c.mouse, port, n),
                jobj! {"is128"=>is128,"port"=>*port,"reads"=>*n},
            );
        }
    }
}

fn conf_name(c: &Conf) -> String {
    format!("{}{}{}{}", if c.is128 { "128k" } else { "48k" }, if c.kemp { "+kemp" } else { "" }, if c.mouse { "+mouse" } else { "" }, if c.ext.0 != 0 { "+ext" } else { "" })
}

fn sweep(ctx: &Ctx, c: &Conf, st: &mut St, rng: &mut Rng) {
    let mut rig = build(c);
    let name = conf_name(c);
    let fr = rig.m.frame_len();
    for port in 0..=0xFFFFu16 {
        // ------------------------------------------------------------ read
        let devs = devices(c, port, false);
        let form = if rng.chance(1, 16) { 1 + rng.below(2) as u8 } else { 0 };
        // border time, far from any picture fetch: floating bus must be 0xFF there
        rig.m.set_clock(1000 + (port as usize % 5000));
        let before_log = rig.ext_log_len();
        let got = match form {
            0 => rig.m.inp(port),
            1 => {
                // IN A,(n): port = A<<8 | n
                let rf = rig.m.regs();
                rig.m.cpu().regs.set_acc((port >> 8) as u8);
                rig.m.exec_at(0x8000, &[0xDB, port as u8], 1);
                let v = rig.m.cpu().regs.get_acc();
                rig.m.set_regs(&rf);
                v
            }
            _ => {
                // INI: (HL) <- port BC
                let rf = rig.m.regs();
                rig.m.cpu().regs.set_bc(port);
                rig.m.cpu().regs.set_hl(0x9000);
                rig.m.exec_at(0x8000, &[0xED, 0xA2], 1);
                let v = rig.m.peek(0x9000);
                rig.m.set_regs(&rf);
                v
            }
        };
        st.reads += 1;
        let ext_calls = rig.ext_log_len() - before_log;
        let expect: Option<(u8, u8)> = match devs.as_slice() {
            [] => Some((0xFF, 0xFF)),
            [Dev::Ula] => Some((ula_expect((port >> 8) as u8) | rig.ear_bit, 0x5F)),
            [Dev::AySel] => Some((AY_VAL, 0xFF)),
            [Dev::Kempston] => Some((KEMP_STATE, 0xFF)),
            [Dev::MouseButtons] => Some((rig.mouse_buttons, 0xFF)),
            [Dev::MouseX] => Some((MOUSE_X, 0xFF)),
            [Dev::MouseY] => Some((MOUSE_Y, 0xFF)),
            [Dev::Ext] => Some((LogExt::new(vec![]).read_value(port), 0xFF)),
            _ => None,
        };
        let want_ext = devs.as_slice() == [Dev::Ext];
        if (ext_calls > 0) != want_ext {
            ctx.violation(
                &format!("port-decode:read:extender:{}", if want_ext { "not-called" } else { "called-for-unclaimed" }),
                &format!("[{}] IN {:04x}: extender {} although it {} this port", name, port, if ext_calls > 0 { "was called" } else { "was not called" }, if want_ext { "claims" } else { "does not claim" }),
                jobj! {"config"=>name.as_str(),"port"=>port,"form"=>form},
            );
        }
        match expect {
            Some((want, mask)) => {
                st.judged += 1;
                st.sigs.insert((port & 0xC0E3) as u64 | (devs.first().map(|d| *d as u64 + 1).unwrap_or(0)) << 16);
                if got & mask != want & mask {
                    let dn = devs.first().map(|d| format!("{:?}", d)).unwrap_or("none(floating bus)".into());
                    ctx.violation(
                        &format!("port-decode:read:{}:{}", if c.is128 { "128k" } else { "48k" }, dn),
                        &format!("[{}] IN {:04x} must be answered by {} with {:02x} (mask {:02x}) but returned {:02x}", name, port, dn, want, mask, got),
                        jobj! {"config"=>name.as_str(),"port"=>port,"got"=>got,"want"=>want,"mask"=>mask,"form"=>form},
                    );
                }
            }
            None => st.unjudged += 1,
        }
        // ------------------------------------------------------------ write
        let devs = devices(c, port, true);
        let s0 = rig.state();
        let wform = if rng.chance(1, 16) { 1 + rng.below(2) as u8 } else { 0 };
        match wform {
            0 => rig.m.out(port, OUT_VAL),
            1 => {
                // OUT (n),A: port high byte = A = data; use data whose effects stay distinguishable
                let rf = rig.m.regs();
                let a = (port >> 8) as u8;
                rig.m.cpu().regs.set_acc(a);
                rig.m.exec_at(0x8000, &[0xD3, port as u8], 1);
                rig.m.set_regs(&rf);
            }
            _ => {
                // OUTI: port = (B-1)<<8 | C
                let rf = rig.m.regs();
                rig.m.poke(0x9001, OUT_VAL);
                rig.m.cpu().regs.set_bc(port.wrapping_add(0x0100));
                rig.m.cpu().regs.set_hl(0x9001);
                rig.m.exec_at(0x8000, &[0xED, 0xA3], 1);
                rig.m.set_regs(&rf);
            }
        }
        st.writes += 1;
        let val = if wform == 1 { (port >> 8) as u8 } else { OUT_VAL };
        let s1 = rig.state();
        // which devices reacted?
        let mut reacted = vec![];
        if s1.0 != s0.0 {
            reacted.push(Dev::Ula);
        }
        if s1.1 != s0.1 {
            // read-back changed: either another register got selected or the selected one was written
            reacted.push(if s1.1 == val { Dev::AyData } else { Dev::AySel });
        }
        if s1.2 != s0.2 || s1.3 != s0.3 {
            reacted.push(Dev::Latch);
        }
        if s1.4 != s0.4 {
            reacted.push(Dev::Ext);
        }
        // would the write be visible at all? (value equal to the current state is not observable)
        let ay_visible = !claims(c, rig.p_aysel);
        let observable = |d: &Dev| match d {
            Dev::Ula => val & 7 != s0.0,
            Dev::AySel => ay_visible && (0xB0 | (val & 15)) != s0.1,
            Dev::AyData => ay_visible && val != s0.1,
            Dev::Latch => val != s0.2 && !s0.3,
            Dev::Ext => true,
            _ => false,
        };
        if devs.len() <= 1 {
            st.judged += 1;
            let want: Vec<Dev> = devs.iter().filter(|d| observable(d)).cloned().collect();
            if reacted != want {
                let kind = if reacted.len() > want.len() || (reacted.len() == want.len() && !want.is_empty()) { "wrong-device" } else { "no-reaction" };
                ctx.violation(
                    &format!("port-decode:write:{}:{}:{:?}", if c.is128 { "128k" } else { "48k" }, kind, devs.first()),
                    &format!("[{}] OUT {:04x},{:02x}: devices selected by decoding {:?} (observable {:?}) but state diff shows {:?} reacted (border,ay,latch,lock,extlog {:?}->{:?})", name, port, val, devs, want, reacted, s0, s1),
                    jobj! {"config"=>name.as_str(),"port"=>port,"value"=>val,"form"=>wform},
                );
            }
        } else {
            st.unjudged += 1;
        }
        if !reacted.is_empty() {
            rig.reset_devices();
            if s1.3 {
                // paging got locked (only possible through an OUT (n),A data byte): new machine
                rig = build(c);
            }
        }
    }
    if st.sample.len() < 2 {
        st.sample.push(jobj! {"config"=>name,"ports"=>65536,"forms"=>"IN A,(C)/IN A,(n)/INI and OUT (C),A/OUT (n),A/OUTI"});
    }
    let _ = fr;
}

/// The extender is a run-time attachment: installed while a program is already polling a port,
/// replaced by one with other claims, or changing its claims – every single access goes to the
/// extender exactly when the one installed *now* claims the port *now*.
fn extender_history(ctx: &Ctx, is128: bool, st: &mut St, rng: &mut Rng, case: u64) {
    let mut m = Machine::new(Cfg { sound: false, ..Cfg::of(is128) });
    let mut rf = RegFile::default();
    rf.sp = 0xBF00;
    m.set_regs(&rf);
    m.set_clock(2000);
    // an even port with A1=1 (ULA only, so that a write that is not swallowed shows in the border)
    let p: u16 = ((rng.u8() as u16) << 8) | *rng.pick(&[0xFEu16, 0x7E, 0xF6]);
    let q: u16 = p ^ 0x0100;
    let mut claimed = false; // does the installed extender claim p right now?
    let mut installed = false;
    let mut hist: Vec<String> = vec![];
    let mut colour = 1u8;
    for step in 0..(12 + rng.below(20)) {
        match rng.below(6) {
            0 => {
                let cl = rng.bool();
                m.emu.set_io_extender(LogExt::new(vec![(0xFFFF, if cl { p } else { q })]));
                installed = true;
                claimed = cl;
                hist.push(format!("set_io_extender(claims {:04x})", if cl { p } else { q }));
            }
            1 if installed => {
                let cl = rng.bool();
                m.emu.io_extender().unwrap().claims = vec![(0xFFFF, if cl { p } else { q })];
                claimed = cl;
                hist.push(format!("extender now claims {:04x}", if cl { p } else { q }));
            }
            2 | 3 => {
                let before = if installed { m.emu.io_extender().unwrap().log.len() } else { 0 };
                let v = m.inp(p);
                let after = if installed { m.emu.io_extender().unwrap().log.len() } else { 0 };
                st.reads += 1;
                hist.push(format!("IN {:04x} -> {:02x}", p, v));
                let want_ext = LogExt::new(vec![]).read_value(p);
                let ok = if claimed { after == before + 1 && v == want_ext } else { after == before && v & 0x1F == 0x1F };
                if !ok {
                    ctx.violation(
                        "port-decode:extender-history:read",
                        &format!("step {}: IN {:04x} returned {:02x} with {} extender call(s); the installed extender {} the port (history: {})", step, p, v, after - before, if claimed { "claims" } else { "does not claim" }, hist.join("; ")),
                        jobj! {"case"=>case,"is128"=>is128,"port"=>p},
                    );
                    return;
                }
            }
            _ => {
                colour = (colour + 1 + rng.below(6) as u8) & 7;
                let b0 = m.emu.border_color() as u8;
                let before = if installed { m.emu.io_extender().unwrap().log.len() } else { 0 };
                m.out(p, colour);
                let after = if installed { m.emu.io_extender().unwrap().log.len() } else { 0 };
                let b1 = m.emu.border_color() as u8;
                st.writes += 1;
                hist.push(format!("OUT {:04x},{:02x}", p, colour));
                let ok = if claimed { after == before + 1 && b1 == b0 } else { after == before && b1 == colour };
                if !ok {
                    ctx.violation(
                        "port-decode:extender-history:write",
                        &format!("step {}: OUT {:04x},{:02x}: {} extender call(s), border {} -> {}; the installed extender {} the port (history: {})", step, p, colour, after - before, b0, b1, if claimed { "claims" } else { "does not claim" }, hist.join("; ")),
                        jobj! {"case"=>case,"is128"=>is128,"port"=>p},
                    );
                    return;
                }
            }
        }
    }
    st.judged += 1;
    st.ext_histories += 1;
}

/// floating bus set oracle
fn floating(ctx: &Ctx, is128: bool, kemp: bool, st: &mut St, rng: &mut Rng, points: usize, all_t: bool) {
    // device configuration of this run: every port no enabled device decodes must float
    let c = Conf { is128, kemp, mouse: rng.chance(1, 3), ext: (0, 0) };
    let mut cfg = Cfg { sound: false, ..Cfg::of(is128) };
    cfg.kempston = c.kemp;
    cfg.mouse = c.mouse;
    cfg.ay = true;
    let mut m = Machine::new(cfg);
    // representatives of every unclaimed decode class + random unclaimed ports
    let mut unclaimed: Vec<u16> = vec![];
    for p in [0xFFFFu16, 0x40FF, 0x7FFF, 0x23FF, 0xFEF7, 0x00E3, 0x001F, 0x7F1F, 0x0003, 0xFF1F, 0xFADF, 0xFBDF, 0xFFDF, 0x00DF, 0xFFFF, 0xBFFF, 0x7FFD, 0xBFFD, 0x1FFD, 0xFF3F] {
        if devices(&c, p, false).is_empty() {
            unclaimed.push(p);
        }
    }
    while unclaimed.len() < 64 {
        let p = rng.u16();
        if devices(&c, p, false).is_empty() {
            unclaimed.push(p);
        }
    }
    let (t0, line, fr) = if is128 { (14362usize, 228usize, 70908usize) } else { (14336, 224, 69888) };
    // display file with random bytes (pokes are enough: the ULA reads memory directly)
    let mut screen = rng.bytes(6912);
    for b in screen.iter_mut() {
        if *b == 0xFF {
            *b = 0x7E;
        }
    }
    m.poke_bytes(0x4000, &screen);
    let ports = unclaimed;
    let mut rf = RegFile::default();
    rf.sp = 0xBF00;
    m.set_regs(&rf);
    let ts: Vec<usize> = if all_t {
        (0..fr).collect()
    } else {
        let mut v: Vec<usize> = (0..points).map(|_| rng.below(fr as u64) as usize).collect();
        for y in [0usize, 95, 191] {
            v.extend((t0 + y * line - 30)..(t0 + y * line + line));
        }
        v.extend(t0 - 300..t0 + 10);
        v.extend(t0 + 192 * line - 20..t0 + 193 * line);
        v
    };
    let mut ff_in_fetch: std::collections::HashMap<u16, u32> = Default::default();
    let mut reads_in_fetch: std::collections::HashMap<u16, u32> = Default::default();
    for ts in ts {
        let port = ports[rng.below(ports.len() as u64) as usize];
        m.set_clock(ts);
        let before = (m.emu.verif_paging(), m.emu.border_color() as u8);
        let got = m.inp(port);
        st.fb_points += 1;
        // "reads ... reach that device and no other": a read that nobody claims changes nothing
        let after = (m.emu.verif_paging(), m.emu.border_color() as u8);
        if after != before {
            ctx.violation(
                &format!("port-decode:read:{}:side-effect", if is128 { "128k" } else { "48k" }),
                &format!("[kempston={} mouse={}] IN {:04x} (unclaimed) at frame T={} returned {:02x} and changed (paging latch, locked, border) from {:?} to {:?}", c.kemp, c.mouse, port, ts, got, before, after),
                jobj! {"is128"=>is128,"t"=>ts,"port"=>port,"got"=>got},
            );
            return;
        }
        // sample time is somewhere inside the IN A,(C) instruction: [ts+4, ts+12]; +-8 T guard
        let (lo, hi) = (ts as i64 + 4 - 8, ts as i64 + 12 + 8);
        let mut allowed: Vec<u8> = vec![0xFF];
        let mut must_ff = true;
        for y in 0..192i64 {
            let ls = t0 as i64 + y * line as i64;
            // fetch window of this line with guard
            if hi >= ls - 8 && lo < ls + 128 + 8 {
                must_ff = false;
                for x in 0..128i64 {
                    let tt = ls + x;
                    if tt >= lo && tt <= hi {
                        let col = ((x / 8) * 2) as usize;
                        for c in [col, col + 1] {
                            let yy = y as usize;
                            let boff = ((yy & 0xC0) << 5) | ((yy & 7) << 8) | ((yy & 0x38) << 2) | c;
                            allowed.push(screen[boff]);
                            allowed.push(screen[0x1800 + (yy >> 3) * 32 + c]);
                        }
                    }
                }
            }
        }
        if got != 0xFF {
            st.fb_data_seen += 1;
        } else if !must_ff && allowed.len() > 8 && !allowed[1..].contains(&0xFF) {
            *ff_in_fetch.entry(port).or_insert(0u32) += 1;
        }
        *reads_in_fetch.entry(port).or_insert(0u32) += (!must_ff && allowed.len() > 8) as u32;
        if (must_ff && got != 0xFF) || !allowed.contains(&got) {
            ctx.violation(
                &format!("floating-bus:{}:{}", if is128 { "128k" } else { "48k" }, if must_ff { "data-outside-fetch" } else { "byte-not-being-fetched" }),
                &format!("[kempston={} mouse={}] IN {:04x} (unclaimed) started at frame T={} returned {:02x}; {}", c.kemp, c.mouse, port, ts, got, if must_ff { "the ULA is not fetching picture data there, must be FF".to_string() } else { format!("allowed {:02x?}", allowed) }),
                jobj! {"is128"=>is128,"kempston"=>c.kemp,"mouse"=>c.mouse,"t"=>ts,"port"=>port,"got"=>got},
            );
        }
    }
    never_floats(ctx, is128, &c, &reads_in_fetch, &ff_in_fetch);
}

pub fn run(ctx: &Ctx) -> Evidence {
    let mut confs: Vec<Conf> = vec![];
    let ext_preds: Vec<(u16, u16)> = if ctx.quick() {
        vec![(0, 0), (0xFFFF, 0xCCCC)]
    } else {
        vec![(0, 0), (0xFFFF, 0xCCCC), (0x00FF, 0x00FE), (0xC002, 0xC000), (0x00E1, 0x0001), (0x8003, 0x0001)]
    };
    let mut rng = Rng::fork(ctx.seed ^ 0xC07, 0);
    for is128 in [false, true] {
        for kemp in [false, true] {
            for mouse in [false, true] {
                if ctx.quick() {
                    // one extender choice per device combination: none / exact port / random predicate
                    let e = match rng.below(3) {
                        0 => (0, 0),
                        1 => ext_preds[1],
                        _ => {
                            let mask = rng.u16() | 0x0101;
                            (mask, rng.u16() & mask)
                        }
                    };
                    confs.push(Conf { is128, kemp, mouse, ext: e });
                } else {
                    for e in ext_preds.iter() {
                        confs.push(Conf { is128, kemp, mouse, ext: *e });
                    }
                    let mask = rng.u16() | 0x0101;
                    confs.push(Conf { is128, kemp, mouse, ext: (mask, rng.u16() & mask) });
                }
            }
        }
    }
    let nconf = confs.len();
    let fb_all = !ctx.quick();
    let res = par_map(ctx.jobs(), nconf + 4, |i| {
        let mut st = St::default();
        let mut rng = Rng::fork(ctx.seed ^ 0xC07, 1 + i as u64);
        if i < nconf {
            sweep(ctx, &confs[i], &mut st, &mut rng);
        } else {
            let j = i - nconf;
            floating(ctx, j & 1 == 1, j & 2 == 2, &mut st, &mut rng, 20_000, fb_all);
            for k in 0..ctx.scale(200, 5000) {
                extender_history(ctx, j & 1 == 1, &mut st, &mut rng, (j as u64) << 32 | k);
            }
        }
        st
    });
    let mut ev = Evidence::new("all 65536 port addresses x {IN, OUT} (IN A,(C)/OUT (C),A, 1/16 sampled IN A,(n)/INI/OUT (n),A/OUTI) per configuration of {48K,128K} x Kempston on/off x mouse on/off x extender none/exact/random predicate; the byte read identifies the answering device (distinguishable device states), after every OUT border/AY/latch/lock/extender-log are diffed; floating bus: unclaimed ports read at sampled (thorough: all) frame T-states against the set oracle; extender histories: install / replace / re-claim while one port is polled, every access judged against the claims in force. distinct = (decode-relevant address bits, device) signatures judged");
    let mut sigs = HashSet::new();
    for r in res {
        ev.evaluations += r.reads + r.writes + r.fb_points;
        ev.add_num("port_reads", r.reads);
        ev.add_num("port_writes", r.writes);
        ev.add_num("judged", r.judged);
        ev.add_num("unjudged_multi_device", r.unjudged);
        ev.add_num("floating_bus_points", r.fb_points);
        ev.add_num("floating_bus_points_returning_data", r.fb_data_seen);
        ev.add_num("extender_install_replace_reclaim_histories", r.ext_histories);
        sigs.extend(r.sigs);
        for s in r.sample {
            ev.sample(s);
        }
    }
    ev.add("configurations", nconf);
    ev.distinct_nontrivial = sigs.len() as u64;
    ev.exhaustive = Some(true);
    ev.add("exhaustive_subspace", "all 65536 ports x read/write per configuration");
    ctx.require("port reads", ev.extra.iter().find(|(k, _)| k == "port_reads").and_then(|(_, v)| v.as_i64()).unwrap_or(0) as u64, 65536 * nconf as u64);
    ctx.require("floating bus points with data", ev.extra.iter().find(|(k, _)| k == "floating_bus_points_returning_data").and_then(|(_, v)| v.as_i64()).unwrap_or(0) as u64, 100);
    ev.assumptions.push("ports decoding to more than one device are not judged; with the mouse enabled every A5=0 port other than xxDF (A9=1) is treated as possibly-mouse".into());
    ev.assumptions.push("bits 5-7 of ULA reads not judged; speaker/MIC effect of ULA writes is covered by C19".into());
    ev
}
