//! C14 – loading a well-formed SNA / SZX / SCR file yields exactly the described state.
//!
//! Observed: `Emulator::load_snapshot` / `load_screen` on files produced by the independent writers
//! of `spec_snap` from a generated abstract state `Abs`, loaded into emulators that are in a random
//! *prior* state (fresh, ran on, halted, stopped in the middle of a DD chain, paging locked; always
//! other border / IM / IFF / latch / AY playing / garbage in RAM; mouse fitted or not).
//!
//! Oracle = the abstract state:
//!  * always (hooks, nothing executed): all registers, IFF1/IFF2, IM, border, 7FFD latch + lock,
//!    every RAM page (`verif_ram_page`) and the CPU's view (`peek`) incl. the ROM selected by the latch;
//!  * one behavioural observation per case (they execute instructions, so only one is made):
//!    - `int`  : IM2/IFF1=1 state on a sled of `INC H`; with INT active the interrupt must be accepted
//!               at once (pushed PC = sled start) or, if the file says EI-pending, after exactly one
//!               instruction; with INT inactive three instructions run. This is what exposes a leaked
//!               `halted` (pushed PC one too high), a leaked pending prefix (IX changes instead of H)
//!               or a leaked skip-interrupt state of the receiving CPU;
//!    - `halt` : SZX HALTED flag – nothing but the HALT executes until the next interrupt, which then
//!               pushes the address *behind* the HALT. Emulators disagree whether the stored PC of a
//!               halted CPU points at or behind the HALT, so both files are written and a violation is
//!               reported only if **neither** behaves as specified;
//!    - `canvas`: after 3 frames the finished frame buffer equals the standard decode of the screen
//!               bank (FLASH cells may show either phase);
//!    - `ay`   : AY registers read back through FFFD (compared under the data-sheet register masks,
//!               so a chip returning unmasked or masked values both pass) and the **audible** state:
//!               a file describing one tone of period P must give 2·f·T (±20 % ±4) crossings of the
//!               mean with at least a quarter of the peak-to-peak swing the same registers produce when
//!               written through the ports; a file describing zero volume must give < 5 % of it;
//!    - `mouse`: AMXM chunk – Kempston mouse ports answer and follow a movement / float (FF in the
//!               border) accordingly;
//!  * twins: the same state as SNA and as SZX (random compression, chunk order, unknown chunks) loaded
//!    into identically prepared machines, then 200 single steps of a program that is insensitive to
//!    what SNA cannot carry (no BIT n,(HL)/SCF/CCF/I-O, IFF1==IFF2) – registers after every step and
//!    RAM at the end must agree;
//!  * model mismatch (128K file → 48K machine and vice versa): `Err`, or `Ok` with the file's 48 KiB
//!    correctly visible at 0x4000..0xFFFF; anything else (panic, wrong layout) is a violation.
//!
//! Judged since seed C14l: the position in the frame an SZX file describes (dwCyclesStart), read through
//! the frame-clock hook right after the load.
//! Not judged (statement silent): KEYB joystick type, MEMPTR/Q, anything a
//! file does not describe (AY without AY chunk, mouse without AMXM chunk). SNA carries only IFF2; IFF1 is
//! required to equal it (the universal reading of the format, and the only one independent of the prior
//! state). 48K SNA: the two bytes below the restored SP are exempt (the format keeps PC there).
//!
//! Attribution (keys): a failed item is re-checked with the same file on a *fresh* machine; if it
//! passes there the key gets `@prior-<kind>` (state of the receiving emulator leaked), otherwise it is
//! the bare `<format>:<item>`. A failed SZX load is re-tried without CRTR / unknown chunks / shuffling
//! / compression to name the responsible file feature.
use crate::host::{mem_asset, Cfg, Machine};
use crate::json::{hex, J};
use crate::report::{par_map, Ctx, Evidence};
use crate::rng::Rng;
use crate::spec_snap::*;
use rustzx_core::host::Screen;
use std::collections::{BTreeMap, HashSet};

#[derive(Clone, Copy, Debug, PartialEq, Eq, Hash)]
enum Fmt {
    Sna,
    Szx,
}
impl Fmt {
    fn name(&self) -> &'static str {
        match self {
            Fmt::Sna => "sna",
            Fmt::Szx => "szx",
        }
    }
}

#[derive(Clone, Debug, PartialEq)]
enum Obs {
    RegsOnly,
    Int { active: bool },
    Halt,
    Canvas,
    Ay { tone: Option<u16> },
    Mouse,
}
impl Obs {
    fn name(&self) -> &'static str {
        match self {
            Obs::RegsOnly => "regs",
            Obs::Int { .. } => "int",
            Obs::Halt => "halt",
            Obs::Canvas => "canvas",
            Obs::Ay { .. } => "ay",
            Obs::Mouse => "mouse",
        }
    }
}

/// Layout of the behavioural probe inside 0x8000..0xBFFF (never paged, never contended)
#[derive(Clone, Debug, Default)]
pub struct Probe {
    sled: u16,
    handler: u16,
    sp: u16,
}

const AY_MASK: [u8; 16] = [0xFF, 0x0F, 0xFF, 0x0F, 0xFF, 0x0F, 0x1F, 0xFF, 0x1F, 0x1F, 0x1F, 0xFF, 0xFF, 0x0F, 0xFF, 0xFF];

#[derive(Default)]
struct Stats {
    cases: u64,
    checks: u64,
    by_kind: BTreeMap<String, u64>,
    distinct: HashSet<u64>,
    ram_bytes: u64,
    canvas_px: u64,
    audio_samples: u64,
    twin_steps: u64,
    prior_established: u64,
    prior_failed: u64,
    samples: Vec<J>,
}
impl Stats {
    fn kind(&mut self, k: &str) {
        *self.by_kind.entry(k.to_string()).or_insert(0) += 1;
    }
}

pub fn install_im2(a: &mut Abs, rng: &mut Rng, handler_code: &[u8]) -> Probe {
    let i = 0xA0 + rng.below(8) as u8;
    let handler = 0xB000 + rng.below(0x400) as u16;
    let vec = (i as u16) << 8 | 0xFF;
    a.poke(vec, handler as u8);
    a.poke(vec.wrapping_add(1), (handler >> 8) as u8);
    a.poke_bytes(handler, handler_code);
    a.r.i = i;
    a.r.im = 2;
    a.r.iff1 = true;
    a.r.iff2 = true;
    a.r.sp = 0xB800 + rng.below(0x700) as u16;
    Probe { sled: 0, handler, sp: a.r.sp }
}

/// Adapts the abstract state to the chosen observation; returns the probe layout.
fn install_obs(a: &mut Abs, rng: &mut Rng, obs: &Obs, fmt: Fmt) -> Probe {
    let mut p = Probe::default();
    match obs {
        Obs::RegsOnly => {
            if fmt == Fmt::Szx {
                a.r.iff1 = rng.bool();
                a.r.iff2 = rng.bool();
            }
        }
        Obs::Int { .. } => {
            p = install_im2(a, rng, &[0u8; 16]);
            p.sled = 0x9000 + rng.below(0x800) as u16;
            a.poke_bytes(p.sled, &[0x24; 24]);
            a.r.pc = p.sled;
            if fmt == Fmt::Szx {
                a.ei_last = rng.bool();
            }
        }
        Obs::Halt => {
            p = install_im2(a, rng, &[0u8; 16]);
            p.sled = 0x9000 + rng.below(0x800) as u16;
            a.poke(p.sled.wrapping_sub(1), 0x00);
            a.poke(p.sled, 0x76);
            a.poke_bytes(p.sled + 1, &[0x04; 12]); // INC B
            a.r.pc = p.sled;
            a.r.halted = true;
        }
        Obs::Canvas | Obs::Ay { .. } | Obs::Mouse => {
            let l = 0x9000 + rng.below(0x2000) as u16;
            a.poke_bytes(l, &[0x18, 0xFE]);
            a.r.pc = l;
            a.r.iff1 = false;
            a.r.iff2 = false;
            a.r.sp = 0xB800 + rng.below(0x700) as u16;
            if let Obs::Ay { tone } = obs {
                let mut regs = [0u8; 16];
                for r in regs.iter_mut() {
                    *r = rng.u8();
                }
                for (i, r) in regs.iter_mut().enumerate() {
                    *r &= AY_MASK[i];
                }
                match tone {
                    Some(per) => {
                        regs[0] = *per as u8;
                        regs[1] = (*per >> 8) as u8;
                        regs[7] = 0x3E | (rng.u8() & 0xC0);
                        regs[8] = 0x0F;
                        regs[9] = 0;
                        regs[10] = 0;
                    }
                    None => {
                        regs[8] = 0;
                        regs[9] = 0;
                        regs[10] = 0;
                    }
                }
                a.ay = Some(AyState { flags: if a.is128 { *rng.pick(&[0u8, 2]) } else { 2 }, cur: rng.u8() & 0x0F, regs });
            }
            if let Obs::Mouse = obs {
                a.mouse = Some(rng.bool());
            }
        }
    }
    if fmt == Fmt::Szx && rng.bool() {
        a.keyb = Some(*rng.pick(&[0u8, 1, 2, 3, 8]));
    }
    p
}

fn word_at(m: &Machine, addr: u16) -> u16 {
    u16::from_le_bytes([m.peek(addr), m.peek(addr.wrapping_add(1))])
}

struct Fail {
    item: String,
    what: String,
    details: J,
}
fn fail(v: &mut Vec<Fail>, item: &str, what: String, details: J) {
    v.push(Fail { item: item.to_string(), what, details });
}

/// audio statistics over one channel: (mean crossings with hysteresis, peak-to-peak)
fn audio_stats(s: &[f32]) -> (u32, f32) {
    if s.is_empty() {
        return (0, 0.0);
    }
    let mean = s.iter().sum::<f32>() / s.len() as f32;
    let (mut lo, mut hi) = (f32::MAX, f32::MIN);
    for &x in s {
        lo = lo.min(x);
        hi = hi.max(x);
    }
    let p2p = hi - lo;
    let h = p2p * 0.15;
    let mut state = 0i8;
    let mut crossings = 0;
    for &x in s {
        let ns = if x > mean + h { 1 } else if x < mean - h { -1 } else { state };
        if state != 0 && ns != state {
            crossings += 1;
        }
        state = ns;
    }
    (crossings, p2p)
}

fn settle_and_record(m: &mut Machine) -> Vec<f32> {
    m.drain_audio();
    m.run_frames(1);
    m.drain_audio();
    // the mixer queue holds one frame at most: drain after every frame
    let mut v = vec![];
    for _ in 0..2 {
        m.run_frames(1);
        v.extend(m.drain_audio().iter().map(|s| s.0 + s.1));
    }
    v
}

/// Reference swing: the tone registers written through the ports of a fresh machine of the model
fn reference_tone_p2p(is128: bool, regs: &[u8; 16]) -> f32 {
    let mut c = Cfg::of(is128);
    c.ay = true;
    let mut m = Machine::new(c);
    let mut rf = Abs::random_regs(&mut Rng::new(1));
    rf.iff1 = false;
    rf.pc = 0x9000;
    rf.sp = 0xBF00;
    m.set_regs(&rf);
    m.poke_bytes(0x9000, &[0x18, 0xFE]);
    for (r, v) in regs.iter().enumerate() {
        m.out(0xFFFD, r as u8);
        m.out(0xBFFD, *v);
    }
    let s = settle_and_record(&mut m);
    audio_stats(&s).1
}

/// All checks of one loaded file on one machine. Returns the failed items.
#[allow(clippy::too_many_arguments)]
fn check_loaded(m: &mut Machine, a: &Abs, fmt: Fmt, obs: &Obs, p: &Probe, st: &mut Stats, count: bool) -> Vec<Fail> {
    let mut f = vec![];
    // ---- static comparison through the hooks
    let exempt: Vec<u16> = if fmt == Fmt::Sna && !a.is128 { vec![a.r.sp.wrapping_sub(2), a.r.sp.wrapping_sub(1)] } else { vec![] };
    let mut want = a.clone();
    if fmt == Fmt::Sna {
        want.r.iff1 = want.r.iff2;
    }
    // SZX describes where in its frame the machine is (dwCyclesStart); nothing has run since the load
    if fmt == Fmt::Szx && m.clock() != a.cycles as usize {
        fail(&mut f, "frame-position", format!("file says {} T-states into the frame, machine is at {}", a.cycles, m.clock()), jobj! {"expected"=>a.cycles as u64,"observed"=>m.clock() as u64});
    }
    let cap = capture(m);
    for d in diff_capture(&cap, &want, &exempt) {
        // the PC of a halted machine is judged behaviourally (two conventions)
        if a.r.halted && d.item == "reg:pc" {
            continue;
        }
        fail(&mut f, &d.item.clone(), format!("{} expected {} observed {}", d.item, d.exp, d.got), jobj! {"expected"=>d.exp.as_str(),"observed"=>d.got.as_str()});
    }
    if let Some((ad, e, g)) = cpu_view_mismatch(m, a, &exempt) {
        fail(&mut f, "cpu-view", format!("CPU sees {:02x} at {:04x}, file says {:02x}", g, ad, e), jobj! {"addr"=>ad,"expected"=>e,"observed"=>g});
    }
    if a.is128 {
        // ROM selected by bit 4: compare with a reference machine that was told the same latch value
        let mut refm = Machine::new(Cfg::m128());
        let mut rf = Abs::random_regs(&mut Rng::new(2));
        rf.iff1 = false;
        rf.sp = 0xBF00;
        refm.set_regs(&rf);
        refm.out(0x7FFD, a.latch & 0x1F);
        let bad = (0..0x4000u16).step_by(61).find(|ad| refm.peek(*ad) != m.peek(*ad));
        if let Some(ad) = bad {
            fail(&mut f, "rom-select", format!("ROM window differs at {:04x} from the ROM selected by latch {:02x}", ad, a.latch), jobj! {"addr"=>ad});
        }
    }
    if count {
        st.checks += 20;
        st.ram_bytes += (a.pages.len() * PAGE) as u64;
    }
    // ---- one behavioural observation (pointless if the memory it relies on is not what the file says)
    if f.iter().any(|x| matches!(x.item.as_str(), "latch" | "lock" | "ram" | "cpu-view" | "rom-select")) {
        return f;
    }
    match obs {
        Obs::RegsOnly => {}
        Obs::Int { active } => {
            let r0 = m.regs();
            let sp0 = p.sp;
            if *active {
                m.set_clock(2);
                m.step();
                let r1 = m.regs();
                if a.ei_last {
                    let ok1 = r1.hl == r0.hl.wrapping_add(0x100) && r1.sp == sp0 && r1.pc == p.sled.wrapping_add(1) && r1.ix == r0.ix;
                    if !ok1 {
                        let item = if r1.sp == sp0.wrapping_sub(2) { "eilast:accepted-without-delay" } else if r1.ix != r0.ix { "step:ix-changed-instead-of-h" } else { "eilast:first-step-other" };
                        fail(&mut f, item, "EI-pending state: exactly one instruction must run before the interrupt is accepted".into(), jobj! {"before"=>regs_json(&r0),"after_step1"=>regs_json(&r1),"sled"=>p.sled});
                    } else {
                        m.step();
                        let r2 = m.regs();
                        let pushed = word_at(m, r2.sp);
                        if !(r2.sp == sp0.wrapping_sub(2) && pushed == p.sled.wrapping_add(1)) {
                            fail(&mut f, "eilast:second-step", "EI-pending state: the interrupt must be accepted after exactly one instruction".into(), jobj! {"after_step2"=>regs_json(&r2),"pushed"=>pushed,"sled"=>p.sled});
                        }
                    }
                } else {
                    let pushed = word_at(m, r1.sp);
                    let ok = r1.sp == sp0.wrapping_sub(2) && pushed == p.sled && r1.hl == r0.hl && r1.ix == r0.ix && !r1.iff1;
                    if !ok {
                        let item = if r1.sp == sp0.wrapping_sub(2) && pushed == p.sled.wrapping_add(1) {
                            "int:pushed-pc-one-too-high"
                        } else if r1.sp == sp0 && (r1.hl != r0.hl || r1.ix != r0.ix) {
                            "int:not-accepted-at-once"
                        } else {
                            "int:other"
                        };
                        fail(&mut f, item, "IFF1=1 and INT active: the interrupt must be accepted before any instruction, pushing the file's PC".into(), jobj! {"before"=>regs_json(&r0),"after"=>regs_json(&r1),"pushed"=>pushed,"sled"=>p.sled});
                    }
                }
            } else {
                m.set_clock(1000);
                for _ in 0..3 {
                    m.step();
                }
                let r1 = m.regs();
                let ok = r1.hl == r0.hl.wrapping_add(0x300) && r1.pc == p.sled.wrapping_add(3) && r1.sp == sp0 && r1.ix == r0.ix;
                if !ok {
                    let item = if r1.ix != r0.ix { "step:ix-changed-instead-of-h" } else { "step:other" };
                    fail(&mut f, item, "three INC H must execute from the file's PC".into(), jobj! {"before"=>regs_json(&r0),"after"=>regs_json(&r1),"sled"=>p.sled});
                }
            }
            if count {
                st.checks += 4;
            }
        }
        Obs::Halt => { /* handled by the caller (two conventions) */ }
        Obs::Canvas => {
            m.run_frames(3);
            let bad = canvas_mismatches(&m.emu.screen_buffer().px, &a.pages[a.screen_page()]);
            if bad != 0 {
                fail(&mut f, "canvas", format!("{} canvas pixels differ from the decode of screen bank {}", bad, a.screen_page()), jobj! {"pixels"=>bad,"bank"=>a.screen_page()});
            }
            if count {
                st.canvas_px += 256 * 192;
                st.checks += 1;
            }
            // "every RAM page as seen by ... the display": the screen bank hidden at load time must
            // show the file's bytes as well once the program flips bit 3 (no CPU write in between)
            if a.is128 && a.latch & 0x20 == 0 && bad == 0 {
                let other = if a.screen_page() == 5 { 7 } else { 5 };
                quiet_io(m, |m| m.out(0x7FFD, a.latch ^ 0x08));
                m.run_frames(2);
                let bad2 = canvas_mismatches(&m.emu.screen_buffer().px, &a.pages[other]);
                if bad2 != 0 {
                    fail(&mut f, "canvas:hidden-bank", format!("after flipping bit 3 of the latch {} canvas pixels differ from the decode of screen bank {} as stored in the file", bad2, other), jobj! {"pixels"=>bad2,"bank"=>other});
                }
                if count {
                    st.canvas_px += 256 * 192;
                    st.checks += 1;
                }
            }
        }
        Obs::Ay { tone } => {
            let ay = a.ay.as_ref().unwrap();
            let (sel, back) = quiet_io(m, |m| {
                let sel = m.inp(0xFFFD);
                let mut back = [0u8; 16];
                for r in 0..16u8 {
                    m.out(0xFFFD, r);
                    back[r as usize] = m.inp(0xFFFD);
                }
                m.out(0xFFFD, ay.cur);
                (sel, back)
            });
            let mc = AY_MASK[ay.cur as usize];
            if sel & mc != ay.regs[ay.cur as usize] & mc {
                fail(&mut f, "ay:selected-register", format!("reading FFFD gives {:02x}, file selects R{} = {:02x}", sel, ay.cur, ay.regs[ay.cur as usize]), jobj! {"observed"=>sel,"cur"=>ay.cur});
            }
            if (0..16).any(|r| back[r] & AY_MASK[r] != ay.regs[r] & AY_MASK[r]) {
                fail(&mut f, "ay:readback", "AY registers read back through FFFD differ from the file".into(), jobj! {"expected"=>hex(&ay.regs),"observed"=>hex(&back)});
            }
            let s = settle_and_record(m);
            let (cross, p2p) = audio_stats(&s);
            let mut ref_regs = ay.regs;
            if tone.is_none() {
                ref_regs[0] = 100;
                ref_regs[1] = 0;
                ref_regs[7] = 0x3E;
                ref_regs[8] = 0x0F;
            }
            let ref_p2p = reference_tone_p2p(a.is128, &ref_regs);
            if count {
                st.audio_samples += s.len() as u64;
                st.checks += 3;
            }
            if ref_p2p < 1e-4 || s.len() < 1000 {
                fail(&mut f, "ay:harness-reference-silent", "reference machine produced no tone (harness problem)".into(), jobj! {"ref_p2p"=>ref_p2p as f64,"samples"=>s.len()});
            } else {
                match tone {
                    Some(per) => {
                        let freq = 1_773_400.0 / (16.0 * *per as f64);
                        let t = s.len() as f64 / 44100.0;
                        let want = 2.0 * freq * t;
                        let ok = p2p >= 0.25 * ref_p2p && (cross as f64) >= want * 0.8 - 4.0 && (cross as f64) <= want * 1.2 + 4.0;
                        if !ok {
                            fail(&mut f, "ay:audible-tone", format!("file describes a {:.0} Hz tone at full volume: expected ~{:.0} mean crossings and swing >= {:.4}; observed {} crossings, swing {:.4}", freq, want, 0.25 * ref_p2p, cross, p2p),
                                jobj! {"period"=>*per,"crossings"=>cross,"p2p"=>p2p as f64,"ref_p2p"=>ref_p2p as f64,"regs"=>hex(&ay.regs)});
                        }
                    }
                    None => {
                        if p2p > 0.05 * ref_p2p {
                            fail(&mut f, "ay:audible-silence", format!("file describes zero volume on all channels; observed swing {:.4} (a full-volume tone swings {:.4})", p2p, ref_p2p),
                                jobj! {"p2p"=>p2p as f64,"ref_p2p"=>ref_p2p as f64,"crossings"=>cross,"regs"=>hex(&ay.regs)});
                        }
                    }
                }
            }
        }
        Obs::Mouse => {
            let present = a.mouse.unwrap();
            let (x0, y0, b0) = quiet_io(m, |m| {
                m.set_clock(100);
                (m.inp(0xFBDF), m.inp(0xFFDF), m.inp(0xFADF))
            });
            m.emu.send_mouse_pos_diff(7, 0);
            let x1 = quiet_io(m, |m| {
                m.set_clock(100);
                m.inp(0xFBDF)
            });
            let ok = if present { x1.wrapping_sub(x0) == 7 } else { x0 == 0xFF && x1 == 0xFF && y0 == 0xFF && b0 == 0xFF };
            if !ok {
                fail(&mut f, if present { "mouse:absent-but-file-says-kempston" } else { "mouse:present-but-file-says-none" }, format!("AMXM says mouse {}; ports FBDF before/after moving +7: {:02x}/{:02x}, FFDF {:02x}, FADF {:02x}", if present { "Kempston" } else { "none" }, x0, x1, y0, b0),
                    jobj! {"x0"=>x0,"x1"=>x1,"y0"=>y0,"b0"=>b0});
            }
            if count {
                st.checks += 1;
            }
        }
    }
    f
}

/// Behaviour of a machine loaded from a HALTED file. Returns None if it behaves as specified.
fn halt_behaviour(m: &mut Machine, a: &Abs, p: &Probe) -> Option<(String, J)> {
    let r0 = m.regs();
    let x = p.sled;
    m.set_clock(1000);
    for k in 0..12 {
        m.step();
        let r = m.regs();
        if r.bc != r0.bc || r.sp != p.sp || !(r.pc == x || r.pc == x.wrapping_add(1)) {
            return Some(("halt:runs-instead-of-waiting".into(), jobj! {"step"=>k,"halt_at"=>x,"before"=>regs_json(&r0),"after"=>regs_json(&r)}));
        }
    }
    let fl = m.frame_len();
    m.set_clock(fl - 6);
    for _ in 0..6 {
        m.step();
        let r = m.regs();
        if r.sp != p.sp {
            let pushed = word_at(m, r.sp);
            if r.sp == p.sp.wrapping_sub(2) && pushed == x.wrapping_add(1) && r.bc == r0.bc {
                return None;
            }
            return Some(("halt:resume-address".into(), jobj! {"halt_at"=>x,"pushed"=>pushed,"expected"=>x.wrapping_add(1),"after"=>regs_json(&r)}));
        }
        if r.bc != r0.bc {
            return Some(("halt:runs-instead-of-waiting".into(), jobj! {"halt_at"=>x,"after"=>regs_json(&r)}));
        }
    }
    let _ = a;
    Some(("halt:interrupt-never-accepted".into(), jobj! {"halt_at"=>x,"after"=>regs_json(&m.regs())}))
}

fn load(m: &mut Machine, fmt: Fmt, bytes: &[u8]) -> Result<(), String> {
    let r = match fmt {
        Fmt::Sna => load_sna(m, bytes),
        Fmt::Szx => load_szx(m, bytes),
    };
    match r {
        Ok(Ok(())) => Ok(()),
        Ok(Err(e)) => Err(format!("rejected:{}", e)),
        Err(_) => Err(format!("panic:{}", panic_sig())),
    }
}

fn file_json(bytes: &[u8]) -> J {
    // complete file for small ones, head otherwise (the case is replayable from seed + case id)
    if bytes.len() <= 4096 {
        J::Str(hex(bytes))
    } else {
        J::Str(format!("{}… ({} bytes; regenerate with --replay)", hex(&bytes[..256]), bytes.len()))
    }
}

fn case_rng(ctx: &Ctx, id: u64, sub: u64) -> Rng {
    Rng::fork(ctx.seed ^ 0xC14_0000, id * 16 + sub)
}

fn run_single(ctx: &Ctx, id: u64, st: &mut Stats) {
    let mut rng = case_rng(ctx, id, 0);
    let is128 = rng.bool();
    let fmt = if rng.chance(2, 5) { Fmt::Sna } else { Fmt::Szx };
    let obs = loop {
        let o = match rng.below(10) {
            0 => Obs::RegsOnly,
            1..=3 => Obs::Int { active: rng.chance(2, 3) },
            4 => Obs::Halt,
            5 | 6 => Obs::Canvas,
            7 | 8 => Obs::Ay { tone: if rng.chance(2, 3) { Some(37 + rng.below(184) as u16) } else { None } },
            _ => Obs::Mouse,
        };
        if fmt == Fmt::Sna && matches!(o, Obs::Halt | Obs::Ay { .. } | Obs::Mouse) {
            continue;
        }
        break o;
    };
    let mut a = Abs::random(&mut rng, is128);
    let p = install_obs(&mut a, &mut rng, &obs, fmt);
    let kind = Prior::random(&mut rng, is128);
    let mut opts = SzxOpts::random(&mut rng);
    opts.crtr = match rng.below(8) {
        0 | 1 => Some(0),
        2 => Some(1 + rng.below(40) as usize),
        _ => None,
    };
    let wseed = rng.next();
    let write = |o: &SzxOpts, a: &Abs| -> Vec<u8> {
        match fmt {
            Fmt::Sna => write_sna(a),
            Fmt::Szx => write_szx(a, o, &mut Rng::new(wseed)),
        }
    };
    let bytes = write(&opts, &a);
    let pseed = rng.next();
    let mk_prior = |k: Prior| make_prior(&mut Rng::new(pseed), is128, k);
    st.cases += 1;
    st.kind(&format!("{}-{}-{}", fmt.name(), if is128 { "128k" } else { "48k" }, obs.name()));
    st.kind(&format!("prior-{}", kind.name()));
    st.distinct.insert(a.fingerprint() ^ (kind as u64) << 56 ^ crate::rng::mix2(bytes.len() as u64, obs.name().len() as u64));
    let base = |extra: J| {
        let mut j = jobj! {"case"=>id,"format"=>fmt.name(),"is128"=>is128,"observation"=>format!("{:?}", obs),"prior"=>kind.name(),
        "szx_opts"=>if fmt==Fmt::Szx {opts.describe()} else {String::new()},"state"=>regs_json(&a.r),"border"=>a.border,"latch"=>a.latch,"ei_last"=>a.ei_last,
        "file"=>file_json(&bytes)};
        j.set("observed", extra);
        j
    };
    let (mut m, ok) = mk_prior(kind);
    if ok {
        st.prior_established += 1
    } else {
        st.prior_failed += 1
    }
    let po = observe_prior(&mut m, kind, ok);
    // ---- load
    if let Err(e) = load(&mut m, fmt, &bytes) {
        // which feature of the file is responsible?
        let mut feature = "base".to_string();
        if fmt == Fmt::Szx {
            let mut trials: Vec<(&str, SzxOpts)> = vec![];
            let mut o = opts.clone();
            o.crtr = None;
            trials.push((if opts.crtr == Some(0) { "crtr-36-byte-chunk" } else { "crtr-chunk" }, o));
            let mut o = opts.clone();
            o.unknown = 0;
            trials.push(("unknown-chunks", o));
            let mut o = opts.clone();
            o.shuffle = false;
            trials.push(("chunk-order", o));
            let mut o = opts.clone();
            o.comp = vec![Comp::Stored];
            trials.push(("compression", o));
            for (name, o) in trials {
                if o.describe() == opts.describe() {
                    continue;
                }
                let b2 = write(&o, &a);
                let (mut m2, _) = mk_prior(kind);
                if load(&mut m2, fmt, &b2).is_ok() {
                    feature = name.to_string();
                    break;
                }
            }
        }
        let (mut mf, _) = mk_prior(Prior::Fresh);
        let fresh_fails = load(&mut mf, fmt, &bytes).is_err();
        let key = format!("{}:load-{}:{}{}", fmt.name(), e, feature, if fresh_fails { String::new() } else { format!("@prior-{}", po.map_label()) });
        ctx.violation(&key, &format!("well-formed {} file not loaded: {}", fmt.name(), e), base(J::Str(crate::last_panic())));
        return;
    }
    // ---- checks
    let fails = if obs == Obs::Halt {
        // static part on this machine, behaviour under both PC conventions
        let mut f = check_loaded(&mut m, &a, fmt, &obs, &p, st, true);
        let mut verdicts = vec![];
        for conv in [opts.halt_pc_after, !opts.halt_pc_after] {
            let mut o = opts.clone();
            o.halt_pc_after = conv;
            let b2 = write(&o, &a);
            let (mut m2, _) = mk_prior(kind);
            match load(&mut m2, fmt, &b2) {
                Ok(()) => verdicts.push((conv, halt_behaviour(&mut m2, &a, &p))),
                Err(e) => verdicts.push((conv, Some((format!("halt:load-{}", e), J::Null)))),
            }
        }
        st.checks += 2;
        if verdicts.iter().all(|v| v.1.is_some()) {
            let (item, _) = verdicts[0].1.clone().unwrap();
            let det = J::Arr(verdicts.iter().map(|(c, v)| jobj! {"pc_stored_after_halt"=>*c,"failure"=>v.as_ref().map(|x| x.0.clone()).unwrap_or_default(),"details"=>v.as_ref().map(|x| x.1.clone()).unwrap_or(J::Null)}).collect());
            fail(&mut f, &item, "HALTED flag: under neither PC convention does the machine wait at the HALT and resume behind it".into(), det);
        }
        f
    } else {
        check_loaded(&mut m, &a, fmt, &obs, &p, st, true)
    };
    if fails.is_empty() {
        if st.samples.len() < 2 {
            st.samples.push(jobj! {"case"=>id,"format"=>fmt.name(),"is128"=>is128,"observation"=>format!("{:?}", obs),"prior"=>kind.name(),"file_len"=>bytes.len()});
        }
        return;
    }
    // ---- attribution: same file on a fresh machine
    let fresh_items: HashSet<String> = if kind == Prior::Fresh {
        fails.iter().map(|x| x.item.clone()).collect()
    } else {
        let (mut mf, _) = mk_prior(Prior::Fresh);
        let mut tmp = Stats::default();
        match load(&mut mf, fmt, &bytes) {
            Ok(()) => {
                let mut v: HashSet<String> = check_loaded(&mut mf, &a, fmt, &obs, &p, &mut tmp, false).into_iter().map(|x| x.item).collect();
                if obs == Obs::Halt {
                    // halted behaviour on fresh machines
                    let mut all_bad = true;
                    for conv in [true, false] {
                        let mut o = opts.clone();
                        o.halt_pc_after = conv;
                        let (mut m2, _) = mk_prior(Prior::Fresh);
                        if load(&mut m2, fmt, &write(&o, &a)).is_ok() && halt_behaviour(&mut m2, &a, &p).is_none() {
                            all_bad = false;
                        }
                    }
                    if all_bad {
                        for x in fails.iter().filter(|x| x.item.starts_with("halt:")) {
                            v.insert(x.item.clone());
                        }
                    }
                }
                v
            }
            Err(_) => HashSet::new(),
        }
    };
    for x in fails {
        // under a prior-state attribution the items that all hang on the memory map are one symptom group
        let grouped = if matches!(x.item.as_str(), "latch" | "lock" | "ram" | "cpu-view" | "rom-select" | "canvas") { "memory-map" } else { x.item.as_str() };
        let key = if fresh_items.contains(&x.item) {
            format!("{}:{}", fmt.name(), x.item)
        } else if x.item.starts_with("ay:audible") {
            format!("{}:{}@prior-ay-playing", fmt.name(), x.item)
        } else {
            format!("{}:{}@prior-{}", fmt.name(), grouped, if grouped == "memory-map" { po.map_label().to_string() } else { po.cpu_label() })
        };
        ctx.violation(&key, &format!("{} load: {}", fmt.name(), x.what), base(x.details));
    }
}

// ---------------------------------------------------------------------------------------------- SCR
fn run_scr(ctx: &Ctx, id: u64, st: &mut Stats) {
    let mut rng = case_rng(ctx, id, 1);
    let is128 = rng.bool();
    let kind = Prior::random(&mut rng, is128);
    let scr = rng.bytes(6912);
    let (mut m, _) = make_prior(&mut rng, is128, kind);
    st.cases += 1;
    st.kind(&format!("scr-{}", if is128 { "128k" } else { "48k" }));
    st.distinct.insert(crate::rng::mix2(scr[0] as u64 | (scr[6911] as u64) << 8, id));
    let shadow = is128 && m.emu.verif_paging().0 & 8 != 0;
    let b = scr.clone();
    let r = crate::host::catch(|| m.emu.load_screen(Screen::Scr(mem_asset(b))).map_err(|e| format!("{:?}", e)));
    let det = |x: J| jobj! {"case"=>id,"is128"=>is128,"prior"=>kind.name(),"observed"=>x,"file_head"=>hex(&scr[..64])};
    match r {
        Err(_) => ctx.violation(&format!("scr:load-panic:{}", panic_sig()), "well-formed SCR file: loader panicked", det(J::Str(crate::last_panic()))),
        Ok(Err(e)) => ctx.violation(&format!("scr:load-rejected:{}", e), "well-formed SCR file rejected", det(J::Str(e))),
        Ok(Ok(())) => {
            let bad = (0..6912u16).find(|o| m.peek(0x4000 + o) != scr[*o as usize]);
            st.checks += 1;
            if let Some(o) = bad {
                ctx.violation("scr:memory", "screen memory after load_screen differs from the file", det(jobj! {"offset"=>o,"expected"=>scr[o as usize],"observed"=>m.peek(0x4000+o)}));
            }
            if !shadow {
                // the picture must be displayed; interrupts are masked by hook so that whatever handler the
                // prior state had cannot draw over it
                m.cpu().regs.set_iff1(false);
                m.run_frames(3);
                let mut page = vec![0u8; PAGE];
                page[..6912].copy_from_slice(&scr);
                let n = canvas_mismatches(&m.emu.screen_buffer().px, &page);
                st.canvas_px += 256 * 192;
                st.checks += 1;
                if n != 0 {
                    ctx.violation("scr:canvas", &format!("{} canvas pixels differ from the decode of the SCR file", n), det(jobj! {"pixels"=>n}));
                }
            }
        }
    }
}

// ---------------------------------------------------------------------------------------------- twins
const HL_SENSITIVE: [&[u8]; 8] = [&[0x24], &[0x2C], &[0x25], &[0x7C], &[0x65], &[0x23], &[0x29], &[0x26, 0x5A]];

/// Random straight-line program that does not depend on MEMPTR, Q, I/O or bytes below SP.
pub fn safe_program(rng: &mut Rng, n: usize, allow_ei: bool) -> Vec<u8> {
    let mut v = vec![];
    v.extend_from_slice(*rng.pick(&HL_SENSITIVE));
    for _ in 1..n {
        let r8 = |rng: &mut Rng| loop {
            let r = rng.below(8) as u8;
            if r != 6 {
                break r;
            }
        };
        match rng.below(22) {
            0 => v.extend_from_slice(&[0x06 | r8(rng) << 3, rng.u8()]),
            1 | 2 => v.push(0x40 | r8(rng) << 3 | r8(rng)),
            3 | 4 => v.push(0x80 | (rng.below(8) as u8) << 3 | r8(rng)),
            5 => v.extend_from_slice(&[0xC6 | (rng.below(8) as u8) << 3, rng.u8()]),
            6 => v.push(0x04 | r8(rng) << 3 | rng.below(2) as u8),
            7 => v.push(*rng.pick(&[0x03u8, 0x13, 0x23, 0x0B, 0x1B, 0x2B, 0x09, 0x19, 0x29])),
            8 => v.push(*rng.pick(&[0x07u8, 0x0F, 0x17, 0x1F, 0x27, 0x2F])),
            9 => v.push(*rng.pick(&[0x08u8, 0xD9, 0xEB])),
            10 => v.push(0xC5 | (rng.below(4) as u8) << 4),
            11 => {
                // PUSH then POP keeps every read above the written area
                v.push(0xC5 | (rng.below(4) as u8) << 4);
                v.push(0xC1 | (rng.below(4) as u8) << 4);
            }
            12 => v.push(*rng.pick(&[0x0Au8, 0x1A, 0x7E, 0x46, 0x5E])),
            13 => v.extend_from_slice(&[*rng.pick(&[0x2Au8, 0x3A]), rng.u8(), rng.u8()]),
            14 => v.extend_from_slice(&[0xCB, (rng.u8() & 0xF8) | r8(rng)]),
            15 => v.extend_from_slice(&[0xED, *rng.pick(&[0x44u8, 0x5F, 0x57, 0x4A, 0x5A, 0x6A, 0x42, 0x52, 0x62])]),
            16 => v.extend_from_slice(&[*rng.pick(&[0xDDu8, 0xFD]), *rng.pick(&[0x23u8, 0x2B, 0x09, 0x19, 0x24, 0x2C, 0x7C, 0x65])]),
            17 => v.extend_from_slice(&[*rng.pick(&[0xDDu8, 0xFD]), 0x46 | r8(rng) << 3, rng.u8()]),
            18 => v.extend_from_slice(*rng.pick(&HL_SENSITIVE)),
            19 => v.extend_from_slice(&[0x22, rng.u8() & 0xFE, 0xA9 | rng.u8() & 6]), // LD (nn),HL into 0xA9xx..0xAFxx, clear of table and handler
            20 if allow_ei => v.push(*rng.pick(&[0xFBu8, 0xF3])),
            _ => v.push(0x00),
        }
    }
    // guard: an endless loop behind the program
    v.extend_from_slice(&[0x18, 0xFE]);
    v
}

/// Installs a safe program (+ an IM2 environment if interrupts are to be live) into the state and
/// keeps everything the program's stack traffic can reach away from the code: with live interrupts
/// SP sits in a reserved area, otherwise the generated SP is kept unless the (at most 140) bytes
/// below it touch the program. Returns true if interrupts are live.
pub fn install_program(a: &mut Abs, rng: &mut Rng, steps: usize) -> bool {
    let live = rng.bool();
    let prog = safe_program(rng, steps, live);
    let at = 0x8200 + rng.below(0x1000) as u16;
    a.poke_bytes(at, &prog);
    a.r.pc = at;
    if live {
        install_im2(a, rng, &[0xF5, 0x3C, 0xF1, 0xFB, 0xC9]); // PUSH AF; INC A; POP AF; EI; RET
    } else {
        // IM 0/1 would enter the ROM handler, whose code is not under the generator's control
        a.r.iff1 = false;
        a.r.iff2 = false;
        let (lo, hi) = (a.r.sp as i32 - 140, a.r.sp as i32 + 2);
        if lo <= at as i32 + prog.len() as i32 + 2 && hi >= at as i32 - 2 {
            a.r.sp = 0xB800 + rng.below(0x700) as u16;
        }
    }
    live
}

fn run_twin(ctx: &Ctx, id: u64, st: &mut Stats) {
    let mut rng = case_rng(ctx, id, 2);
    let is128 = rng.bool();
    let mut a = Abs::random(&mut rng, is128);
    let live = install_program(&mut a, &mut rng, 200);
    if !is128 {
        // the 48K SNA form keeps PC in the two bytes below SP: make that part of the common state, so
        // that both files describe the same memory even where the stack touches the program
        let (sp, pc) = (a.r.sp, a.r.pc);
        a.poke(sp.wrapping_sub(2), pc as u8);
        a.poke(sp.wrapping_sub(1), (pc >> 8) as u8);
    }
    let kind = Prior::random(&mut rng, is128);
    let opts = SzxOpts::random(&mut rng);
    let sna = write_sna(&a);
    let szx = write_szx(&a, &opts, &mut rng);
    let pseed = rng.next();
    let fl = if is128 { 70908 } else { 69888 };
    let clock0 = if live { fl - 50 - rng.below(1200) as usize } else { rng.below(fl as u64 - 5000) as usize };
    st.cases += 1;
    st.kind(&format!("twin-{}", if is128 { "128k" } else { "48k" }));
    st.kind(&format!("prior-{}", kind.name()));
    st.distinct.insert(a.fingerprint() ^ 0x7717);
    let run = |k: Prior, steps_done: &mut u64| -> Option<(String, J)> {
        let (mut m1, _) = make_prior(&mut Rng::new(pseed), is128, k);
        let (mut m2, _) = make_prior(&mut Rng::new(pseed), is128, k);
        if load(&mut m1, Fmt::Sna, &sna).is_err() || load(&mut m2, Fmt::Szx, &szx).is_err() {
            return Some(("load-failed".into(), J::Null)); // reported by the single-file cases
        }
        m1.set_clock(clock0);
        m2.set_clock(clock0);
        for s in 0..200 {
            m1.step();
            m2.step();
            *steps_done += 1;
            let (r1, r2) = (m1.regs(), m2.regs());
            if reg_items(&r1) != reg_items(&r2) {
                let d: Vec<String> = reg_items(&r1).iter().zip(reg_items(&r2).iter()).filter(|(x, y)| x != y).map(|(x, y)| format!("{}: sna {:04x} szx {:04x}", x.0, x.1, y.1)).collect();
                return Some(("registers".into(), jobj! {"step"=>s,"differences"=>J::Arr(d.iter().map(|x| J::from(x.as_str())).collect()),"sna_side"=>regs_json(&r1),"szx_side"=>regs_json(&r2)}));
            }
        }
        let (c1, c2) = (capture(&mut m1), capture(&mut m2));
        let ex: Vec<(usize, usize)> = if is128 { vec![] } else { [a.r.sp.wrapping_sub(2), a.r.sp.wrapping_sub(1)].iter().filter_map(|ad| a.page_index(*ad).map(|p| (p, *ad as usize & (PAGE - 1)))).collect() };
        for p in 0..c1.pages.len() {
            if let Some(o) = (0..PAGE).find(|o| c1.pages[p][*o] != c2.pages[p][*o] && !ex.contains(&(p, *o))) {
                return Some(("ram".into(), jobj! {"page"=>p,"offset"=>o,"sna_side"=>c1.pages[p][o],"szx_side"=>c2.pages[p][o]}));
            }
        }
        if (c1.latch, c1.locked, c1.border) != (c2.latch, c2.locked, c2.border) {
            return Some(("paging-or-border".into(), jobj! {"sna_side"=>format!("{:02x} {} {}", c1.latch, c1.locked, c1.border),"szx_side"=>format!("{:02x} {} {}", c2.latch, c2.locked, c2.border)}));
        }
        None
    };
    let mut steps = 0;
    if let Some((item, det)) = run(kind, &mut steps) {
        st.twin_steps += steps;
        if item == "load-failed" {
            st.kind("twin-skipped-load-failed");
            return;
        }
        let mut dummy = 0;
        let fresh_also = kind == Prior::Fresh || run(Prior::Fresh, &mut dummy).map(|x| x.0 == item).unwrap_or(false);
        let (mut mp, okp) = make_prior(&mut Rng::new(pseed), is128, kind);
        let po = observe_prior(&mut mp, kind, okp);
        let key = if fresh_also { format!("twin:{}", item) } else { format!("twin:diverged@prior-{}", po.any_label()) };
        ctx.violation(&key, "the same state written as SNA and as SZX gives machines that behave differently", jobj! {"case"=>id,"is128"=>is128,"prior"=>kind.name(),"szx_opts"=>opts.describe(),"state"=>regs_json(&a.r),"latch"=>a.latch,"interrupts_live"=>live,"clock"=>clock0,"divergence"=>det});
    } else {
        st.twin_steps += steps;
        st.checks += 200;
    }
}

/// SZX twins of a *halted* state: the same state written with the CPU chunk first and with the RAM
/// pages first, loaded into a fresh machine and into one whose RAM is full of HALT opcodes, must
/// give machines that behave identically (the statement: chunks in any order, independent of what
/// the machine was doing before). The program holds one or two HALTs in a row, so a loader that
/// consults memory to place PC is exposed under either PC convention.
fn run_halt_twin(ctx: &Ctx, id: u64, st: &mut Stats) {
    let mut rng = case_rng(ctx, id, 5);
    let is128 = rng.bool();
    let mut a = Abs::random(&mut rng, is128);
    a.latch &= !0x20;
    let p = install_obs(&mut a, &mut rng, &Obs::Halt, Fmt::Szx);
    let double = rng.chance(2, 3);
    if double {
        a.poke(p.sled.wrapping_add(1), 0x76);
    }
    let conv = rng.bool();
    let mut o = SzxOpts::plain();
    o.halt_pc_after = conv;
    let f1 = crate::spec_snap::szx_file(&a, &o, &mut rng);
    let mut f2 = f1.clone();
    // RAM pages first, CPU chunk last
    f2.chunks.sort_by_key(|c| if &c.id == b"RAMP" { 0 } else if &c.id == b"Z80R" { 2 } else { 1 });
    let (b1, b2) = (f1.to_bytes(), f2.to_bytes());
    st.cases += 1;
    st.kind("szx-halted-order-twin");
    let fl = if is128 { 70908 } else { 69888 };
    let mk = |dirty: bool| {
        let (mut m, _) = make_prior(&mut Rng::new(id ^ 0x4417), is128, Prior::Fresh);
        if dirty {
            m.poke_bytes(0x4000, &vec![0x76u8; 0xC000]);
        }
        m
    };
    let mut machines = vec![];
    for (name, bytes, dirty) in [("cpu-chunk-first/fresh", &b1, false), ("pages-first/fresh", &b2, false), ("cpu-chunk-first/ram-full-of-76", &b1, true), ("pages-first/ram-full-of-76", &b2, true)] {
        let mut m = mk(dirty);
        if load(&mut m, Fmt::Szx, bytes).is_err() {
            return; // reported by the single-file cases
        }
        m.set_clock(fl - 40);
        machines.push((name, m));
    }
    for step in 0..40 {
        let mut regs = vec![];
        for (_, m) in machines.iter_mut() {
            m.step();
            regs.push(m.regs());
        }
        st.twin_steps += 4;
        for k in 1..regs.len() {
            if reg_items(&regs[0]) != reg_items(&regs[k]) {
                let d: Vec<String> = reg_items(&regs[0]).iter().zip(reg_items(&regs[k]).iter()).filter(|(x, y)| x != y).map(|(x, y)| format!("{}: {:04x} vs {:04x}", x.0, x.1, y.1)).collect();
                ctx.violation(
                    "szx:halted:order-or-prior-dependent",
                    &format!("the same halted state ({} HALT, PC stored {}) behaves differently when loaded as '{}' and as '{}': {}", if double { "double" } else { "single" }, if conv { "after the HALT" } else { "at the HALT" }, machines[0].0, machines[k].0, d.join(", ")),
                    jobj! {"case"=>id,"is128"=>is128,"step"=>step,"halt_at"=>p.sled,"double_halt"=>double,"pc_stored_after_halt"=>conv,"first"=>regs_json(&regs[0]),"other"=>regs_json(&regs[k])},
                );
                return;
            }
        }
    }
    st.checks += 40;
}

// ---------------------------------------------------------------------------------------------- mismatch
fn run_mismatch(ctx: &Ctx, id: u64, st: &mut Stats) {
    let mut rng = case_rng(ctx, id, 3);
    let file128 = rng.bool();
    let fmt = if rng.bool() { Fmt::Sna } else { Fmt::Szx };
    let mut a = Abs::random(&mut rng, file128);
    a.r.sp = 0x8000 + rng.below(0x4000) as u16;
    let opts = SzxOpts::random(&mut rng);
    let bytes = match fmt {
        Fmt::Sna => write_sna(&a),
        Fmt::Szx => write_szx(&a, &opts, &mut rng),
    };
    let kind = if rng.bool() { Prior::Fresh } else if rng.bool() { Prior::Ran } else { Prior::random(&mut rng, !file128) };
    let (mut m, _) = make_prior(&mut rng, !file128, kind);
    let c0 = capture(&mut m);
    let h0 = (m.cpu().halted, m.cpu().skip_interrupt);
    let name = format!("{}:{}-file-on-{}-machine", fmt.name(), if file128 { "128k" } else { "48k" }, if file128 { "48k" } else { "128k" });
    st.cases += 1;
    st.kind(&format!("mismatch-{}", name));
    st.distinct.insert(a.fingerprint() ^ 0x3157);
    st.checks += 1;
    let det = |x: J| jobj! {"case"=>id,"format"=>fmt.name(),"file_is128"=>file128,"prior"=>kind.name(),"szx_opts"=>opts.describe(),"latch"=>a.latch,"observed"=>x,"file"=>file_json(&bytes)};
    match load(&mut m, fmt, &bytes) {
        Err(e) if e.starts_with("rejected:") => {
            // "rejected with an error rather than applied": the receiving machine is as it was –
            // registers, memory, paging and its lock, border, frame position, halted / EI-pending
            let c1 = capture(&mut m);
            let h1 = (m.cpu().halted, m.cpu().skip_interrupt);
            let mut changed: Vec<String> = vec![];
            if reg_items(&c0.r) != reg_items(&c1.r) {
                changed.push("registers".into());
            }
            if c0.pages != c1.pages {
                changed.push("memory".into());
            }
            if (c0.latch, c0.locked) != (c1.latch, c1.locked) {
                changed.push(format!("paging {:02x}/{} -> {:02x}/{}", c0.latch, c0.locked, c1.latch, c1.locked));
            }
            if c0.border != c1.border {
                changed.push("border".into());
            }
            if c0.clock != c1.clock {
                changed.push("frame clock".into());
            }
            if h0 != h1 {
                changed.push(format!("halted/interrupt-hold-off {:?} -> {:?}", h0, h1));
            }
            st.checks += 6;
            if !changed.is_empty() {
                ctx.violation(&format!("mismatch:{}:rejected-but-changed-the-machine", name), &format!("the file was rejected with an error, yet the receiving machine changed: {}", changed.join(", ")), det(J::Str(e)));
            }
        }
        Err(e) => ctx.violation(&format!("mismatch:{}:{}", name, e), "a file for the other model must be rejected with an error, not crash", det(J::Str(crate::last_panic()))),
        Ok(()) => {
            // accepted alternative: the file's 48 KiB visible at 0x4000..0xFFFF
            let exempt: Vec<u16> = if fmt == Fmt::Sna && !file128 { vec![a.r.sp.wrapping_sub(2), a.r.sp.wrapping_sub(1)] } else { vec![] };
            if let Some((ad, e, g)) = cpu_view_mismatch(&m, &a, &exempt) {
                ctx.violation(&format!("mismatch:{}:applied-with-wrong-layout", name), "a file for the other model was accepted but its memory is not what the CPU sees", det(jobj! {"addr"=>ad,"file_says"=>e,"cpu_sees"=>g}));
            }
        }
    }
}

/// "audible AY state ... independent of what the machine was doing before": an SZX whose AY chunk
/// describes a one-shot envelope (tone on, volume register in envelope mode, shape `\___`) must
/// sound right after the load whatever the receiving chip played before – in particular when it has
/// already played the very same registers to the end (the envelope generator must be restarted by
/// the loaded R13 even though the byte is unchanged).
fn run_ay_retrigger(ctx: &Ctx, id: u64, st: &mut Stats) {
    let mut rng = Rng::fork(ctx.seed ^ 0xC14A, id);
    let is128 = id % 2 == 0;
    let mut a = Abs::random(&mut rng, is128);
    a.latch &= !0x20;
    a.r.pc = 0x9000;
    a.r.sp = 0xBF00;
    a.r.iff1 = false;
    a.r.iff2 = false;
    a.poke_bytes(0x9000, &[0x18, 0xFE]);
    // decay of about 0.35 s: 256*EP/f_clk
    let ep: u16 = 2000 + rng.below(1200) as u16;
    let shape = *rng.pick(&[0u8, 1, 2, 3, 9, 4, 15]);
    let mut regs = [0u8; 16];
    regs[0] = 60 + rng.below(120) as u8;
    regs[7] = 0x3E;
    regs[8] = 0x10;
    regs[11] = ep as u8;
    regs[12] = (ep >> 8) as u8;
    regs[13] = shape;
    a.ay = Some(AyState { flags: if is128 { 0 } else { 2 }, cur: rng.below(14) as u8, regs });
    let file = write_szx(&a, &SzxOpts::plain(), &mut rng);
    let mk = || {
        let mut c = Cfg::of(is128);
        c.ay = true;
        c.rate = 44100;
        Machine::new(c)
    };
    // tone energy shortly after a load: mean |x[i+1]-x[i]| over frames 2 and 3 after the load (the
    // frame in which the file's frame clock is applied is skipped; a decay of ~0.35 s is still loud
    // then). Sample-to-sample differences ignore the DC filter's slow baseline movement.
    let measure = |m: &mut Machine| -> f32 {
        m.drain_audio();
        m.run_frames(1);
        m.drain_audio();
        let mut v: Vec<f32> = vec![];
        for _ in 0..2 {
            m.run_frames(1);
            v.extend(m.drain_audio().iter().map(|s| s.0 + s.1));
        }
        if v.len() < 2 {
            return 0.0;
        }
        v.windows(2).map(|w| (w[1] - w[0]).abs()).sum::<f32>() / (v.len() - 1) as f32
    };
    st.cases += 1;
    st.kind("ay-envelope-retrigger");
    // reference: fresh machine
    let mut fresh = mk();
    if !matches!(load_szx(&mut fresh, &file), Ok(Ok(()))) {
        return; // reported by the ordinary cases
    }
    let ref_swing = measure(&mut fresh);
    // attack shapes (4, 15) start silent and rise: their first 40 ms are quiet by definition
    let decays = shape < 4 || shape == 9;
    if decays && ref_swing < 0.002 {
        ctx.violation("szx:ay:envelope-silent-on-fresh-machine", &format!("SZX with a one-shot decaying envelope (shape {}, EP {}) is silent right after the load on a fresh machine (swing {:.4})", shape, ep, ref_swing), jobj! {"case"=>id,"is128"=>is128,"regs"=>hex(&regs)});
        return;
    }
    // prior A: the same file played to the end of its envelope; prior B: another shape held at the top
    for prior in ["same-file-played-out", "other-shape-held"] {
        let mut m = mk();
        if prior == "same-file-played-out" {
            if !matches!(load_szx(&mut m, &file), Ok(Ok(()))) {
                return;
            }
        } else {
            let mut b = a.clone();
            let mut r2 = regs;
            r2[13] = 0x0D;
            b.ay = Some(AyState { flags: if is128 { 0 } else { 2 }, cur: 0, regs: r2 });
            let f2 = write_szx(&b, &SzxOpts::plain(), &mut rng);
            if !matches!(load_szx(&mut m, &f2), Ok(Ok(()))) {
                return;
            }
        }
        // the chip only moves on while its samples are being taken: drain every frame
        for _ in 0..45 {
            m.run_frames(1);
            m.drain_audio();
        }
        if !matches!(load_szx(&mut m, &file), Ok(Ok(()))) {
            return;
        }
        let swing = measure(&mut m);
        st.checks += 1;
        st.audio_samples += 1764;
        let ok = (swing - ref_swing).abs() <= 0.3 * ref_swing.max(0.004);
        if !ok {
            ctx.violation(
                &format!("szx:ay:envelope-not-restarted@prior-{}", prior),
                &format!("the same SZX (envelope shape {}, EP {}) sounds different right after the load depending on what the chip played before: tone energy {:.4} on a fresh machine, {:.4} after '{}'", shape, ep, ref_swing, swing, prior),
                jobj! {"case"=>id,"is128"=>is128,"regs"=>hex(&regs),"fresh_swing"=>ref_swing as f64,"swing"=>swing as f64,"prior"=>prior},
            );
            return;
        }
    }
}

pub fn run(ctx: &Ctx) -> Evidence {
    let n = ctx.scale(6000, 120_000);
    let replay_case = ctx.replay.as_ref().and_then(|r| r.get("details")).and_then(|d| d.get("case")).and_then(|c| c.as_i64());
    let shards = 64usize;
    let per = (n as usize + shards - 1) / shards;
    let res = par_map(ctx.jobs(), shards, |sh| {
        let mut st = Stats::default();
        for i in 0..per {
            let id = (sh * per + i) as u64;
            if let Some(rc) = replay_case {
                if rc as u64 != id {
                    continue;
                }
            }
            if id % 97 == 13 {
                run_ay_retrigger(ctx, id, &mut st);
            }
            if id % 41 == 7 {
                run_halt_twin(ctx, id, &mut st);
            }
            match id % 20 {
                0 => run_scr(ctx, id, &mut st),
                1..=3 => run_twin(ctx, id, &mut st),
                4 | 5 => run_mismatch(ctx, id, &mut st),
                _ => run_single(ctx, id, &mut st),
            }
        }
        st
    });
    let mut ev = Evidence::new("files written by independent SNA/SZX/SCR writers from generated abstract states, loaded into emulators in hostile prior states; every register, IFF, IM, border, latch+lock, every RAM byte (hook and CPU view), ROM selection compared; one behavioural observation per case (interrupt acceptance / EI-pending / HALTED under both PC conventions / canvas / AY read-back + audible state / mouse presence); SNA-vs-SZX twins single-stepped 200 instructions; halted SZX states (single/double HALT, both PC conventions) loaded chunk-order x prior-RAM four ways and stepped in lockstep across an interrupt; model-mismatch files must give Err or a correct layout. distinct = distinct (state, prior, observation) fingerprints");
    let mut all = Stats::default();
    for r in res {
        all.cases += r.cases;
        all.checks += r.checks;
        all.ram_bytes += r.ram_bytes;
        all.canvas_px += r.canvas_px;
        all.audio_samples += r.audio_samples;
        all.twin_steps += r.twin_steps;
        all.prior_established += r.prior_established;
        all.prior_failed += r.prior_failed;
        for (k, v) in r.by_kind {
            *all.by_kind.entry(k).or_insert(0) += v;
        }
        all.distinct.extend(r.distinct);
        for s in r.samples {
            ev.sample(s);
        }
    }
    ev.evaluations = all.checks;
    ev.distinct_nontrivial = all.distinct.len() as u64;
    ev.add_num("files_loaded", all.cases);
    ev.add_num("ram_bytes_compared", all.ram_bytes);
    ev.add_num("canvas_pixels_compared", all.canvas_px);
    ev.add_num("audio_samples_analysed", all.audio_samples);
    ev.add_num("twin_steps_compared", all.twin_steps);
    ev.add_num("prior_hidden_state_established", all.prior_established);
    ev.add_num("prior_hidden_state_not_established", all.prior_failed);
    ev.add("cases_by_kind", J::Obj(all.by_kind.iter().map(|(k, v)| (k.clone(), J::Int(*v as i64))).collect()));
    if replay_case.is_none() {
        let g = |k: &str| all.by_kind.iter().filter(|(n, _)| n.starts_with(k)).map(|(_, v)| *v).sum::<u64>();
        ctx.require("files loaded", all.cases, n * 9 / 10);
        for k in ["sna-48k", "sna-128k", "szx-48k", "szx-128k", "scr-", "twin-", "mismatch-", "prior-halted", "prior-mid-prefix", "prior-locked", "prior-fresh"] {
            ctx.require(&format!("cases of kind {}*", k), g(k), 10);
        }
        for k in ["szx-48k-halt", "szx-128k-halt", "szx-128k-ay", "szx-48k-ay", "szx-48k-mouse", "sna-48k-int", "sna-128k-int", "szx-128k-canvas", "sna-128k-canvas"] {
            ctx.require(&format!("cases of kind {}", k), g(k), 3);
        }
        ctx.require("RAM bytes compared", all.ram_bytes, 10_000_000);
        ctx.require("hidden prior state established", all.prior_established, all.cases / 3);
    }
    ev.assumptions.push("SNA/SZX/SCR layouts typed from the format specifications (SZX 1.4/1.5 by Spectaculator, SNA 48K/128K as documented in the World of Spectrum FAQ)".into());
    ev.assumptions.push("SNA: IFF1 := IFF2; AY read-back judged under data-sheet masks; FLASH phase free; KEYB joystick type, MEMPTR/Q not judged; SZX dwCyclesStart is judged (machine position right after the load)".into());
    ev.assumptions.push("AY tone frequency f = 1773400/(16·P); amplitude judged relative to the same registers written through the ports of a fresh machine".into());
    ev
}
