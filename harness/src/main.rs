//! vcheck: runtime monitors for the rustzx properties C01..C20.
#[macro_use]
pub mod json;
pub mod host;
pub mod report;
pub mod rng;

pub mod refqual;
pub mod spec_tape;
pub mod refz80;
pub mod z80diff;
pub mod z80work;

mod c01;
mod c02;
mod c03;
pub mod c04;
mod c05;
mod c06;
mod c07;
mod c08;
mod c09;
mod c10;
mod c11;
mod c12;
mod c13;
mod c14;
mod c15;
mod c16;
mod c17;
mod c18;
mod c19;
mod c20;
mod spec_lh5;
mod spec_sig;
pub mod spec_snap;

use report::{Ctx, Evidence, Tier};
use std::cell::RefCell;

thread_local! {
    pub static LAST_PANIC: RefCell<String> = RefCell::new(String::new());
}

fn install_panic_hook() {
    let verbose = std::env::var("VERIF_VERBOSE").is_ok();
    std::panic::set_hook(Box::new(move |info| {
        let loc = info.location().map(|l| format!("{}:{}", l.file(), l.line())).unwrap_or_default();
        let msg = if let Some(s) = info.payload().downcast_ref::<&str>() {
            s.to_string()
        } else if let Some(s) = info.payload().downcast_ref::<String>() {
            s.clone()
        } else {
            "panic".to_string()
        };
        if verbose {
            eprintln!("[panic] {} @ {}", msg, loc);
        }
        LAST_PANIC.with(|p| *p.borrow_mut() = format!("{} @ {}", msg, loc));
    }));
}

pub fn last_panic() -> String {
    LAST_PANIC.with(|p| p.borrow().clone())
}

type CheckFn = fn(&Ctx) -> Evidence;

fn checks() -> Vec<(&'static str, CheckFn)> {
    vec![
        ("C01", c01::run as CheckFn),
        ("C02", c02::run as CheckFn),
        ("C03", c03::run as CheckFn),
        ("C04", c04::run as CheckFn),
        ("C05", c05::run as CheckFn),
        ("C06", c06::run as CheckFn),
        ("C07", c07::run as CheckFn),
        ("C08", c08::run as CheckFn),
        ("C09", c09::run as CheckFn),
        ("C10", c10::run as CheckFn),
        ("C11", c11::run as CheckFn),
        ("C12", c12::run as CheckFn),
        ("C13", c13::run as CheckFn),
        ("C14", c14::run as CheckFn),
        ("C15", c15::run as CheckFn),
        ("C16", c16::run as CheckFn),
        ("C17", c17::run as CheckFn),
        ("C18", c18::run as CheckFn),
        ("C19", c19::run as CheckFn),
        ("C20", c20::run as CheckFn),
        ("REFQUAL", refqual::run as CheckFn),
    ]
}

fn main() {
    let args: Vec<String> = std::env::args().collect();
    if args.len() < 2 {
        eprintln!("usage: vcheck <Cxx> [quick|thorough] [--replay file]");
        std::process::exit(2);
    }
    let id = args[1].to_uppercase();
    let mut tier = match std::env::var("VERIF_TIER").ok().as_deref() {
        Some("thorough") => Tier::Thorough,
        _ => Tier::Quick,
    };
    let mut replay = None;
    let mut i = 2;
    while i < args.len() {
        match args[i].as_str() {
            "quick" => tier = Tier::Quick,
            "thorough" => tier = Tier::Thorough,
            "--replay" => {
                i += 1;
                let t = std::fs::read_to_string(&args[i]).expect("replay file");
                replay = Some(json::J::parse(&t).expect("replay json"));
            }
            _ => {}
        }
        i += 1;
    }
    let mut seed: u64 = std::env::var("VERIF_SEED").ok().and_then(|s| s.trim().parse::<i64>().ok()).map(|x| x as u64).unwrap_or(1);
    if let Some(r) = &replay {
        if let Some(s) = r.get("seed").and_then(|x| x.as_i64()) {
            seed = s as u64;
        }
        if let Some(t) = r.get("tier").and_then(|x| x.as_str()) {
            tier = if t == "thorough" { Tier::Thorough } else { Tier::Quick };
        }
    }
    install_panic_hook();
    if id == "C15" && args.iter().any(|a| a == "--worker") {
        c15::worker_main(&args);
        return;
    }
    let Some((_, f)) = checks().into_iter().find(|(n, _)| *n == id) else {
        eprintln!("unknown check {}", id);
        std::process::exit(2);
    };
    let ctx = Ctx::new(&id, tier, seed, replay);
    let ev = match host::catch(|| f(&ctx)) {
        Ok(ev) => ev,
        Err(msg) => {
            // a panic escaping a monitor: the code under test (or the harness) blew up outside a
            // guarded case; reported as a violation with the panic site as key
            let lp = last_panic();
            ctx.violation(&format!("panic-escaped:{}", lp), &format!("panic escaped the monitor: {}", msg), json::J::Str(lp.clone()));
            let mut ev = Evidence::new("monitor aborted by panic");
            ev.evaluations = 1;
            ev.distinct_nontrivial = 0;
            ev
        }
    };
    let code = ctx.finish(ev);
    std::process::exit(code);
}
