//! SplitMix64 / xoshiro256** PRNG (no external crates).
#[derive(Clone, Debug)]
pub struct Rng {
    s: [u64; 4],
}

pub fn splitmix(x: &mut u64) -> u64 {
    *x = x.wrapping_add(0x9E3779B97F4A7C15);
    let mut z = *x;
    z = (z ^ (z >> 30)).wrapping_mul(0xBF58476D1CE4E5B9);
    z = (z ^ (z >> 27)).wrapping_mul(0x94D049BB133111EB);
    z ^ (z >> 31)
}

/// stateless hash of two words (used for per-address memory backgrounds)
#[inline]
pub fn mix2(a: u64, b: u64) -> u64 {
    let mut x = a ^ b.wrapping_mul(0x9E3779B97F4A7C15);
    x = (x ^ (x >> 30)).wrapping_mul(0xBF58476D1CE4E5B9);
    x = (x ^ (x >> 27)).wrapping_mul(0x94D049BB133111EB);
    x ^ (x >> 31)
}

impl Rng {
    pub fn new(seed: u64) -> Self {
        let mut x = seed;
        let s = [splitmix(&mut x), splitmix(&mut x), splitmix(&mut x), splitmix(&mut x)];
        Rng { s }
    }
    /// derive an independent stream
    pub fn fork(seed: u64, stream: u64) -> Self {
        Rng::new(mix2(seed, stream.wrapping_add(0x1234_5678_9ABC_DEF1)))
    }
    #[inline]
    pub fn next(&mut self) -> u64 {
        let r = self.s[1].wrapping_mul(5).rotate_left(7).wrapping_mul(9);
        let t = self.s[1] << 17;
        self.s[2] ^= self.s[0];
        self.s[3] ^= self.s[1];
        self.s[1] ^= self.s[2];
        self.s[0] ^= self.s[3];
        self.s[2] ^= t;
        self.s[3] = self.s[3].rotate_left(45);
        r
    }
    #[inline]
    pub fn u8(&mut self) -> u8 {
        (self.next() >> 56) as u8
    }
    #[inline]
    pub fn u16(&mut self) -> u16 {
        (self.next() >> 48) as u16
    }
    #[inline]
    pub fn u32(&mut self) -> u32 {
        (self.next() >> 32) as u32
    }
    #[inline]
    pub fn bool(&mut self) -> bool {
        self.next() >> 63 != 0
    }
    /// uniform in 0..n (n>0)
    #[inline]
    pub fn below(&mut self, n: u64) -> u64 {
        ((self.next() >> 11) as u128 * n as u128 >> 53) as u64
    }
    #[inline]
    pub fn range(&mut self, lo: i64, hi_incl: i64) -> i64 {
        lo + self.below((hi_incl - lo + 1) as u64) as i64
    }
    #[inline]
    pub fn chance(&mut self, num: u64, den: u64) -> bool {
        self.below(den) < num
    }
    pub fn f64(&mut self) -> f64 {
        (self.next() >> 11) as f64 / (1u64 << 53) as f64
    }
    pub fn pick<'a, T>(&mut self, v: &'a [T]) -> &'a T {
        &v[self.below(v.len() as u64) as usize]
    }
    pub fn fill(&mut self, buf: &mut [u8]) {
        for c in buf.chunks_mut(8) {
            let v = self.next().to_le_bytes();
            c.copy_from_slice(&v[..c.len()]);
        }
    }
    pub fn bytes(&mut self, n: usize) -> Vec<u8> {
        let mut v = vec![0u8; n];
        self.fill(&mut v);
        v
    }
    /// "interesting" byte
    pub fn ibyte(&mut self) -> u8 {
        match self.below(8) {
            0 => *self.pick(&[0u8, 1, 0x7F, 0x80, 0xFF, 0x0F, 0x10, 0xFE]),
            1 => *self.pick(&[0x09u8, 0x0A, 0x99, 0x9A, 0xA0, 0x66, 0x60, 0x06]),
            _ => self.u8(),
        }
    }
    /// "interesting" word
    pub fn iword(&mut self) -> u16 {
        match self.below(8) {
            0 => *self.pick(&[0u16, 1, 0xFFFF, 0xFFFE, 0x7FFF, 0x8000, 0x00FF, 0x0100, 0x0FFF, 0x1000, 0x3FFF, 0x4000, 0xBFFF, 0xC000]),
            1 => (self.ibyte() as u16) << 8 | self.ibyte() as u16,
            _ => self.u16(),
        }
    }
    pub fn shuffle<T>(&mut self, v: &mut [T]) {
        for i in (1..v.len()).rev() {
            let j = self.below(i as u64 + 1) as usize;
            v.swap(i, j);
        }
    }
}

pub fn fnv1a(h: &mut u64, data: &[u8]) {
    for &b in data {
        *h ^= b as u64;
        *h = h.wrapping_mul(0x100000001b3);
    }
}
pub const FNV_INIT: u64 = 0xcbf29ce484222325;
