//! Qualification of the reference model `refz80` (the trusted base of C01–C05) on the
//! hardware-derived suites shipped in the repository: ZEXALL (CRCs from a real Z80) and Patrik
//! Rak's z80test 1.2 tapes z80full / z80memptr / z80ccf (CRCs from real NMOS Zilog chips,
//! covering undocumented flags, MEMPTR and Q). The reference runs in a flat 64 KiB trap machine.
use crate::refz80::{Ref, RefBus, RZ};
use crate::report::{par_map, repo_root, Ctx, Evidence};
use std::io::Read;

struct Flat {
    m: Vec<u8>,
    rom_protect: bool,
}
impl RefBus for Flat {
    fn rd(&mut self, a: u16) -> u8 {
        self.m[a as usize]
    }
    fn wr(&mut self, a: u16, v: u8) {
        if !(self.rom_protect && a < 0x4000) {
            self.m[a as usize] = v;
        }
    }
    fn inp(&mut self, p: u16) -> u8 {
        // idle Spectrum: no key pressed, EAR low on the ULA port, nothing elsewhere
        if p & 1 == 0 { 0xBF } else { 0xFF }
    }
    fn outp(&mut self, _p: u16, _v: u8) {}
    fn int_line(&self) -> bool {
        false
    }
    fn nmi_line(&self) -> bool {
        false
    }
}

/// runs one ZEXALL group on the reference; returns (passed, output, instructions)
fn zexall_group(image: &[u8], id: u16) -> (bool, String, u64) {
    let mut bus = Flat { m: vec![0; 65536], rom_protect: false };
    bus.m[0x100..0x100 + image.len()].copy_from_slice(image);
    bus.m[0x1DDA] = b'$';
    bus.m[0x1DF6] = b'$';
    bus.m[5] = 0xC9;
    bus.m[6] = 0x00;
    bus.m[7] = 0xC0;
    let tp = 0x013A + id as usize * 2;
    let (l, h) = (bus.m[tp], bus.m[tp + 1]);
    bus.m[0x013A] = l;
    bus.m[0x013B] = h;
    bus.m[0x013C] = 0;
    bus.m[0x013D] = 0;
    let mut s = RZ::default();
    s.pc = 0x100;
    let mut out = String::new();
    let mut n = 0u64;
    let mut cpu = Ref::new(s, &mut bus);
    loop {
        let pc = cpu.s.pc;
        if pc == 0 && n > 0 {
            break;
        }
        if pc == 5 {
            match cpu.s.bc as u8 {
                2 => out.push((cpu.s.de as u8) as char),
                9 => {
                    let mut a = cpu.s.de;
                    for _ in 0..100 {
                        let c = cpu.bus.m[a as usize];
                        if c == b'$' {
                            break;
                        }
                        out.push(c as char);
                        a = a.wrapping_add(1);
                    }
                }
                _ => {}
            }
        }
        cpu.step();
        n += 1;
        if n > 40_000_000_000 {
            return (false, format!("{} [instruction budget exhausted]", out), n);
        }
    }
    (out.ends_with("  OK\n\r"), out, n)
}

fn gunzip(path: &std::path::Path) -> Option<Vec<u8>> {
    let f = std::fs::File::open(path).ok()?;
    let mut d = flate2::read::GzDecoder::new(f);
    let mut v = vec![];
    d.read_to_end(&mut v).ok()?;
    Some(v)
}

/// runs a z80test tape on the reference; returns (passed, output tail, instructions)
fn z80test_tape(tap: &[u8], rom: &[u8]) -> (bool, String, u64) {
    // find the CODE block: header type 3 followed by its data block
    let mut p = 0usize;
    let mut load: Option<(u16, Vec<u8>)> = None;
    let mut pending: Option<u16> = None;
    while p + 2 <= tap.len() {
        let n = tap[p] as usize | (tap[p + 1] as usize) << 8;
        let b = &tap[p + 2..p + 2 + n];
        if b[0] == 0 && n == 19 && b[1] == 3 {
            pending = Some(b[14] as u16 | (b[15] as u16) << 8);
        } else if b[0] == 0xFF {
            if let Some(a) = pending.take() {
                load = Some((a, b[1..n - 1].to_vec()));
            }
        }
        p += 2 + n;
    }
    let Some((addr, code)) = load else { return (false, "no CODE block".into(), 0) };
    let mut bus = Flat { m: vec![0; 65536], rom_protect: true };
    bus.m[..rom.len().min(0x4000)].copy_from_slice(&rom[..rom.len().min(0x4000)]);
    bus.m[addr as usize..addr as usize + code.len()].copy_from_slice(&code);
    let mut s = RZ::default();
    s.pc = addr;
    s.sp = 0x7FE8;
    s.iy = 0x5C3A;
    s.im = 1;
    s.iff1 = true;
    s.iff2 = true;
    // return address 0x0000 is the end sentinel
    bus.m[0x7FE8] = 0;
    bus.m[0x7FE9] = 0;
    let mut out = String::new();
    let mut n = 0u64;
    let mut cpu = Ref::new(s, &mut bus);
    loop {
        let pc = cpu.s.pc;
        if pc == 0 {
            break;
        }
        if pc == 0x0010 {
            // RST 10h: print A; emulate RET
            let c = (cpu.s.af >> 8) as u8;
            out.push(if c == 13 { '\n' } else if (32..127).contains(&c) { c as char } else { '?' });
            let sp = cpu.s.sp;
            cpu.s.pc = cpu.bus.m[sp as usize] as u16 | (cpu.bus.m[sp.wrapping_add(1) as usize] as u16) << 8;
            cpu.s.sp = sp.wrapping_add(2);
            continue;
        }
        if pc == 0x1601 || pc == 0x0DAF {
            let sp = cpu.s.sp;
            cpu.s.pc = cpu.bus.m[sp as usize] as u16 | (cpu.bus.m[sp.wrapping_add(1) as usize] as u16) << 8;
            cpu.s.sp = sp.wrapping_add(2);
            continue;
        }
        if pc < 0x4000 {
            return (false, format!("{} [unexpected ROM entry {:04x}]", tail(&out), pc), n);
        }
        cpu.step();
        n += 1;
        if n > 20_000_000_000 {
            return (false, format!("{} [instruction budget exhausted]", tail(&out)), n);
        }
    }
    (out.contains("all tests passed"), tail(&out), n)
}

fn tail(s: &str) -> String {
    let v: Vec<&str> = s.lines().collect();
    v[v.len().saturating_sub(6)..].join(" | ")
}

pub struct QualResult {
    pub passed: bool,
    pub lines: Vec<String>,
    pub instructions: u64,
}

pub fn qualify(jobs: usize, with_zexall: bool) -> QualResult {
    let repo = repo_root();
    let mut lines = vec![];
    let mut passed = true;
    let mut instr = 0u64;
    let rom = std::fs::read(repo.join("rustzx-core/src/zx/roms/48.rom")).unwrap_or_default();
    let tapes = ["z80full", "z80memptr", "z80ccf"];
    let res = par_map(jobs, tapes.len(), |i| {
        let p = repo.join(format!("rustzx-test/test_data/{}.tap.gz", tapes[i]));
        match gunzip(&p) {
            Some(t) => z80test_tape(&t, &rom),
            None => (false, format!("cannot read {}", p.display()), 0),
        }
    });
    for (i, (ok, out, n)) in res.into_iter().enumerate() {
        passed &= ok;
        instr += n;
        lines.push(format!("{}: {} ({} instructions) {}", tapes[i], if ok { "PASS" } else { "FAIL" }, n, out));
    }
    if with_zexall {
        match std::fs::read(repo.join("rustzx-z80/tests/integration/assets/zexall.com")) {
            Ok(img) => {
                let res = par_map(jobs, 67, |i| zexall_group(&img, i as u16));
                let mut ok_n = 0;
                for (i, (ok, out, n)) in res.into_iter().enumerate() {
                    instr += n;
                    if ok {
                        ok_n += 1;
                    } else {
                        passed = false;
                        lines.push(format!("zexall group {}: FAIL {}", i, out.trim()));
                    }
                }
                lines.push(format!("zexall: {}/67 groups PASS", ok_n));
            }
            Err(e) => {
                passed = false;
                lines.push(format!("zexall.com unreadable: {}", e));
            }
        }
    }
    let (n, errs) = timing_table_check();
    if errs.is_empty() {
        lines.push(format!("documented T-state table: {} (page, opcode, taken) variants agree with the reference cycle lists", n));
    } else {
        passed = false;
        for e in errs {
            lines.push(format!("T-state table: {}", e));
        }
    }
    QualResult { passed, lines, instructions: instr }
}

/// `vcheck REFQUAL`: stand-alone run of the qualification
pub fn run(ctx: &Ctx) -> Evidence {
    let q = qualify(ctx.jobs(), !ctx.quick());
    for l in q.lines.iter() {
        println!("{}", l);
    }
    if !q.passed {
        ctx.inconclusive("reference model failed its qualification suites");
    }
    let mut ev = Evidence::new("reference model executed on z80full/z80memptr/z80ccf (+ all 67 ZEXALL groups in thorough)");
    ev.evaluations = q.instructions;
    ev.distinct_nontrivial = q.lines.len() as u64;
    for l in q.lines {
        ev.sample(crate::json::J::Str(l));
    }
    ev
}

// ------------------------------------------------------------------------------------------
// Independently typed table of documented total T-states (Zilog manual), checked against the
// cycle lists the reference model produces.

#[rustfmt::skip]
const MAIN_T: [u8; 256] = [
//  0   1   2   3   4   5   6   7   8   9   A   B   C   D   E   F
    4, 10,  7,  6,  4,  4,  7,  4,  4, 11,  7,  6,  4,  4,  7,  4, // 0
    8, 10,  7,  6,  4,  4,  7,  4, 12, 11,  7,  6,  4,  4,  7,  4, // 1
    7, 10, 16,  6,  4,  4,  7,  4,  7, 11, 16,  6,  4,  4,  7,  4, // 2
    7, 10, 13,  6, 11, 11, 10,  4,  7, 11, 13,  6,  4,  4,  7,  4, // 3
    4,  4,  4,  4,  4,  4,  7,  4,  4,  4,  4,  4,  4,  4,  7,  4, // 4
    4,  4,  4,  4,  4,  4,  7,  4,  4,  4,  4,  4,  4,  4,  7,  4, // 5
    4,  4,  4,  4,  4,  4,  7,  4,  4,  4,  4,  4,  4,  4,  7,  4, // 6
    7,  7,  7,  7,  7,  7,  4,  7,  4,  4,  4,  4,  4,  4,  7,  4, // 7
    4,  4,  4,  4,  4,  4,  7,  4,  4,  4,  4,  4,  4,  4,  7,  4, // 8
    4,  4,  4,  4,  4,  4,  7,  4,  4,  4,  4,  4,  4,  4,  7,  4, // 9
    4,  4,  4,  4,  4,  4,  7,  4,  4,  4,  4,  4,  4,  4,  7,  4, // A
    4,  4,  4,  4,  4,  4,  7,  4,  4,  4,  4,  4,  4,  4,  7,  4, // B
    5, 10, 10, 10, 10, 11,  7, 11,  5, 10, 10,  0, 10, 17,  7, 11, // C
    5, 10, 10, 11, 10, 11,  7, 11,  5,  4, 10, 11, 10,  0,  7, 11, // D
    5, 10, 10, 19, 10, 11,  7, 11,  5,  4, 10,  4, 10,  0,  7, 11, // E
    5, 10, 10,  4, 10, 11,  7, 11,  5,  6, 10,  4, 10,  0,  7, 11, // F
];

/// extra T-states when a conditional main-page instruction is taken
fn main_taken_extra(op: u8) -> u8 {
    match op {
        0x10 | 0x20 | 0x28 | 0x30 | 0x38 => 5,
        0xC0 | 0xC8 | 0xD0 | 0xD8 | 0xE0 | 0xE8 | 0xF0 | 0xF8 => 6,
        0xC4 | 0xCC | 0xD4 | 0xDC | 0xE4 | 0xEC | 0xF4 | 0xFC => 7,
        _ => 0,
    }
}

fn ed_t(op: u8) -> u8 {
    match op {
        0x40..=0x7F => match op & 7 {
            0 | 1 => 12,
            2 => 15,
            3 => 20,
            4 => 8,
            5 => 14,
            6 => 8,
            _ => match op {
                0x47 | 0x4F | 0x57 | 0x5F => 9,
                0x67 | 0x6F => 18,
                _ => 8,
            },
        },
        0xA0..=0xA3 | 0xA8..=0xAB | 0xB0..=0xB3 | 0xB8..=0xBB => 16,
        _ => 8,
    }
}

fn uses_hl_memory(op: u8) -> bool {
    matches!(op, 0x34 | 0x35 | 0x36) || (op != 0x76 && (0x40..=0xBF).contains(&op) && (op & 7 == 6 || ((0x70..=0x77).contains(&op))))
}

/// documented T-states of one step of the given page/opcode (excluding interrupt entry)
pub fn documented_t(page: u8, op: u8, taken: bool) -> u32 {
    match page {
        0 => MAIN_T[op as usize] as u32 + if taken { main_taken_extra(op) as u32 } else { 0 },
        1 => if op & 7 != 6 { 8 } else if (0x40..=0x7F).contains(&op) { 12 } else { 15 },
        2 => ed_t(op) as u32 + if taken { 5 } else { 0 },
        3 | 4 => {
            let base = MAIN_T[op as usize] as u32 + if taken { main_taken_extra(op) as u32 } else { 0 };
            if uses_hl_memory(op) {
                // DD/FD prefix (4) + displacement fetch and address arithmetic (8); LD (IX+d),n
                // overlaps the arithmetic with the operand fetch (19 in total)
                if op == 0x36 { 19 } else { base + 12 }
            } else {
                base + 4
            }
        }
        _ => if (0x40..=0x7F).contains(&op) { 20 } else { 23 },
    }
}

struct TBus {
    seed: u64,
}
impl RefBus for TBus {
    fn rd(&mut self, a: u16) -> u8 {
        crate::rng::mix2(self.seed, a as u64) as u8
    }
    fn wr(&mut self, _a: u16, _v: u8) {}
    fn inp(&mut self, p: u16) -> u8 {
        crate::rng::mix2(self.seed ^ 9, p as u64) as u8
    }
    fn outp(&mut self, _p: u16, _v: u8) {}
    fn int_line(&self) -> bool {
        false
    }
    fn nmi_line(&self) -> bool {
        false
    }
}

/// Runs the reference on every encoding from random states (memory = pure function of address,
/// the opcode bytes themselves are found by searching a seed whose memory happens to hold them)
/// and compares total T-states with the documented table. Returns (checked variants, errors).
pub fn timing_table_check() -> (u64, Vec<String>) {
    use crate::rng::Rng;
    struct PBus {
        code: Vec<u8>,
        base: u16,
        seed: u64,
    }
    impl RefBus for PBus {
        fn rd(&mut self, a: u16) -> u8 {
            let o = a.wrapping_sub(self.base) as usize;
            if o < self.code.len() { self.code[o] } else { crate::rng::mix2(self.seed, a as u64) as u8 }
        }
        fn wr(&mut self, _a: u16, _v: u8) {}
        fn inp(&mut self, p: u16) -> u8 {
            crate::rng::mix2(self.seed ^ 9, p as u64) as u8
        }
        fn outp(&mut self, _p: u16, _v: u8) {}
        fn int_line(&self) -> bool {
            false
        }
        fn nmi_line(&self) -> bool {
            false
        }
    }
    let _ = TBus { seed: 0 };
    let mut errs = vec![];
    let mut seen = std::collections::HashSet::new();
    let mut rng = Rng::new(0x71AE);
    for page in 0..7u8 {
        for op in 0..=255u8 {
            if !crate::z80diff::is_instruction(page, op) {
                continue;
            }
            for k in 0..64 {
                let code = crate::z80diff::encode(page, op, &mut rng);
                let mut s = crate::z80diff::random_state(&mut rng);
                s.q = 0;
                s.pc = 0x8000 + k;
                let mut bus = PBus { code, base: s.pc, seed: rng.next() };
                let mut cpu = Ref::new(s, &mut bus);
                cpu.step();
                let t = crate::refz80::total_t(&cpu.cy);
                let want = documented_t(page, op, cpu.info.taken);
                seen.insert((page, op, cpu.info.taken));
                if t != want && errs.len() < 20 {
                    errs.push(format!("page {} op {:02x} taken={}: reference cycle list sums to {} T, documented {}", page, op, cpu.info.taken, t, want));
                }
            }
        }
    }
    (seen.len() as u64, errs)
}
