//! C17 – input ports reflect exactly the controls held, for every event history.
//! Shape: history + executable model (held-controls model written from the statement).
use crate::host::{Cfg, Machine};
use crate::json::J;
use crate::report::{par_map, Ctx, Evidence};
use crate::rng::Rng;
use rustzx_core::zx::joy::kempston::KempstonKey;
use rustzx_core::zx::joy::sinclair::{SinclairJoyNum, SinclairKey};
use rustzx_core::zx::keys::{CompoundKey, ZXKey};
use rustzx_core::zx::mouse::kempston::{KempstonMouseButton, KempstonMouseWheelDirection};
use rustzx_core::IterableEnum;
use std::collections::HashSet;

/// Spectrum keyboard matrix written from the hardware documentation: row index = address line
/// A8+row, bit index = data line.
pub const MATRIX: [[&str; 5]; 8] = [
    ["Shift", "Z", "X", "C", "V"],
    ["A", "S", "D", "F", "G"],
    ["Q", "W", "E", "R", "T"],
    ["N1", "N2", "N3", "N4", "N5"],
    ["N0", "N9", "N8", "N7", "N6"],
    ["P", "O", "I", "U", "Y"],
    ["Enter", "L", "K", "J", "H"],
    ["Space", "SymShift", "M", "N", "B"],
];

pub fn pos_of(name: &str) -> (usize, usize) {
    for (r, row) in MATRIX.iter().enumerate() {
        for (b, k) in row.iter().enumerate() {
            if *k == name {
                return (r, b);
            }
        }
    }
    panic!("key {} not in matrix", name);
}

fn compound_primary(c: &str) -> &'static str {
    match c {
        "ArrowLeft" => "N5",
        "ArrowRight" => "N8",
        "ArrowUp" => "N7",
        "ArrowDown" => "N6",
        "CapsLock" => "N2",
        "Delete" => "N0",
        "Break" => "Space",
        _ => panic!("unknown compound key {}", c),
    }
}

/// Sinclair mapping from the statement: joy 1 = 6,7,8,9,0 and joy 2 = 1,2,3,4,5 for
/// left,right,down,up,fire.
fn sinclair_key(joy: usize, ctl: &str) -> &'static str {
    let t: [&str; 5] = if joy == 0 { ["N6", "N7", "N8", "N9", "N0"] } else { ["N1", "N2", "N3", "N4", "N5"] };
    match ctl {
        "Left" => t[0],
        "Right" => t[1],
        "Down" => t[2],
        "Up" => t[3],
        "Fire" => t[4],
        _ => panic!("unknown sinclair control"),
    }
}

fn kempston_bit(name: &str, k: KempstonKey) -> u8 {
    match name {
        "Right" => 0x01,
        "Left" => 0x02,
        "Down" => 0x04,
        "Up" => 0x08,
        "Fire" => 0x10,
        _ => k as u8, // undocumented extra buttons: whatever bit the API assigns, must be 0x20/40/80
    }
}

#[derive(Clone, Debug)]
enum Ev {
    Key(usize, bool),
    Compound(usize, bool),
    Sinclair(usize, usize, bool),
    Kemp(usize, bool),
    MouseBtn(usize, bool),
    Wheel(bool),
    Move(i8, i8),
}

struct Tables {
    keys: Vec<(ZXKey, String, (usize, usize))>,
    compounds: Vec<(CompoundKey, String)>,
    sjoys: Vec<SinclairJoyNum>,
    sctl: Vec<(SinclairKey, String)>,
    kemp: Vec<(KempstonKey, String)>,
    mbtn: Vec<(KempstonMouseButton, String)>,
}

fn kemp_name(k: KempstonKey) -> &'static str {
    match k {
        KempstonKey::Right => "Right",
        KempstonKey::Left => "Left",
        KempstonKey::Down => "Down",
        KempstonKey::Up => "Up",
        KempstonKey::Fire => "Fire",
        KempstonKey::Ext1 => "Ext1",
        KempstonKey::Ext2 => "Ext2",
        KempstonKey::Ext3 => "Ext3",
    }
}

fn tables() -> Tables {
    Tables {
        keys: ZXKey::iter().map(|k| { let n = format!("{:?}", k); let p = pos_of(&n); (k, n, p) }).collect(),
        compounds: CompoundKey::iter().map(|k| (k, format!("{:?}", k))).collect(),
        sjoys: SinclairJoyNum::iter().collect(),
        sctl: SinclairKey::iter().map(|k| (k, format!("{:?}", k))).collect(),
        kemp: KempstonKey::iter().map(|k| (k, kemp_name(k).to_string())).collect(),
        mbtn: KempstonMouseButton::iter().map(|k| (k, format!("{:?}", k))).collect(),
    }
}

#[derive(Default, Clone)]
struct Model {
    keys: Vec<bool>,
    compounds: Vec<bool>,
    sinclair: [[bool; 5]; 2],
    /// rustzx-variant of the Sinclair source (array semantics, joy2 down -> N2), only used to
    /// recognise the known finding precisely
    variant_sin: [[bool; 5]; 8],
    kemp: u8,
}

impl Model {
    fn matrix(&self, t: &Tables, variant: bool) -> [[bool; 5]; 8] {
        let mut m = [[false; 5]; 8];
        for (i, h) in self.keys.iter().enumerate() {
            if *h {
                let (r, b) = t.keys[i].2;
                m[r][b] = true;
            }
        }
        let mut any = false;
        for (i, h) in self.compounds.iter().enumerate() {
            if *h {
                any = true;
                let (r, b) = pos_of(compound_primary(&t.compounds[i].1));
                m[r][b] = true;
            }
        }
        if any {
            let (r, b) = pos_of("Shift");
            m[r][b] = true;
        }
        if variant {
            for r in 0..8 {
                for b in 0..5 {
                    if self.variant_sin[r][b] {
                        m[r][b] = true;
                    }
                }
            }
        } else {
            for j in 0..2 {
                for c in 0..5 {
                    if self.sinclair[j][c] {
                        let (r, b) = pos_of(sinclair_key(j, &t.sctl[c].1));
                        m[r][b] = true;
                    }
                }
            }
        }
        m
    }
    fn read(&self, t: &Tables, sel: u8, variant: bool) -> u8 {
        let m = self.matrix(t, variant);
        let mut v = 0x1F;
        for r in 0..8 {
            if sel & (1 << r) == 0 {
                for b in 0..5 {
                    if m[r][b] {
                        v &= !(1 << b);
                    }
                }
            }
        }
        v
    }
}

struct Stats {
    histories: u64,
    events: u64,
    burst_moves: u64,
    drift_counts: u64,
    reads: u64,
    distinct_states: HashSet<u64>,
    sample: Option<J>,
}

fn run_history(ctx: &Ctx, t: &Tables, rng: &mut Rng, hist_id: u64, st: &mut Stats) {
    let is128 = rng.bool();
    let cfgsel = rng.below(3); // 0: kempston only, 1: mouse only, 2: both
    let mut cfg = Cfg::of(is128);
    cfg.kempston = cfgsel != 1;
    cfg.mouse = cfgsel != 0;
    cfg.sound = false;
    let mut m = Machine::new(cfg);
    let mut model = Model { keys: vec![false; t.keys.len()], compounds: vec![false; t.compounds.len()], ..Default::default() };
    let len = 1 + rng.below(200) as usize;
    // mouse calibration state
    let (mut mb, mut mx, mut my) = (0u8, 0u8, 0u8);
    if cfg.mouse {
        mb = m.inp(0xFADF);
        mx = m.inp(0xFBDF);
        my = m.inp(0xFFDF);
    }
    let mut btn_bits: Vec<Option<u8>> = vec![None; t.mbtn.len()];
    let mut btn_held = vec![false; t.mbtn.len()];
    let mut wheel_dir: Option<u8> = None; // what "Up" adds (1 or 15)
    let mut log: Vec<String> = vec![];
    // weights biased so that overlaps happen: few keys used per history
    let hot_keys: Vec<usize> = (0..6).map(|_| rng.below(t.keys.len() as u64) as usize).collect();
    // one history in four comes from a host whose pointer keeps turning one way (a grabbed mouse in a
    // game): the net motion grows far beyond any 8- or 16-bit range, the counters still count modulo 256
    let drift: Option<(i8, i8)> = if rng.chance(1, 4) { Some((if rng.bool() { 1 } else { -1 }, if rng.bool() { 1 } else { -1 })) } else { None };
    for evno in 0..len {
        let ev = match rng.below(100) {
            0..=29 => {
                let k = match rng.below(4) {
                    0 | 1 => *rng.pick(&hot_keys),
                    2 => {
                        let n = *rng.pick(&["N0", "N1", "N2", "N3", "N4", "N5", "N6", "N7", "N8", "N9", "Shift", "Space"]);
                        t.keys.iter().position(|x| x.1 == n).unwrap()
                    }
                    _ => rng.below(t.keys.len() as u64) as usize,
                };
                Ev::Key(k, rng.chance(3, 5))
            }
            30..=49 => Ev::Compound(rng.below(t.compounds.len() as u64) as usize, rng.chance(3, 5)),
            50..=69 => Ev::Sinclair(rng.below(2) as usize, rng.below(5) as usize, rng.chance(3, 5)),
            70..=79 => Ev::Kemp(rng.below(t.kemp.len() as u64) as usize, rng.chance(3, 5)),
            80..=87 => Ev::MouseBtn(rng.below(t.mbtn.len() as u64) as usize, rng.chance(3, 5)),
            88..=91 => Ev::Wheel(rng.bool()),
            _ => {
                let d = |r: &mut Rng| match r.below(6) { 0 => -128i8, 1 => 127, 2 => 0, 3 => 1, 4 => -1, _ => r.u8() as i8 };
                Ev::Move(d(rng), d(rng))
            }
        };
        log.push(format!("{:?}", ev));
        // apply to the emulator and to the model
        let mut mouse_expect_change = false;
        match &ev {
            Ev::Key(k, p) => {
                m.emu.send_key(t.keys[*k].0, *p);
                model.keys[*k] = *p;
            }
            Ev::Compound(c, p) => {
                m.emu.send_compound_key(t.compounds[*c].0, *p);
                model.compounds[*c] = *p;
            }
            Ev::Sinclair(j, c, p) => {
                m.emu.send_sinclair_key(t.sjoys[*j], t.sctl[*c].0, *p);
                model.sinclair[*j][*c] = *p;
                let mut name = sinclair_key(*j, &t.sctl[*c].1);
                if *j == 1 && t.sctl[*c].1 == "Down" {
                    name = "N2";
                }
                let (r, b) = pos_of(name);
                model.variant_sin[r][b] = *p;
            }
            Ev::Kemp(k, p) => {
                m.emu.send_kempston_key(t.kemp[*k].0, *p);
                if cfg.kempston {
                    let bit = kempston_bit(&t.kemp[*k].1, t.kemp[*k].0);
                    if *p { model.kemp |= bit } else { model.kemp &= !bit }
                }
            }
            Ev::MouseBtn(b, p) => {
                m.emu.send_mouse_button(t.mbtn[*b].0, *p);
                mouse_expect_change = true;
                if cfg.mouse {
                    let was = btn_held[*b];
                    btn_held[*b] = *p;
                    let now = m.inp(0xFADF);
                    if was != *p {
                        let diff = now ^ mb;
                        match btn_bits[*b] {
                            None => {
                                let ok = diff.count_ones() == 1 && diff & 0xF0 == 0 && !btn_bits.iter().any(|x| *x == Some(diff));
                                if !ok {
                                    ctx.violation("mouse-button-bit", "a mouse button press/release must toggle exactly one own bit of the low nibble", jobj!{"history"=>hist_id,"event"=>evno,"before"=>mb,"after"=>now,"log"=>J::Arr(log.iter().map(|s|J::from(s.as_str())).collect())});
                                } else {
                                    btn_bits[*b] = Some(diff);
                                }
                            }
                            Some(bit) => {
                                if diff != bit {
                                    ctx.violation("mouse-button-bit", "mouse button toggles a different bit than before", jobj!{"history"=>hist_id,"event"=>evno,"before"=>mb,"after"=>now});
                                }
                            }
                        }
                        if let Some(bit) = btn_bits[*b] {
                            // active low
                            if (now & bit == 0) != *p {
                                ctx.violation("mouse-button-polarity", "mouse buttons must read active-low", jobj!{"history"=>hist_id,"event"=>evno,"value"=>now,"pressed"=>*p});
                            }
                        }
                    } else if now != mb {
                        ctx.violation("mouse-button-redundant", "redundant button event changed the port", jobj!{"history"=>hist_id,"event"=>evno,"before"=>mb,"after"=>now});
                    }
                    mb = now;
                }
            }
            Ev::Wheel(up) => {
                m.emu.send_mouse_wheel(if *up { KempstonMouseWheelDirection::Up } else { KempstonMouseWheelDirection::Down });
                mouse_expect_change = true;
                if cfg.mouse {
                    let now = m.inp(0xFADF);
                    let delta = ((now >> 4).wrapping_sub(mb >> 4)) & 0x0F;
                    let up_delta = if *up { delta } else { (16 - delta) & 0x0F };
                    let ok_mag = delta == 1 || delta == 15;
                    match wheel_dir {
                        None if ok_mag => wheel_dir = Some(up_delta),
                        Some(d) if ok_mag && d == up_delta => {}
                        _ => ctx.violation("mouse-wheel", "wheel event must step the 4-bit counter by one, up and down in opposite directions", jobj!{"history"=>hist_id,"event"=>evno,"before"=>mb,"after"=>now,"up"=>*up}),
                    }
                    if (now ^ mb) & 0x0F != 0 {
                        ctx.violation("mouse-wheel-buttons", "wheel event disturbed the button bits", jobj!{"history"=>hist_id,"event"=>evno,"before"=>mb,"after"=>now});
                    }
                    mb = now;
                }
            }
            Ev::Move(dx, dy) => {
                m.emu.send_mouse_pos_diff(*dx, *dy);
                mouse_expect_change = true;
                if cfg.mouse {
                    mx = mx.wrapping_add(*dx as u8);
                    my = my.wrapping_sub(*dy as u8);
                }
                // a host often delivers several motion events before the program polls the ports again
                if rng.chance(1, 3) {
                    for _ in 0..1 + rng.below(4) {
                        let (rx, ry) = (rng.u8() as i8, rng.u8() as i8);
                        let (ex, ey) = (*rng.pick(&[127i8, -128, 100, -100, 64, 1, rx]), *rng.pick(&[127i8, -128, 90, -90, -64, -1, ry]));
                        m.emu.send_mouse_pos_diff(ex, ey);
                        log.push(format!("Move({}, {}) [no port read since the previous event]", ex, ey));
                        st.burst_moves += 1;
                        if cfg.mouse {
                            mx = mx.wrapping_add(ex as u8);
                            my = my.wrapping_sub(ey as u8);
                        }
                    }
                }
                if let Some((sx, sy)) = drift {
                    let n = 24 + rng.below(16);
                    let (mut tx, mut ty) = (0i32, 0i32);
                    for _ in 0..n {
                        let (ex, ey) = (sx * (100 + rng.below(28) as i8), sy * (100 + rng.below(28) as i8));
                        m.emu.send_mouse_pos_diff(ex, ey);
                        tx += ex as i32;
                        ty += ey as i32;
                        st.burst_moves += 1;
                        if cfg.mouse {
                            mx = mx.wrapping_add(ex as u8);
                            my = my.wrapping_sub(ey as u8);
                        }
                    }
                    st.drift_counts += (tx.unsigned_abs() + ty.unsigned_abs()) as u64;
                    log.push(format!("{} more moves the same way, together ({}, {}) [no port read in between]", n, tx, ty));
                }
            }
        }
        let _ = mouse_expect_change;
        st.events += 1;
        // ---- observe
        let mut sels: Vec<u8> = (0..8).map(|r| !(1u8 << r)).collect();
        for _ in 0..8 {
            sels.push(rng.u8());
        }
        sels.push(0x00);
        sels.push(0xFF);
        if evno % 16 == 15 {
            sels = (0..=255u8).collect();
        }
        for sel in sels {
            let port = (sel as u16) << 8 | 0xFE;
            let got = m.inp(port) & 0x1F;
            let want = model.read(t, sel, false);
            st.reads += 1;
            if got != want {
                let var = model.read(t, sel, true);
                if got == var {
                    ctx.violation("sinclair2-down-maps-to-N2", "Sinclair joystick 2 'down' acts on key 2 instead of key 3", jobj!{"history"=>hist_id,"event"=>evno,"selector"=>sel,"got"=>got,"want"=>want});
                } else {
                    ctx.violation("keyboard-row-mismatch", &format!("half-row read {:02x} != model {:02x} for selector {:02x}", got, want, sel), jobj!{"history"=>hist_id,"event"=>evno,"selector"=>sel,"got"=>got,"want"=>want,"is128"=>is128,"log"=>J::Arr(log.iter().map(|s|J::from(s.as_str())).collect())});
                }
            }
        }
        if cfg.kempston && !cfg.mouse {
            for port in [0x001Fu16, 0xFF1F, (rng.u8() as u16) << 8 | 0x1F, (rng.u8() as u16) << 8 | 0x03] {
                let got = m.inp(port);
                st.reads += 1;
                if got != model.kemp {
                    ctx.violation("kempston-joy-mismatch", &format!("Kempston port read {:02x} != OR of held bits {:02x}", got, model.kemp), jobj!{"history"=>hist_id,"event"=>evno,"port"=>port,"got"=>got,"want"=>model.kemp,"log"=>J::Arr(log.iter().map(|s|J::from(s.as_str())).collect())});
                }
            }
        }
        if cfg.mouse {
            let (b, x, y) = (m.inp(0xFADF), m.inp(0xFBDF), m.inp(0xFFDF));
            st.reads += 3;
            if b != mb {
                ctx.violation("mouse-buttons-unstable", "mouse button port changed without a mouse event", jobj!{"history"=>hist_id,"event"=>evno,"got"=>b,"want"=>mb});
                mb = b;
            }
            if x != mx || y != my {
                ctx.violation("mouse-xy-mismatch", &format!("mouse X/Y {:02x}/{:02x} != model {:02x}/{:02x}", x, y, mx, my), jobj!{"history"=>hist_id,"event"=>evno,"x"=>x,"y"=>y,"mx"=>mx,"my"=>my,"log"=>J::Arr(log.iter().map(|s|J::from(s.as_str())).collect())});
                mx = x;
                my = y;
            }
        }
        // state fingerprint for the evidence
        let mut h = crate::rng::FNV_INIT;
        let mm = model.matrix(t, false);
        for r in 0..8 { for b in 0..5 { crate::rng::fnv1a(&mut h, &[mm[r][b] as u8]); } }
        crate::rng::fnv1a(&mut h, &[model.kemp, mb, mx, my]);
        st.distinct_states.insert(h);
    }
    st.histories += 1;
    if st.sample.is_none() {
        st.sample = Some(jobj! {"history"=>hist_id,"is128"=>is128,"kempston"=>cfg.kempston,"mouse"=>cfg.mouse,
            "events"=>J::Arr(log.iter().take(24).map(|s|J::from(s.as_str())).collect())});
    }
}

pub fn run(ctx: &Ctx) -> Evidence {
    let n_hist = ctx.scale(1600, 120_000);
    let shards = 64usize;
    let res = par_map(ctx.jobs(), shards, |sh| {
        let t = tables();
        let mut st = Stats { histories: 0, events: 0, burst_moves: 0, drift_counts: 0, reads: 0, distinct_states: HashSet::new(), sample: None };
        let per = (n_hist as usize + shards - 1) / shards;
        for i in 0..per {
            let hid = (sh * per + i) as u64;
            let mut rng = Rng::fork(ctx.seed ^ 0xC17, hid);
            run_history(ctx, &t, &mut rng, hid, &mut st);
        }
        st
    });
    let mut ev = Evidence::new("random press/release/move histories (1..200 events) over all 40 keys, 7 compound keys, 2x5 Sinclair controls, 8 Kempston bits, 4 mouse buttons, wheel, deltas; after every event the half-rows (8 single, 8 random multi-row, 00, FF; all 256 every 16th event), Kempston and mouse ports are read by single-stepped IN A,(C) and compared with a held-controls model; distinct = distinct (matrix, kempston, mouse) model states observed");
    let mut states = HashSet::new();
    for r in res {
        ev.evaluations += r.events;
        ev.add_num("motion_events_sent_without_a_port_read_in_between", r.burst_moves);
        ev.add_num("mouse_counts_moved_in_one-way_drifts", r.drift_counts);
        ev.add_num("histories", r.histories);
        ev.add_num("port_reads_compared", r.reads);
        states.extend(r.distinct_states);
        if let Some(s) = r.sample { ev.sample(s); }
    }
    ev.distinct_nontrivial = states.len() as u64;
    ctx.require("events", ev.evaluations, 1000);
    ev.assumptions.push("keyboard matrix, compound-key and Sinclair tables typed from the hardware documentation/statement".into());
    ev.assumptions.push("mouse button bit assignment and wheel direction are learnt from the first event (statement fixes only active-low / 4-bit counter)".into());
    ev
}
