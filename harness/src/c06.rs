//! C06 – CPU-visible memory follows the Spectrum memory map and 128K paging rules.
//!
//! Model (from the statement): latch = last accepted paging value (bit 0-2 bank at 0xC000, bit 4
//! ROM, bit 5 lock), 8 shadow RAM banks + ROM images; 48K: fixed map, paging writes ignored.
//! Unambiguous history: every RAM byte starts as marker(bank, offset) and every test write uses a
//! fresh sequence value, so a read that returns another bank's byte or a write that lands in a
//! second bank is identified by value.
//! Observed: emulated OUT (C),A / LD (nn),A / LD A,(nn) / LDIR on the full machine, `peek()`, and a
//! periodic full sweep of all 65536 addresses and all RAM pages (hook) against the shadow.
use crate::host::{Cfg, Machine, ShortRomSet, VecRomSet};
use crate::json::J;
use crate::report::{par_map, repo_root, Ctx, Evidence};
use crate::rng::{mix2, Rng};
use std::collections::HashSet;

fn marker(bank: usize, off: usize) -> u8 {
    (mix2(0xC06 + bank as u64, off as u64) as u8) | 1
}
fn rom_marker(page: usize, off: usize) -> u8 {
    (mix2(0x80C06 + page as u64, off as u64) as u8) & 0xFE
}

struct Shadow {
    is128: bool,
    rom: Vec<Vec<u8>>,
    ram: Vec<Vec<u8>>,
    latch: u8,
    locked: bool,
}
impl Shadow {
    fn page(&self, addr: u16) -> (bool, usize) {
        if self.is128 {
            match addr >> 14 {
                0 => (true, ((self.latch >> 4) & 1) as usize),
                1 => (false, 5),
                2 => (false, 2),
                _ => (false, (self.latch & 7) as usize),
            }
        } else {
            match addr >> 14 {
                0 => (true, 0),
                n => (false, n as usize - 1),
            }
        }
    }
    fn read(&self, addr: u16) -> u8 {
        let (rom, p) = self.page(addr);
        let off = (addr & 0x3FFF) as usize;
        if rom { self.rom[p][off] } else { self.ram[p][off] }
    }
    fn write(&mut self, addr: u16, v: u8) {
        let (rom, p) = self.page(addr);
        if !rom {
            self.ram[p][(addr & 0x3FFF) as usize] = v;
        }
    }
    /// port write as decoded by the statement; only unambiguous ports are generated
    fn out(&mut self, port: u16, v: u8) {
        if self.is128 && port & 0x8002 == 0 && port & 1 == 1 && !self.locked {
            self.latch = v;
            if v & 0x20 != 0 {
                self.locked = true;
            }
        }
    }
}

/// offsets of bank 2 (always at 0x8000) reserved for the harness' scratch code
const SCRATCH: u16 = 0x8000;
const SCRATCH_LEN: u16 = 0x20;

fn reserved(sh: &Shadow, addr: u16) -> bool {
    // scratch area in bank 2, also when bank 2 is paged at 0xC000
    let (rom, p) = sh.page(addr);
    let bank2 = if sh.is128 { 2 } else { 1 };
    !rom && p == bank2 && (addr & 0x3FFF) < SCRATCH_LEN
}

fn embedded_roms(is128: bool) -> Vec<Vec<u8>> {
    let d = repo_root().join("rustzx-core/src/zx/roms");
    if is128 {
        vec![std::fs::read(d.join("128.rom.0")).unwrap_or_default(), std::fs::read(d.join("128.rom.1")).unwrap_or_default()]
    } else {
        vec![std::fs::read(d.join("48.rom")).unwrap_or_default()]
    }
}

fn setup(is128: bool, host_rom: bool, full_fill: bool, emb: &[Vec<Vec<u8>>; 2]) -> (Machine, Shadow) {
    let mut cfg = Cfg::of(is128);
    cfg.sound = false;
    cfg.default_rom = !host_rom;
    let mut m = Machine::new(cfg);
    let npages = if is128 { 2 } else { 1 };
    let rom: Vec<Vec<u8>> = if host_rom {
        let pages: Vec<Vec<u8>> = (0..npages).map(|p| (0..16384).map(|o| rom_marker(p, o)).collect()).collect();
        // the host may deliver the image in one read or in pieces (a read may return fewer bytes)
        static TURN: std::sync::atomic::AtomicUsize = std::sync::atomic::AtomicUsize::new(0);
        let t = TURN.fetch_add(1, std::sync::atomic::Ordering::Relaxed);
        match t % 4 {
            0 => m.emu.load_rom(VecRomSet { pages: pages.clone(), next: 0 }).expect("load_rom"),
            k => m.emu.load_rom(ShortRomSet { pages: pages.clone(), next: 0, chunk: [1000, 4096, 1][k - 1] }).expect("load_rom (short reads)"),
        }
        pages
    } else {
        emb[is128 as usize].clone()
    };
    let nbanks = if is128 { 8 } else { 3 };
    let offs: Vec<usize> = if full_fill { (0..16384).collect() } else { vec![0x0021, 0x0100, 0x1234, 0x1FFF, 0x2000, 0x3FFE, 0x3FFF] };
    let mut ram: Vec<Vec<u8>> = (0..nbanks).map(|_| vec![0u8; 16384]).collect();
    for b in 0..nbanks {
        let base: u16 = if is128 {
            m.out(0x7FFD, b as u8);
            0xC000
        } else {
            0x4000 + (b as u16) * 0x4000
        };
        if full_fill {
            let data: Vec<u8> = (0..16384).map(|o| marker(b, o)).collect();
            m.poke_bytes(base, &data);
            ram[b] = data;
        } else {
            for &o in offs.iter() {
                m.poke(base + o as u16, marker(b, o));
                ram[b][o] = marker(b, o);
            }
        }
    }
    if is128 {
        m.out(0x7FFD, 0);
    }
    (m, Shadow { is128, rom, ram, latch: 0, locked: false })
}

/// emulated LD A,(addr) from the scratch area
fn cpu_read(m: &mut Machine, addr: u16) -> u8 {
    m.exec_at(SCRATCH, &[0x3A, addr as u8, (addr >> 8) as u8], 1);
    m.cpu().regs.get_acc()
}
fn cpu_write(m: &mut Machine, addr: u16, v: u8) {
    m.cpu().regs.set_acc(v);
    m.exec_at(SCRATCH, &[0x32, addr as u8, (addr >> 8) as u8], 1);
}
fn cpu_out(m: &mut Machine, port: u16, v: u8) {
    m.cpu().regs.set_bc(port);
    m.cpu().regs.set_acc(v);
    m.exec_at(SCRATCH, &[0xED, 0x79], 1);
}

fn describe(sh: &Shadow) -> String {
    format!("{} latch={:02x} locked={}", if sh.is128 { "128K" } else { "48K" }, sh.latch, sh.locked)
}

/// classify what the machine returned: which bank's marker is it?
fn whose(sh: &Shadow, addr: u16, got: u8) -> String {
    let off = (addr & 0x3FFF) as usize;
    let mut v = vec![];
    for (b, r) in sh.ram.iter().enumerate() {
        if r[off] == got {
            v.push(format!("ram{}", b));
        }
    }
    for (p, r) in sh.rom.iter().enumerate() {
        if r.len() > off && r[off] == got {
            v.push(format!("rom{}", p));
        }
    }
    if v.is_empty() { "nobody".into() } else { v.join("/") }
}

fn probe(ctx: &Ctx, m: &mut Machine, sh: &Shadow, addrs: &[u16], hist: &[String], tag: &str, case: u64) -> bool {
    for &a in addrs {
        if reserved(sh, a) {
            continue;
        }
        let want = sh.read(a);
        let p = m.peek(a);
        let c = cpu_read(m, a);
        if p != want || c != want {
            let (rom, page) = sh.page(a);
            let kind = if sh.locked { "after-lock" } else if rom { "rom-window" } else if a >= 0xC000 { "paged-window" } else { "fixed-window" };
            ctx.violation(
                &format!("memory-map:{}:{}", if sh.is128 { "128k" } else { "48k" }, kind),
                &format!("{}: address {:04x} should show {}{} byte {:02x} but CPU reads {:02x}, peek {:02x} (that value belongs to {}) [{}]", describe(sh), a, if rom { "rom" } else { "ram" }, page, want, c, p, whose(sh, a, c), tag),
                jobj! {"case"=>case,"addr"=>a,"want"=>want,"cpu"=>c,"peek"=>p,"history"=>J::Arr(hist.iter().rev().take(40).rev().map(|s| J::from(s.as_str())).collect())},
            );
            return false;
        }
    }
    true
}

fn full_sweep(ctx: &Ctx, m: &mut Machine, sh: &Shadow, hist: &[String], case: u64) -> bool {
    for a in 0..=0xFFFFu16 {
        if reserved(sh, a) {
            continue;
        }
        let want = sh.read(a);
        let got = m.peek(a);
        if got != want {
            ctx.violation(
                &format!("memory-map:{}:sweep", if sh.is128 { "128k" } else { "48k" }),
                &format!("{}: full sweep: address {:04x} reads {:02x}, model {:02x} (value belongs to {})", describe(sh), a, got, want, whose(sh, a, got)),
                jobj! {"case"=>case,"addr"=>a,"history"=>J::Arr(hist.iter().rev().take(40).rev().map(|s| J::from(s.as_str())).collect())},
            );
            return false;
        }
    }
    // hidden banks through the hook: a write must not have landed in a second bank
    for (b, r) in sh.ram.iter().enumerate() {
        let page = m.emu.verif_ram_page(b as u8).unwrap();
        let bank2 = if sh.is128 { 2 } else { 1 };
        for (o, (x, y)) in page.iter().zip(r.iter()).enumerate() {
            if x != y && !(b == bank2 && o < SCRATCH_LEN as usize) {
                ctx.violation(
                    &format!("memory-map:{}:hidden-bank", if sh.is128 { "128k" } else { "48k" }),
                    &format!("{}: RAM bank {} offset {:04x} holds {:02x}, model {:02x}", describe(sh), b, o, x, y),
                    jobj! {"case"=>case,"bank"=>b,"offset"=>o,"history"=>J::Arr(hist.iter().rev().take(40).rev().map(|s| J::from(s.as_str())).collect())},
                );
                return false;
            }
        }
    }
    true
}

fn latch_port(rng: &mut Rng) -> u16 {
    // A15=0, A1=0, A0=1; canonical or a random alias
    if rng.chance(1, 2) { 0x7FFD } else { (rng.u16() & 0x7FFC) | 0x0001 }
}

struct St {
    ops: u64,
    transitions: u64,
    sweeps: u64,
    rom_reloads: u64,
    frame_end_outs: u64,
    states: HashSet<u32>,
    sample: Option<J>,
}

fn history(ctx: &Ctx, rng: &mut Rng, is128: bool, host_rom: bool, len: usize, st: &mut St, case: u64, emb: &[Vec<Vec<u8>>; 2]) {
    let (mut m, mut sh) = setup(is128, host_rom, true, emb);
    let mut hist: Vec<String> = vec![];
    let mut seq = 0u8;
    let border = |rng: &mut Rng| -> u16 {
        let b = *rng.pick(&[0x3FFFu16, 0x4000, 0x7FFF, 0x8000 + SCRATCH_LEN, 0xBFFF, 0xC000, 0xFFFF, 0x0000, 0x5AFF, 0xC000 + SCRATCH_LEN]);
        b.wrapping_add(rng.below(3) as u16).wrapping_sub(1)
    };
    for i in 0..len {
        match rng.below(10) {
            0 | 1 | 2 => {
                // paging write (or a write that must NOT reach the latch)
                let v = if rng.chance(1, 12) { rng.u8() | 0x20 } else { rng.u8() & !0x20 };
                let port = match rng.below(8) {
                    0 => 0xFFFD,
                    1 => 0xBFFD,
                    2 => (rng.u16() | 0x8001) & !0x4000 | 0x0002, // A15=1, A1=1: nobody
                    3 => (rng.u16() & 0x7FFF) | 0x0003,            // A15=0 but A1=1: not the latch
                    _ => latch_port(rng),
                };
                // one write in five is issued so that its I/O cycle falls on the last T-states of a
                // frame or the first ones of the next (the frame clock is set through the hook)
                let mut at = String::new();
                if rng.chance(1, 5) {
                    let fr = m.frame_len();
                    let t = fr - 1 - rng.below(16) as usize;
                    m.set_clock(t);
                    at = format!(" issued at frame T={} of {}", t, fr);
                    st.frame_end_outs += 1;
                }
                cpu_out(&mut m, port, v);
                sh.out(port, v);
                hist.push(format!("OUT {:04x},{:02x}{}", port, v, at));
                st.states.insert((sh.is128 as u32) << 16 | (sh.latch as u32 & 0x3F) << 1 | sh.locked as u32);
            }
            3 | 4 | 5 | 6 => {
                let a = if rng.chance(1, 3) { border(rng) } else { rng.u16() };
                if reserved(&sh, a) {
                    continue;
                }
                seq = seq.wrapping_add(1);
                let v = seq ^ 0x5A;
                if rng.chance(1, 4) && !reserved(&sh, a.wrapping_add(1)) {
                    // 16-bit stores: two byte cycles, each obeying the map on its own (a word at
                    // 0x3FFF loses its low byte to the ROM and keeps its high byte in bank 5)
                    let w = v.wrapping_mul(3) ^ 0xC3;
                    let form = rng.below(4);
                    let rf = m.regs();
                    match form {
                        0 => {
                            m.cpu().regs.set_hl((w as u16) << 8 | v as u16);
                            m.exec_at(SCRATCH, &[0x22, a as u8, (a >> 8) as u8], 1);
                        }
                        1 => {
                            m.cpu().regs.set_de((w as u16) << 8 | v as u16);
                            m.exec_at(SCRATCH, &[0xED, 0x53, a as u8, (a >> 8) as u8], 1);
                        }
                        2 => {
                            m.cpu().regs.set_ix((w as u16) << 8 | v as u16);
                            m.exec_at(SCRATCH, &[0xDD, 0x22, a as u8, (a >> 8) as u8], 1);
                        }
                        _ => {
                            // PUSH BC with SP = a+2: high byte to a+1 first, then low byte to a
                            m.cpu().regs.set_bc((w as u16) << 8 | v as u16);
                            m.cpu().regs.set_sp(a.wrapping_add(2));
                            m.exec_at(SCRATCH, &[0xC5], 1);
                        }
                    }
                    m.set_regs(&rf);
                    sh.write(a, v);
                    sh.write(a.wrapping_add(1), w);
                    hist.push(format!("{} word ({:04x}) <- {:02x}{:02x}", ["LD (nn),HL", "LD (nn),DE", "LD (nn),IX", "PUSH BC"][form as usize], a, w, v));
                } else {
                    cpu_write(&mut m, a, v);
                    sh.write(a, v);
                    hist.push(format!("LD ({:04x}),{:02x}", a, v));
                }
            }
            7 => {
                // LDIR of 1..6 bytes across borders, source = a fixed-window area
                let n = 1 + rng.below(6) as u16;
                let src = 0x9000 + rng.below(0x100) as u16;
                let dst = border(rng).wrapping_sub(rng.below(3) as u16);
                let mut ok = true;
                for k in 0..n {
                    if reserved(&sh, dst.wrapping_add(k)) || reserved(&sh, src + k) {
                        ok = false;
                    }
                }
                if !ok {
                    continue;
                }
                let vals: Vec<u8> = (0..n).map(|k| sh.read(src + k)).collect();
                let rf = m.regs();
                m.cpu().regs.set_hl(src);
                m.cpu().regs.set_de(dst);
                m.cpu().regs.set_bc(n);
                m.exec_at(SCRATCH, &[0xED, 0xB0], n as usize);
                m.set_regs(&rf);
                for (k, v) in vals.iter().enumerate() {
                    // sequential semantics (source is outside the destination range here)
                    sh.write(dst.wrapping_add(k as u16), *v);
                }
                hist.push(format!("LDIR {:04x}->{:04x} x{}", src, dst, n));
            }
            9 if rng.chance(1, 3) => {
                // the host supplies the ROM set again while the machine runs (same images): the
                // window keeps showing the page selected by the last accepted paging write
                let pages = sh.rom.clone();
                let r = match rng.below(3) {
                    0 => m.emu.load_rom(VecRomSet { pages, next: 0 }),
                    k => m.emu.load_rom(ShortRomSet { pages, next: 0, chunk: [4096, 1000][k as usize - 1] }),
                };
                if let Err(e) = r {
                    ctx.violation("memory-map:load-rom-failed", &format!("load_rom of a complete ROM set failed at run time: {:?}", e), jobj! {"case"=>case,"is128"=>is128});
                    return;
                }
                st.rom_reloads += 1;
                hist.push("load_rom (same images)".into());
            }
            8 => {
                // port reads never page: an IN from any port – aliases of the paging port included,
                // taken while the ULA is fetching the picture so that the bus is not idle – must
                // leave the map alone
                let port = match rng.below(4) {
                    0 => latch_port(rng),
                    1 => (rng.u16() & 0x3FFC) | 0x0001, // A15=A14=0, A1=0: uncontended alias
                    2 => (rng.u16() & 0x7FFC) | *rng.pick(&[0u16, 1]),
                    _ => rng.u16(),
                };
                let fr = m.frame_len();
                let (t0, line) = if is128 { (14362usize, 228usize) } else { (14336, 224) };
                let t = if rng.chance(2, 3) { t0 + rng.below(192) as usize * line + rng.below(128) as usize } else { rng.below(fr as u64) as usize };
                m.set_clock(t.saturating_sub(12) % fr);
                let v = m.inp(port);
                hist.push(format!("IN {:04x} at T~{} -> {:02x}", port, t, v));
            }
            _ => {
                let a = rng.u16();
                hist.push(format!("LD A,({:04x})", a));
            }
        }
        st.ops += 1;
        // probes: 4 per window
        let mut probes = vec![];
        for w in 0..4u16 {
            for _ in 0..3 {
                probes.push(w << 14 | rng.below(0x4000) as u16);
            }
            probes.push(w << 14 | *rng.pick(&[0x0021u16, 0x3FFF, 0x1234]));
        }
        if !probe(ctx, &mut m, &sh, &probes, &hist, "random history", case) {
            return;
        }
        if i % 64 == 63 || i + 1 == len {
            st.sweeps += 1;
            if !full_sweep(ctx, &mut m, &sh, &hist, case) {
                return;
            }
        }
    }
    if st.sample.is_none() {
        st.sample = Some(jobj! {"kind"=>"history","is128"=>is128,"host_rom"=>host_rom,"ops"=>J::Arr(hist.iter().take(16).map(|s| J::from(s.as_str())).collect())});
    }
}

/// exhaustive single transitions: from each of the 64 latch states apply each of the 256 values
fn transitions(ctx: &Ctx, state: u32, host_rom: bool, st: &mut St, emb: &[Vec<Vec<u8>>; 2]) {
    // state bits: 0-2 bank, 3 screen, 4 rom, 5 lock
    for v2 in 0..=255u8 {
        let (mut m, mut sh) = setup(true, host_rom, false, emb);
        let v1 = state as u8;
        let mut hist = vec![];
        let port = 0x7FFD;
        cpu_out(&mut m, port, v1);
        sh.out(port, v1);
        hist.push(format!("OUT 7ffd,{:02x}", v1));
        cpu_out(&mut m, port, v2);
        sh.out(port, v2);
        hist.push(format!("OUT 7ffd,{:02x}", v2));
        st.transitions += 1;
        st.states.insert(1 << 16 | (sh.latch as u32 & 0x3F) << 1 | sh.locked as u32);
        let probes: Vec<u16> = [0x0021u16, 0x0100, 0x1234, 0x3FFF].iter().flat_map(|o| (0..4u16).map(move |w| w << 14 | o)).collect();
        if !probe(ctx, &mut m, &sh, &probes, &hist, "exhaustive transition", (state as u64) << 8 | v2 as u64) {
            return;
        }
        // a byte written through the paged window is readable through every window mapping that bank
        let a = 0xC000 + 0x1234;
        cpu_write(&mut m, a, 0xA7);
        sh.write(a, 0xA7);
        hist.push("LD (d234),a7".into());
        if !probe(ctx, &mut m, &sh, &[0x5234, 0x9234, 0xD234, 0x1234], &hist, "write through paged window", (state as u64) << 8 | v2 as u64) {
            return;
        }
    }
}

pub fn run(ctx: &Ctx) -> Evidence {
    let n_hist = ctx.scale(3_200, 60_000) as usize;
    let len = if ctx.quick() { 400 } else { 1000 };
    let shards = 64usize;
    let emb = [embedded_roms(false), embedded_roms(true)];
    let emb = &emb;
    let res = par_map(ctx.jobs(), shards, |shd| {
        let mut st = St { ops: 0, transitions: 0, sweeps: 0, rom_reloads: 0, frame_end_outs: 0, states: HashSet::new(), sample: None };
        // exhaustive transitions: 64 states spread over the shards; host ROM for odd states
        transitions(ctx, shd as u32, shd % 2 == 1, &mut st, emb);
        for i in 0..(n_hist / shards).max(1) {
            let case = (shd * (n_hist / shards).max(1) + i) as u64;
            let mut rng = Rng::fork(ctx.seed ^ 0xC06, case);
            history(ctx, &mut rng, case % 3 != 0, case % 4 < 2, len, &mut st, case, emb);
        }
        st
    });
    let mut ev = Evidence::new("exhaustive: from each of the 64 latch states (bank, screen, ROM, lock) each of the 256 values is written and 16+4 marker probes are read back by emulated LD A,(nn) and peek; random histories of emulated OUT (latch aliases, non-latch ports, lock), LD (nn),A, LDIR across window borders on 48K/128K with embedded and host-supplied patterned ROMs, 16 probes after every op, full 65536-address + all-bank sweep every 64 ops. distinct = latch states (value bits 0-5, lock) reached");
    let mut states = HashSet::new();
    for r in res {
        ev.evaluations += r.ops + r.transitions;
        ev.add_num("history_ops", r.ops);
        ev.add_num("port_writes_issued_within_16_T_of_a_frame_end", r.frame_end_outs);
        ev.add_num("exhaustive_transitions", r.transitions);
        ev.add_num("full_sweeps", r.sweeps);
        ev.add_num("rom_sets_reloaded_at_run_time", r.rom_reloads);
        states.extend(r.states);
        if let Some(s) = r.sample {
            ev.sample(s);
        }
    }
    ev.distinct_nontrivial = states.len() as u64;
    ev.exhaustive = Some(true);
    ev.add("exhaustive_subspace", "64 latch states x 256 paging values (single transitions)");
    ctx.require("exhaustive transitions", ev.extra.iter().find(|(k, _)| k == "exhaustive_transitions").and_then(|(_, v)| v.as_i64()).unwrap_or(0) as u64, 16384);
    ctx.require("latch states", states.len() as u64, 64);
    ev.assumptions.push("ports generated only where exactly one device decodes (odd ports with A15=0,A1=0 for the latch)".into());
    ev.assumptions.push("32 bytes of bank 2 hold the harness' scratch code and are not judged".into());
    ev
}
