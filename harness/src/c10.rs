//! C10 – fast tape loading leaves the machine exactly as the ROM loader would.
//!
//! Shape: request histories against an executable model. A 48K (or 128K with ROM 1 paged) machine
//! with fast loading enabled gets a generated TAP image; the ROM routine LD-BYTES is entered at
//! 0556h with chosen A / carry / IX / DE (registers set through the hook, fake return address on an
//! emulated stack in uncontended RAM) and runs until SA/LD-RET (053Fh, reported as 053Fh or 0540h –
//! see `spec_tape::RET_POINTS`) or a frame budget. There IX, DE, carry, SP and all RAM are compared
//! with `spec_tape::ld_bytes`, a sequential model written from the ROM listing (and validated against
//! the real ROM loading in real time by the system part of C11), applied to *the next block of the
//! tape*; the next request of the history then continues from that state, so a block consumed twice
//! or skipped shows up as a mismatch of the following request.
//!
//! End of tape ("never completes successfully and CPU state is not disturbed, as with a silent
//! tape"), bounded restatement: the machine is single-stepped in lockstep with a twin that has
//! identical RAM/registers/clock but no tape at all (the silent tape) for 2500 instructions and must
//! show the identical register file after every instruction; within 20 frames it must not reach
//! SA/LD-RET, and RAM outside the stack window must be unchanged.
//!
//! Don't-cares / domain: bytes in [SP-24, SP+4) are stack scratch (the ROM's own PUSH/CALL traffic
//! differs between trap and real loader and is dead after return); requests whose stored range
//! would overwrite that window are not generated; A, HL, BC and the alternate set after the return
//! are not compared (the statement names memory, IX, DE and carry). Interrupts are disabled on
//! entry (as the routine itself does at 0559h). Truncated last block: the statement does not say
//! how many of the surviving bytes must be delivered, so the only demand is "no successful return
//! unless the surviving bytes alone justify it"; an emulation error surfacing to the host is
//! accepted there.
use crate::host::{mem_asset, Machine};
use crate::json::{hex, J};
use crate::report::{par_map, Ctx, Evidence};
use crate::rng::Rng;
use crate::spec_tape::*;
use rustzx_core::host::Tape;
use std::collections::HashSet;

struct Stats {
    histories: u64,
    requests: u64,
    eot_requests: u64,
    truncated_requests: u64,
    exits: [u64; 5], // de0-carry, de0-nocarry, flag-mismatch, verify-mismatch, out-of-bytes
    loads_ok: u64,
    verifies_ok: u64,
    boundary_blocks: u64,
    m128: u64,
    rewinds: u64,
    locked_128k: u64,
    long_tapes: u64,
    fingerprints: HashSet<(usize, u16, bool, &'static str, bool)>,
    sample: Option<J>,
}

fn gen_blocks(rng: &mut Rng, thorough: bool) -> Vec<Vec<u8>> {
    let n = match rng.below(10) {
        0 => 1,
        1..=5 => 2 + rng.below(3) as usize,
        _ => 1 + rng.below(8) as usize,
    };
    let mut v = vec![];
    for _ in 0..n {
        // total block length (flag + data + checksum), straight from the quantifier of C10
        let total: usize = match rng.below(24) {
            0 => 0,
            1 => 1,
            2 => 2,
            3 => 17 + 2,
            4 | 5 => *rng.pick(&[127usize, 128, 129, 130]),
            6 | 7 => *rng.pick(&[255usize, 256, 257, 258]),
            8 => *rng.pick(&[383usize, 384, 385, 386]),
            9 => 6914,
            10 => rng.below(20000) as usize,
            11 if thorough || rng.chance(1, 4) => *rng.pick(&[49152usize, 49154, 65535, 65534]),
            _ => 3 + rng.below(600) as usize,
        };
        let flag = match rng.below(4) {
            0 => 0x00,
            1 => 0xFF,
            _ => rng.u8(),
        };
        let b = if total == 0 {
            vec![]
        } else if total == 1 {
            vec![flag]
        } else {
            let data = if rng.chance(1, 6) { vec![rng.u8(); total - 2] } else { rng.bytes(total - 2) };
            mk_block(flag, &data, rng.chance(3, 4))
        };
        v.push(b);
    }
    v
}

fn short_blocks(blocks: &[Vec<u8>]) -> J {
    J::Arr(blocks.iter().map(|b| if b.len() <= 64 { J::from(hex(b)) } else { J::from(format!("{}..({} bytes)", hex(&b[..32]), b.len())) }).collect())
}

/// End-of-tape request. Returns false if a violation was reported.
fn eot_request(ctx: &Ctx, m: &mut Machine, req: &LdReq, rng: &mut Rng, case: &dyn Fn(J) -> J) -> bool {
    let pre = ram_image(m);
    let hidden = hidden_banks_digest(m);
    // the silent-tape twin: same RAM, registers, clock – and no tape
    let mut dummy = Rng::new(1);
    let mut twin = tape_machine(m.cfg.is128, false, &mut dummy);
    twin.poke_bytes(0x4000, &pre);
    let clock = rng.below(m.frame_len() as u64 - 200) as usize;
    issue_request(m, req);
    let rf = m.regs();
    twin.poke(req.sp, RET_ADDR as u8);
    twin.poke(req.sp.wrapping_add(1), (RET_ADDR >> 8) as u8);
    twin.set_regs(&rf);
    m.set_clock(clock);
    twin.set_clock(clock);
    let mut diverged: Option<J> = None;
    let mut ret = false;
    for i in 0..2500 {
        if m.step_res().is_err() {
            ctx.violation("c10-eot-emulation-error", "emulation error on a request past the end of a well-formed tape", case(jobj! {"request"=>req.to_json(), "step"=>i}));
            return false;
        }
        twin.step();
        let (a, b) = (m.regs(), twin.regs());
        if a != b && diverged.is_none() {
            diverged = Some(jobj! {"step"=>i, "with_exhausted_tape"=>format!("{:x?}", a), "with_silent_tape"=>format!("{:x?}", b)});
        }
        if RET_POINTS.contains(&a.pc) {
            ret = true;
            break;
        }
        if diverged.is_some() && i > 64 {
            break;
        }
    }
    if !ret {
        match run_until(m, &RET_POINTS, 20) {
            RunEnd::Hit(_) => ret = true,
            RunEnd::Timeout => {}
            RunEnd::Error(e) => {
                ctx.violation("c10-eot-emulation-error", &format!("emulation error on a request past the end of the tape: {}", e), case(jobj! {"request"=>req.to_json()}));
                return false;
            }
        }
    }
    let o = observe_at_ret(m);
    let info = jobj! {"request"=>req.to_json(), "clock"=>clock, "returned"=>ret, "carry"=>o.carry, "IX"=>o.ix, "DE"=>o.de,
        "first_divergence_from_silent_tape_twin"=>diverged.clone().unwrap_or(J::Null)};
    if ret && o.carry {
        ctx.violation(
            "c10-eot-returns-success",
            "with no block left LD-BYTES returns at once with carry set (success) although nothing was loaded",
            case(info),
        );
        return false;
    }
    if diverged.is_some() {
        ctx.violation(
            "c10-eot-cpu-state-disturbed",
            "with no block left the register file differs from that of the same machine with a silent tape (AF/AF' exchanged by the trap)",
            case(info),
        );
        return false;
    }
    if ret {
        ctx.violation("c10-eot-returns", "with no block left LD-BYTES returned (a silent tape never lets it return)", case(info));
        return false;
    }
    if o.ix != req.ix || o.de != req.de {
        ctx.violation("c10-eot-ix-de-changed", "IX/DE changed by a request past the end of the tape", case(info));
        return false;
    }
    let post = ram_image(m);
    if let Some((a, e, g)) = diff_ram(&pre, &post, &[], req.sp) {
        ctx.violation("c10-eot-ram-changed", &format!("RAM {:04x} changed {:02x}->{:02x} by a request past the end of the tape", a, e, g), case(info));
        return false;
    }
    if hidden != hidden_banks_digest(m) {
        ctx.violation("c10-hidden-bank-changed", "a RAM bank that is not paged in changed", case(info));
        return false;
    }
    true
}

fn run_history(ctx: &Ctx, hid: u64, st: &mut Stats) {
    let mut rng = Rng::fork(ctx.seed ^ 0xC10, hid);
    let is128 = rng.chance(1, 4);
    // two histories in sixteen use long tapes: one huge block (up to the format's 65535 bytes, mostly
    // not a multiple of the deck's 128-byte window) followed by ordinary ones, or several hundred
    // ordinary blocks (the tape passes 64 KiB and goes on)
    let blocks = match hid % 16 {
        7 => {
            let total = *rng.pick(&[65535usize, 65534, 65410, 65409, 49154, 40000, 33001, 32769]) - if rng.chance(1, 3) { rng.below(300) as usize } else { 0 };
            let mut v = vec![mk_block(*rng.pick(&[0xFFu8, 0x00, 0xA5]), &rng.bytes(total - 2), rng.chance(3, 4))];
            v.extend(gen_blocks(&mut rng, false).into_iter().filter(|b| b.len() < 1000));
            st.long_tapes += 1;
            v
        }
        11 => {
            let n = 290 + rng.below(60) as usize;
            st.long_tapes += 1;
            (0..n).map(|_| { let len = 200 + rng.below(60) as usize; let f = *rng.pick(&[0xFFu8, 0xFF, 0x00, 0x5A]); mk_block(f, &rng.bytes(len), rng.chance(7, 8)) }).collect()
        }
        _ => gen_blocks(&mut rng, !ctx.quick()),
    };
    // truncated tail: the file ends inside the last block / inside a length word
    let truncated = rng.chance(1, 10) && blocks.last().map(|b| b.len() >= 2).unwrap_or(false);
    let mut img = tap_image(&blocks);
    let mut surviving_last = blocks.last().cloned().unwrap_or_default();
    let mut half_length_word = false;
    if truncated {
        if rng.chance(1, 4) {
            // a dangling single byte after the last complete block: not a block at all
            img.push(rng.u8());
            half_length_word = true;
        } else {
            let cut = 1 + rng.below(surviving_last.len() as u64 - 1) as usize;
            img.truncate(img.len() - cut);
            let keep = surviving_last.len() - cut;
            surviving_last.truncate(keep);
        }
    }
    let mut fill = Rng::fork(ctx.seed ^ 0xC10_F1, hid);
    let via_setter = rng.bool();
    let mut m = tape_machine(is128, !via_setter, &mut fill);
    if via_setter {
        m.emu.set_fast_load(true);
    }
    // the image reaches the deck through a whole-buffer asset or one with short reads (1, 2, 3, 100,
    // 256 bytes per read): which one is a function of the history number
    let asset = match hid % 6 {
        0 | 1 => mem_asset(img.clone()),
        k => crate::host::DynAsset(Box::new(crate::host::ShortRead::new(img.clone(), [1usize, 3, 100, 256][(k - 2) as usize]))),
    };
    m.emu.load_tape(Tape::Tap(asset)).expect("load_tape");
    // 128K in "48 BASIC" state: paging locked with ROM 1 selected; later writes to 0x7FFD are ignored
    // by the machine and change nothing about which ROM the loader runs from
    let locked128 = is128 && rng.chance(1, 3);
    if locked128 {
        m.out(0x7FFD, 0x30);
        st.locked_128k += 1;
    }
    let mut log: Vec<J> = vec![];
    let extra = 1 + rng.below(3) as usize;
    let n_complete = if truncated && !half_length_word { blocks.len() - 1 } else { blocks.len() };
    st.histories += 1;
    st.m128 += is128 as u64;
    // the deck may be rewound between requests (a C12 command): the next request then meets the
    // first block again, whatever the previous request left unread
    let mut order: Vec<(usize, bool)> = vec![];
    let mut pos = 0usize;
    for _ in 0..blocks.len() + extra {
        let rw = !truncated && pos > 0 && rng.chance(1, 6);
        if rw {
            pos = 0;
        }
        order.push((pos, rw));
        pos += 1;
    }
    for (k, rewind_first) in order {
        if rewind_first {
            if let Err(e) = m.emu.rewind_tape() {
                ctx.violation("c10-rewind-error", &format!("rewind_tape failed on a well-formed tape: {:?}", e), jobj! {"history"=>hid,"earlier_requests"=>J::Arr(log.clone())});
                return;
            }
            st.rewinds += 1;
            log.push(jobj! {"rewind"=>true});
        }
        if locked128 && rng.chance(1, 2) {
            let v = *rng.pick(&[0x00u8, 0x07, 0x20, 0x0F, 0x10]);
            m.out(0x7FFD, v);
            log.push(jobj! {"ignored_paging_write"=>v});
        }
        let case = |info: J| {
            jobj! {"history"=>hid, "seed"=>ctx.seed, "is128"=>is128, "fastload_enabled_via"=>if via_setter {"set_fast_load"} else {"settings"},
            "tap_hex"=>if img.len() <= 2048 { hex(&img) } else { format!("{}.. ({} bytes; regenerate from seed/history)", hex(&img[..256]), img.len()) },
            "blocks"=>short_blocks(&blocks), "truncated_tail"=>truncated, "request_index"=>k, "earlier_requests"=>J::Arr(log.clone()), "info"=>info}
        };
        if k >= n_complete && truncated && !half_length_word && k == n_complete {
            // the truncated block: lenient verdict (see module header); ends the history
            let mut pokes: Vec<(u16, Vec<u8>)> = vec![];
            let req = gen_request_c10(&mut rng, Some(&blocks[k]), &mut pokes);
            for (a, d) in pokes.iter() {
                m.poke_bytes(*a, d);
            }
            let pre = ram_image(&m);
            let model = ld_bytes(&surviving_last, req.a, req.load, req.ix, req.de, &|a| if a >= 0x4000 { pre[a as usize - 0x4000] } else { m.peek(a) });
            issue_request(&mut m, &req);
            let mut end = run_until(&mut m, &RET_POINTS, 20);
            let mut surfaced = None;
            if let RunEnd::Error(e) = &end {
                // a host that logs the error and keeps emulating
                surfaced = Some(e.clone());
                end = run_until(&mut m, &RET_POINTS, 20);
            }
            st.truncated_requests += 1;
            if returned(&end) {
                let o = observe_at_ret(&mut m);
                if o.carry && !model.carry {
                    ctx.violation(
                        "c10-truncated-tail-returns-success",
                        "a request against a truncated last block returns with carry set although the surviving bytes do not justify success",
                        case(jobj! {"request"=>req.to_json(), "surviving_bytes"=>surviving_last.len(), "declared"=>blocks[k].len(), "error_surfaced"=>surfaced.clone().unwrap_or_default(),
                            "observed"=>format!("{:x?}", o)}),
                    );
                }
            }
            return;
        }
        let b: Option<&Vec<u8>> = if k < n_complete { blocks.get(k) } else { None };
        match b {
            None => {
                let mut pokes = vec![];
                let req = gen_request_c10(&mut rng, None, &mut pokes);
                st.eot_requests += 1;
                if !eot_request(ctx, &mut m, &req, &mut rng, &case) {
                    return;
                }
                log.push(jobj! {"request"=>req.to_json(), "end_of_tape"=>true});
            }
            Some(b) => {
                let mut pokes: Vec<(u16, Vec<u8>)> = vec![];
                let req = gen_request_c10(&mut rng, Some(b), &mut pokes);
                for (a, d) in pokes.iter() {
                    m.poke_bytes(*a, d);
                }
                let pre = ram_image(&m);
                let hidden = hidden_banks_digest(&m);
                let model = ld_bytes(b, req.a, req.load, req.ix, req.de, &|a| if a >= 0x4000 { pre[a as usize - 0x4000] } else { m.peek(a) });
                m.set_clock(rng.below(m.frame_len() as u64 - 200) as usize);
                issue_request(&mut m, &req);
                let end = run_until(&mut m, &RET_POINTS, 20);
                st.requests += 1;
                let info = |o: J| {
                    jobj! {"request"=>req.to_json(), "block_index"=>k, "block_len"=>b.len(), "model_exit"=>model.exit,
                    "expected"=>format!("IX={:04x} DE={:04x} carry={} stores={}", model.ix, model.de, model.carry, model.writes.len()), "observed"=>o}
                };
                if !returned(&end) {
                    ctx.violation(
                        &format!("c10-no-return:{}", model.exit),
                        &format!("fast load request did not return within 20 frames although a block was left ({:?})", end),
                        case(info(J::Null)),
                    );
                    return;
                }
                let o = observe_at_ret(&mut m);
                let oj = J::from(format!("{:x?}", o));
                if o.carry != model.carry {
                    ctx.violation(
                        &format!("c10-carry:{}:{}", model.exit, if model.carry { "lost" } else { "spurious" }),
                        &format!("carry after the request is {} but LD-BYTES would leave {} (exit path {})", o.carry, model.carry, model.exit),
                        case(info(oj)),
                    );
                    return;
                }
                if o.ix != model.ix || o.de != model.de {
                    ctx.violation(
                        &format!("c10-ix-de:{}", model.exit),
                        &format!("IX/DE after the request are {:04x}/{:04x}, LD-BYTES would leave {:04x}/{:04x}", o.ix, o.de, model.ix, model.de),
                        case(info(oj)),
                    );
                    return;
                }
                if o.sp != req.sp {
                    ctx.violation("c10-sp", &format!("SP at SA/LD-RET is {:04x}, expected {:04x}", o.sp, req.sp), case(info(oj)));
                    return;
                }
                let post = ram_image(&m);
                if let Some((a, e, g)) = diff_ram(&pre, &post, &model.writes, req.sp) {
                    ctx.violation(
                        &format!("c10-ram:{}:{}", if req.load { "load" } else { "verify" }, model.exit),
                        &format!("RAM {:04x} holds {:02x}, LD-BYTES would leave {:02x}", a, g, e),
                        case(info(oj)),
                    );
                    return;
                }
                if hidden != hidden_banks_digest(&m) {
                    ctx.violation("c10-hidden-bank-changed", "a RAM bank that is not paged in changed", case(info(oj)));
                    return;
                }
                let ei = match (model.exit, model.carry) {
                    ("de0", true) => 0,
                    ("de0", false) => 1,
                    ("flag-mismatch", _) => 2,
                    ("verify-mismatch", _) => 3,
                    _ => 4,
                };
                st.exits[ei] += 1;
                if model.carry && req.load && !model.writes.is_empty() {
                    st.loads_ok += 1;
                }
                if model.carry && !req.load && model.consumed > 2 {
                    st.verifies_ok += 1;
                }
                if (127..=130).contains(&b.len()) || (255..=258).contains(&b.len()) || (383..=386).contains(&b.len()) {
                    st.boundary_blocks += 1;
                }
                st.fingerprints.insert((b.len(), req.de, req.load, model.exit, model.carry));
                log.push(jobj! {"request"=>req.to_json(), "block_len"=>b.len(), "exit"=>model.exit, "carry"=>model.carry});
                if st.sample.is_none() && k == 1 {
                    st.sample = Some(jobj! {"history"=>hid, "is128"=>is128, "block_lengths"=>J::Arr(blocks.iter().map(|b| J::from(b.len())).collect()), "requests"=>J::Arr(log.clone())});
                }
            }
        }
    }
}

fn gen_request_c10(rng: &mut Rng, b: Option<&Vec<u8>>, pokes: &mut Vec<(u16, Vec<u8>)>) -> LdReq {
    gen_request(rng, b.map(|x| x.as_slice()), &mut |a, d| pokes.push((a, d.to_vec())), false)
}

pub fn run(ctx: &Ctx) -> Evidence {
    let n_hist = ctx.scale(3000, 100_000) as usize;
    let shards = 64usize;
    let per = (n_hist + shards - 1) / shards;
    let only = replay_case(ctx);
    let res = par_map(ctx.jobs(), shards, |sh| {
        let mut st = Stats {
            histories: 0,
            requests: 0,
            eot_requests: 0,
            truncated_requests: 0,
            exits: [0; 5],
            loads_ok: 0,
            verifies_ok: 0,
            boundary_blocks: 0,
            m128: 0,
            rewinds: 0,
            locked_128k: 0,
            long_tapes: 0,
            fingerprints: HashSet::new(),
            sample: None,
        };
        for i in 0..per {
            if selected(&only, "C10", (sh * per + i) as u64) {
                run_history(ctx, (sh * per + i) as u64, &mut st);
            }
        }
        st
    });
    let mut ev = Evidence::new(
        "request histories (LOAD/VERIFY, matching/mismatching flag, DE exact/short/long/0/FFxx, IX anywhere incl. ROM and wrap) against random TAP \
         images (1..8 blocks, lengths 0..65535 incl. 127..130/255..258/383..386, bad checksums, truncated tails) on a fast-loading machine; after every \
         request IX, DE, carry, SP and all RAM are compared with the ld_bytes model of the next block; requests past the end are compared in lockstep \
         with a silent-tape twin. distinct = (block length, DE, LOAD/VERIFY, exit path, carry) shapes",
    );
    let mut fps = HashSet::new();
    let mut exits = [0u64; 5];
    let (mut reqs, mut eot, mut tr, mut lo, mut vo, mut bb, mut h, mut m128) = (0, 0, 0, 0, 0, 0, 0, 0);
    let mut rewinds = 0u64;
    let mut locked128 = 0u64;
    let mut long_tapes = 0u64;
    for r in res {
        reqs += r.requests;
        eot += r.eot_requests;
        tr += r.truncated_requests;
        lo += r.loads_ok;
        vo += r.verifies_ok;
        bb += r.boundary_blocks;
        h += r.histories;
        m128 += r.m128;
        rewinds += r.rewinds;
        locked128 += r.locked_128k;
        long_tapes += r.long_tapes;
        for i in 0..5 {
            exits[i] += r.exits[i];
        }
        fps.extend(r.fingerprints);
        if let Some(s) = r.sample {
            ev.sample(s);
        }
    }
    ev.evaluations = reqs + eot + tr;
    ev.distinct_nontrivial = fps.len() as u64;
    ev.add("histories", h as u64);
    ev.add("histories_128k", m128 as u64);
    ev.add("requests_with_block_compared", reqs as u64);
    ev.add("requests_past_end_of_tape", eot as u64);
    ev.add("requests_on_truncated_block", tr as u64);
    ev.add("successful_loads", lo as u64);
    ev.add("successful_verifies", vo as u64);
    ev.add("requests_on_buffer_boundary_blocks", bb as u64);
    ev.add("rewinds_between_requests", rewinds);
    ev.add("histories_on_a_locked_128k_with_ignored_paging_writes", locked128);
    ev.add("histories_on_long_tapes(huge block or > 64 KiB of blocks)", long_tapes);
    let names = ["parity-ok", "parity-bad", "flag-mismatch", "verify-mismatch", "out-of-bytes"];
    ev.add("exit_paths", J::Arr((0..5).map(|i| jobj! {"exit"=>names[i], "count"=>exits[i]}).collect()));
    ev.assumptions.push("stack window [SP-24,SP+4) excluded from the RAM comparison; stored ranges never overlap it".into());
    ev.assumptions.push("the ld_bytes model is validated against the real ROM by the system part of C11".into());
    let known_eot = ctx.is_known("c10-eot-returns-success").is_some() || ctx.is_known("c10-eot-cpu-state-disturbed").is_some();
    // coverage floors (requests after an end-of-tape finding are cut short, which is why the floor
    // on compared requests is relative to the histories, not to a nominal request count)
    if only.is_some() {
        return ev;
    }
    ctx.require("requests compared with the model", reqs as u64, n_hist as u64);
    ctx.require("requests past the end of the tape", eot as u64, n_hist as u64 / 2);
    for i in 0..5 {
        ctx.require(&format!("requests leaving by exit '{}'", names[i]), exits[i], 20);
    }
    ctx.require("successful LOADs", lo as u64, 50);
    ctx.require("successful VERIFYs", vo as u64, 20);
    ctx.require("requests on 127..130/255..258/383..386-byte blocks", bb as u64, 50);
    ctx.require("histories on the 128K", m128 as u64, 20);
    let _ = known_eot;
    ev
}
