//! C19 – audio arrives at exactly the configured rate and tracks the speaker bit.
//!
//! Observed: the samples popped through the public `Emulator::next_audio_sample` while generated
//! Z80 programs (DI, uncontended RAM at 0xA000) write port 0xFE (and, in the AY workload, the AY
//! ports). The machine is single-stepped, so for every `OUT (0xFE),A` the harness knows the frame
//! clock before and after the instruction; a frame boundary is the step at which the frame clock
//! wraps, and the host drains there (that is "draining at frame boundaries" as a host sees it).
//!
//! Oracles (from the statement):
//!  1. *count*: a host that drains at two consecutive frame boundaries receives exactly
//!     floor(rate/50) samples for that frame.
//!  2. *tracking*: the four output levels for port bits (4,3) = 00,01,10,11 are learnt per
//!     configuration from constant-level calibration frames (the mixing constants are not assumed;
//!     only: a constant port value gives a constant output, level(speaker, bit 4) > level(MIC,
//!     bit 3) > level(none) when the beeper is audible). Sample k of frame f is nominally taken at
//!     absolute time (f + k/spf)·FRAME. It must equal the level of *some* port value that was in
//!     force within [nominal − 1 sample − SLACK, nominal + 1 sample + SLACK]; a port value written
//!     by an OUT executing from clock a to clock b counts as in force from a (earliest) and its
//!     predecessor until b (latest). SLACK = 12 T covers the granularity at which an instruction-
//!     stepped emulator can sample the level. Samples whose window contains a single value must
//!     match exactly – that is what catches lost, duplicated or displaced edges, also across frame
//!     boundaries. Beeper disabled ⇒ no beeper contribution (all samples 0 with a silent AY).
//!     This oracle is applied whenever the AY is disabled or has never been written (its
//!     contribution is then identically 0).
//!  3. *bounds*: every sample finite and |s| ≤ B + (volume/100)·4.0 where B is the calibrated
//!     speaker+MIC level of the configuration (so volume 0 ⇒ silence) and 4.0 bounds three AY
//!     channels at full scale with equal-power panning and filter overshoot, at a master gain of
//!     at most volume/100 (rustzx uses volume/200; the statement only says "implied by the volume
//!     setting", so the looser reading is used).
//!  4. *queue bound*: hosts that drain never / sometimes (per boundary: everything, a random
//!     number, nothing): whenever such a host drains everything it receives fewer than 2·spf
//!     samples; if it also drained everything at the previous boundary it receives exactly spf.
//!
//! Known-defect routing: with the AY enabled *and sounding* at a sample rate below f_AY/64
//! (1 773 400/64 ≈ 27.7 kHz) AymPrecise's resampler diverges; a bound/finite violation under
//! exactly these conditions is reported under the key `ay-resampler-low-rate` (shared with C18).
//! Everything else is an ordinary violation.
use crate::host::{Cfg, Machine};
use crate::json::{hex, J};
use crate::report::{par_map, Ctx, Evidence};
use crate::rng::{fnv1a, Rng, FNV_INIT};
use std::collections::HashSet;

const SLACK_T: f64 = 12.0;
const AY_CLOCK: usize = 1_773_400;
const IDLE: u16 = 0x9000;
const PROG: u16 = 0xA000;

fn gen_cfg(rng: &mut Rng, want_ay: Option<bool>) -> Cfg {
    let is128 = rng.bool();
    let mut c = Cfg::of(is128);
    c.rate = match rng.below(10) {
        0 => 8000,
        1 => 11025,
        2 => 22050,
        3 => 44100,
        4 => 48000,
        5 => 96000,
        6 => 192000,
        7 => 384000,
        _ => 8000 + rng.below(376_001) as usize,
    };
    c.volume = match rng.below(8) {
        0 => 0,
        1 => 1,
        2 => 200,
        3 => 100,
        _ => rng.below(201) as u8,
    };
    c.ay = want_ay.unwrap_or_else(|| rng.bool());
    c.ay_mode = rng.below(3) as u8;
    c.beeper = !rng.chance(1, 6);
    c
}

fn cfg_json(c: &Cfg) -> J {
    jobj! {"is128"=>c.is128,"rate"=>c.rate as u64,"volume"=>c.volume,"ay"=>c.ay,"ay_mode"=>c.ay_mode,"beeper"=>c.beeper}
}

/// Emits a delay of roughly `t` T-states (exact value irrelevant – times are observed).
fn emit_delay(code: &mut Vec<u8>, t: u64) {
    if t < 4 {
        return;
    }
    if t < 40 {
        for _ in 0..t / 4 {
            code.push(0x00);
        }
    } else if t < 3300 {
        let n = ((t - 7) / 13).clamp(1, 255) as u8;
        code.extend_from_slice(&[0x06, n, 0x10, 0xFE]); // LD B,n ; DJNZ $
    } else {
        let n = (t / 26).clamp(1, 65535) as u16;
        code.extend_from_slice(&[0x01, n as u8, (n >> 8) as u8, 0x0B, 0x78, 0xB1, 0x20, 0xFB]); // LD BC,n; DEC BC; LD A,B; OR C; JR NZ,-5
    }
}

/// Random beeper program: LD A,v / OUT (0xFE),A / delay …, JP start.
fn gen_program(rng: &mut Rng, ay_writes: bool) -> Vec<u8> {
    let mut code = vec![];
    if ay_writes {
        // make the AY sound: random register file biased to loud tones, then a few random writes
        let mut regs: Vec<(u8, u8)> = vec![
            (7, rng.u8() & 0x3F & !(1 << rng.below(3))),
            (8, if rng.bool() { 0x0F } else { rng.u8() & 0x1F }),
            (9, rng.u8() & 0x1F),
            (10, if rng.bool() { 0x0F } else { rng.u8() & 0x1F }),
            (0, rng.u8()),
            (1, rng.u8() & 0x0F),
            (2, rng.u8()),
            (3, rng.u8() & 0x03),
            (4, rng.u8()),
            (5, rng.u8() & 0x01),
            (6, rng.u8()),
            (11, rng.u8()),
            (12, rng.u8() & 0x07),
            (13, rng.u8() & 0x0F),
        ];
        for _ in 0..rng.below(6) {
            regs.push((rng.below(16) as u8, rng.u8()));
        }
        for (r, v) in regs {
            // LD BC,FFFD ; LD A,r ; OUT (C),A ; LD B,BF ; LD A,v ; OUT (C),A
            code.extend_from_slice(&[0x01, 0xFD, 0xFF, 0x3E, r, 0xED, 0x79, 0x06, 0xBF, 0x3E, v, 0xED, 0x79]);
        }
    }
    let segs = 1 + rng.below(24);
    let style = rng.below(5);
    let mut level = rng.below(4) as u8;
    for _ in 0..segs {
        // mostly change the level, sometimes rewrite the same one (inaudible write)
        if !rng.chance(1, 8) {
            level = (level + 1 + rng.below(3) as u8) & 3;
        }
        let v = (level << 3) | (rng.u8() & 0xE7);
        code.extend_from_slice(&[0x3E, v, 0xD3, 0xFE]);
        let d = match style {
            0 => rng.below(40),                    // as fast as possible (18..58 T)
            1 => 40 + rng.below(400),              // kHz range
            2 => 400 + rng.below(8000),
            3 => 8000 + rng.below(70000),          // about one edge per frame
            _ => match rng.below(4) {
                0 => rng.below(40),
                1 => rng.below(1000),
                2 => rng.below(10000),
                _ => rng.below(80000),
            },
        };
        // now and then the program sleeps until the next interrupt right after (or shortly after)
        // a write: EI; HALT (the ROM's IM 1 handler does not write to the ULA port)
        if rng.chance(1, 6) {
            emit_delay(&mut code, rng.below(3) * 4 * rng.below(8));
            code.extend_from_slice(&[0xFB, 0x76]);
        } else {
            emit_delay(&mut code, d);
        }
    }
    let [lo, hi] = PROG.to_le_bytes();
    code.extend_from_slice(&[0xC3, lo, hi]);
    code
}

struct Levels {
    /// output per port bits (4,3) as index ear<<1|mic, left and right
    l: [f32; 4],
    r: [f32; 4],
    audible: bool,
}

fn park(m: &mut Machine, at: u16) {
    let mut rf = m.regs();
    rf.pc = at;
    rf.iff1 = false;
    rf.iff2 = false;
    rf.halted = false;
    rf.sp = 0xFF00;
    rf.im = 1;
    rf.iy = 0x5C3A;
    m.set_regs(&rf);
}

/// Constant-level calibration. Returns None (after reporting) if a constant port value does not
/// give a constant output.
fn calibrate(ctx: &Ctx, m: &mut Machine, wit: &dyn Fn() -> J, counts: &mut Vec<usize>) -> Option<Levels> {
    m.poke_bytes(IDLE, &[0x18, 0xFE]); // JR $
    park(m, IDLE);
    let mut lv = Levels { l: [0.0; 4], r: [0.0; 4], audible: false };
    for idx in 0..4u8 {
        m.out(0x00FE, idx << 3 | 0x05);
        m.run_frames(1);
        let _ = m.drain_audio();
        m.run_frames(1);
        let s = m.drain_audio();
        counts.push(s.len());
        if s.is_empty() {
            return None;
        }
        let (l0, r0) = s[s.len() / 2];
        if s.iter().any(|(l, r)| *l != l0 || *r != r0) {
            ctx.violation("constant-port-value-gives-varying-output", "a frame with a constant speaker/MIC level does not produce a constant sample value",
                { let mut w = wit(); w.set("calibration_port_bits", J::from(idx)); w });
            return None;
        }
        lv.l[idx as usize] = l0;
        lv.r[idx as usize] = r0;
    }
    lv.audible = lv.l[2] != lv.l[0] || lv.r[2] != lv.r[0] || lv.l[1] != lv.l[0] || lv.l[3] != lv.l[0];
    Some(lv)
}

#[derive(Default)]
struct Stats {
    cases: u64,
    frames: u64,
    samples: u64,
    exact_samples: u64,
    edges_seen: u64,
    port_writes: u64,
    boundary_writes: u64,
    settings_reapplied: u64,
    off_on_toggles: u64,
    snapshot_roundtrips: u64,
    szx_time_jumps: u64,
    fast_forward_preludes: u64,
    long_rests: u64,
    rest_frames: u64,
    drains: u64,
    undrained_runs: u64,
    ay_cases: u64,
    ay_loud_cases: u64,
    distinct: HashSet<u64>,
    sample: Option<J>,
}

struct OutEv {
    a: f64,
    b: f64,
    lvl: u8,
}

fn bound_of(cfg: &Cfg, lv: &Levels) -> f64 {
    let b = lv.l.iter().chain(lv.r.iter()).fold(0.0f64, |a, x| a.max(x.abs() as f64));
    b + cfg.volume as f64 / 100.0 * 4.0 + 1e-6
}

fn check_bounds(ctx: &Ctx, cfg: &Cfg, ay_sounding: bool, bound: f64, s: &[(f32, f32)], frame: u64, wit: &dyn Fn() -> J) -> bool {
    for (k, (l, r)) in s.iter().enumerate() {
        let bad = !l.is_finite() || !r.is_finite() || (l.abs() as f64) > bound || (r.abs() as f64) > bound;
        if bad {
            let mut w = wit();
            w.set("frame", J::from(frame));
            w.set("sample_index", J::from(k as u64));
            w.set("left", J::from(*l as f64));
            w.set("right", J::from(*r as f64));
            w.set("bound", J::from(bound));
            if cfg.ay && ay_sounding && cfg.rate * 64 < AY_CLOCK {
                ctx.violation("ay-resampler-low-rate", &format!("AY enabled at {} Hz (< f_AY/64): sample {:e}/{:e} exceeds the bound {:.3} (AymPrecise resampler diverges)", cfg.rate, l, r, bound), w);
            } else {
                ctx.violation("sample-out-of-bounds", &format!("sample {:e}/{:e} not finite or beyond the bound {:.3} implied by volume {}", l, r, bound, cfg.volume), w);
            }
            return false;
        }
    }
    true
}

/// Tracking workload: single-stepped program, drained at every frame boundary.
fn tracking_case(ctx: &Ctx, rng: &mut Rng, id: u64, st: &mut Stats) {
    let ay_loud = rng.chance(1, 4);
    let cfg = gen_cfg(rng, if ay_loud { Some(true) } else { None });
    // a sixth of the cases: the machine rests for 5..9 emulated seconds before the program runs, and
    // the program's first port write comes somewhere inside a frame (a leading delay)
    let long_rest = rng.chance(1, 6);
    let prog = if long_rest {
        let mut p = vec![];
        emit_delay(&mut p, 3000 + rng.below(60000));
        p.extend(gen_program(rng, ay_loud));
        p
    } else {
        gen_program(rng, ay_loud)
    };
    let nframes = 3 + rng.below(6);
    let wit = || jobj! {"monitor"=>"tracking","case"=>id,"cfg"=>cfg_json(&cfg),"program_at_a000_hex"=>hex(&prog),"frames"=>nframes,"ay_written"=>ay_loud};
    let mut m = Machine::new(cfg);
    let spf = cfg.rate / 50;
    let frame_len = m.frame_len() as f64;
    let mut counts = vec![];
    let Some(lv) = calibrate(ctx, &mut m, &wit, &mut counts) else {
        if counts.iter().any(|c| *c == 0) {
            ctx.violation("no-audio-produced", "a drained frame delivered no samples at all", wit());
        }
        return;
    };
    st.cases += 1;
    if cfg.ay {
        st.ay_cases += 1;
    }
    if ay_loud {
        st.ay_loud_cases += 1;
    }
    for c in counts.iter() {
        st.frames += 1;
        if *c != spf {
            ctx.violation("samples-per-frame", &format!("a frame drained at both boundaries delivered {} samples, floor({}/50) = {}", c, cfg.rate, spf), wit());
            return;
        }
    }
    // level sanity
    if cfg.beeper && cfg.volume > 0 {
        if !lv.audible {
            ctx.violation("beeper-inaudible", "beeper enabled and volume > 0 but the port bits do not change the output", wit());
            return;
        }
        let d = |i: usize| lv.l[i] - lv.l[0];
        if !(d(2) > d(1) && d(1) > 0.0) {
            ctx.violation("speaker-mic-levels", &format!("level(speaker bit 4)={} must exceed level(MIC bit 3)={} which must exceed 0", d(2), d(1)),
                { let mut w = wit(); w.set("levels_left", J::Arr(lv.l.iter().map(|x| J::from(*x as f64)).collect())); w });
            return;
        }
    }
    if (!cfg.beeper || cfg.volume == 0) && lv.audible {
        ctx.violation("beeper-disabled-but-audible", "beeper disabled or volume 0, yet the port bits change the output", wit());
        return;
    }
    let bound = bound_of(&cfg, &lv);
    // ---- history: now and then the host has fast-forwarded before (maximum-speed pass of several
    // frames that ended at a breakpoint), then returned to normal speed – audio must be back
    if rng.chance(1, 5) {
        m.poke_bytes(0x9F00, &[0x18, 0xFE]);
        park(&mut m, 0x9F00);
        crate::host::set_stopwatch(crate::host::SwScript::Zero);
        m.dbg().calls = 0;
        m.dbg().mode = crate::host::DbgMode::AtCalls(vec![9000 + rng.below(9000)]);
        m.emu.set_speed(rustzx_core::EmulationMode::Max);
        let _ = m.emu.emulate_frames(std::time::Duration::from_secs(1000));
        m.dbg().mode = crate::host::DbgMode::Never;
        m.emu.set_speed(rustzx_core::EmulationMode::FrameCount(1));
        m.run_frames(1);
        m.drain_audio();
        st.fast_forward_preludes += 1;
    }
    // ---- history: the machine has been silent for a long while (5..9 emulated seconds of a constant
    // port level, drained every frame) before the program makes its first edge
    if long_rest {
        m.poke_bytes(0x9F00, &[0x18, 0xFE]);
        park(&mut m, 0x9F00);
        let rest = 255 + rng.below(200);
        for _ in 0..rest {
            m.run_frames(1);
            m.drain_audio();
        }
        st.long_rests += 1;
        st.rest_frames += rest;
    }
    // ---- run the program
    m.poke_bytes(PROG, &prog);
    // last calibration value is in force (bits 11); make it a known event at t0
    park(&mut m, PROG);
    let mut frame: u64 = 0; // frames completed since t0 (t0 = clock at start within frame 0)
    let mut prev_clock = m.clock();
    let mut evs: Vec<OutEv> = vec![OutEv { a: -1e18, b: -1e18, lvl: 3 }];
    let mut steps = 0u64;
    let max_steps = (nframes + 2) * 40_000;
    let mut frames_done = 0u64;
    let mut pending: Vec<(u64, Vec<(f32, f32)>)> = vec![];
    let host_reapplies = rng.chance(1, 3);
    let host_toggles = rng.chance(1, 4);
    let host_snapshots = rng.chance(1, 5);
    let host_szx = !host_snapshots && !ay_loud && rng.chance(1, 5);
    while frames_done < nframes && steps < max_steps {
        let pc = m.cpu().regs.get_pc();
        let is_out = m.peek(pc) == 0xD3 && m.peek(pc.wrapping_add(1)) == 0xFE;
        let acc = if is_out { m.cpu().regs.get_acc() } else { 0 };
        m.step();
        steps += 1;
        // with IFF1 set (the ROM's IM 1 handler returns with EI) the step may have accepted the frame
        // interrupt instead of executing the OUT it was looking at; the OUT then runs after the
        // handler has returned and is logged then
        let is_out = is_out && m.cpu().regs.get_pc() == pc.wrapping_add(2);
        let now = m.clock();
        let wrapped = now < prev_clock;
        let abs_before = frame as f64 * frame_len + prev_clock as f64;
        if wrapped {
            frame += 1;
        }
        let abs_after = frame as f64 * frame_len + now as f64;
        if is_out {
            evs.push(OutEv { a: abs_before, b: abs_after, lvl: (acc >> 3) & 3 });
            st.port_writes += 1;
            if wrapped || prev_clock as f64 > frame_len - 30.0 || (now as f64) < 30.0 {
                st.boundary_writes += 1;
            }
        }
        prev_clock = now;
        // a host may switch sound (or the speed) off and straight on again while the emulation is
        // stopped – between two instructions or at the frame end before it takes the samples: nothing
        // that has been produced may get lost or move
        if host_toggles && (wrapped && frame % 2 == 0 || rng.chance(1, 3000)) {
            if rng.bool() {
                m.emu.set_sound(false);
                m.emu.set_sound(true);
            } else {
                m.emu.set_speed(rustzx_core::EmulationMode::Max);
                m.emu.set_speed(rustzx_core::EmulationMode::FrameCount(1));
            }
            st.off_on_toggles += 1;
        }
        // the host takes a snapshot at the frame end and loads it straight back (same state) before it
        // fetches the frame's samples: the frame it has just emulated is delivered all the same
        if host_snapshots && wrapped && frame == 2 {
            let mut rec = crate::host::VecRecorder { data: vec![], chunk: 0 };
            if m.emu.save_snapshot(rustzx_core::host::SnapshotRecorder::Sna(&mut rec)).is_ok() {
                if m.emu.load_snapshot(rustzx_core::host::Snapshot::Sna(crate::host::mem_asset(rec.data))).is_ok() {
                    st.snapshot_roundtrips += 1;
                } else {
                    ctx.inconclusive("C19: reloading the emulator's own snapshot failed (C13's business)");
                    return;
                }
            }
        }
        if wrapped {
            let s = m.drain_audio();
            st.drains += 1;
            if s.len() != spf {
                ctx.violation("samples-per-frame", &format!("a frame drained at both boundaries delivered {} samples, floor({}/50) = {}", s.len(), cfg.rate, spf),
                    { let mut w = wit(); w.set("frame", J::from(frame - 1)); w });
                return;
            }
            pending.push((frame - 1, s));
            frames_done += 1;
            // between frames the host may load an SZX snapshot of this very state whose frame position
            // (dwCyclesStart) lies further on in the frame: emulated time jumps there, and the samples
            // after the jump still sit at their frame times
            if host_szx && frames_done == 1 {
                let c = crate::spec_snap::capture(&mut m);
                let x = 2000 + rng.below(frame_len as u64 - 6000) as usize;
                let lvl = evs.last().map(|e| e.lvl).unwrap_or(0);
                let a = crate::spec_snap::Abs { is128: cfg.is128, r: c.r, ei_last: false, border: c.border, latch: c.latch & 0x1F, pages: c.pages, ay: None, mouse: None, keyb: None, cycles: x as u32, fe_hi: lvl << 3 };
                let bytes = crate::spec_snap::write_szx(&a, &crate::spec_snap::SzxOpts::plain(), rng);
                if !matches!(crate::spec_snap::load_szx(&mut m, &bytes), Ok(Ok(()))) {
                    ctx.inconclusive("C19: reloading the machine's own state from an SZX failed (C14's business)");
                    return;
                }
                if m.clock() > 1000 {
                    st.szx_time_jumps += 1;
                }
                prev_clock = m.clock();
            }
            // between frames a host may re-apply its sound settings (same values): that changes
            // nothing the program has set up – in particular not the level the speaker is held at
            if host_reapplies && frames_done % 2 == 1 {
                m.emu.set_ay_enabled(cfg.ay);
                m.emu.set_sound(true);
                st.settings_reapplied += 1;
            }
        }
    }
    if frames_done < nframes {
        ctx.inconclusive(&format!("C19 tracking case {}: program did not complete {} frames within the step budget", id, nframes));
        return;
    }
    evs.push(OutEv { a: 1e18, b: 1e18, lvl: 0 });
    // ---- judge
    let ay_silent = !cfg.ay || !ay_loud;
    let period = frame_len / spf as f64;
    let mut lo_i = 0usize; // first event whose in-force interval may still reach the window
    for (f, s) in pending.iter() {
        st.frames += 1;
        st.samples += s.len() as u64;
        if !check_bounds(ctx, &cfg, ay_loud, bound, s, *f, &wit) {
            return;
        }
        if !ay_silent {
            continue;
        }
        let mut prev_lvl: Option<f32> = None;
        for (k, (l, r)) in s.iter().enumerate() {
            let nominal = *f as f64 * frame_len + k as f64 * period;
            let w_lo = nominal - period - SLACK_T;
            let w_hi = nominal + period + SLACK_T;
            // value i is in force during [evs[i].a, evs[i+1].b]
            while lo_i + 1 < evs.len() && evs[lo_i + 1].b < w_lo {
                lo_i += 1;
            }
            let mut set = 0u8;
            let mut i = lo_i;
            while i + 1 < evs.len() && evs[i].a <= w_hi {
                if evs[i + 1].b >= w_lo {
                    set |= 1 << evs[i].lvl;
                }
                i += 1;
            }
            // before the program started the calibration value (3) was in force – already evs[0]
            let ok = (0..4).any(|v| set & (1 << v) != 0 && lv.l[v] == *l && lv.r[v] == *r);
            if set.count_ones() == 1 {
                st.exact_samples += 1;
            }
            if let Some(p) = prev_lvl {
                if p != *l {
                    st.edges_seen += 1;
                }
            }
            prev_lvl = Some(*l);
            if !ok {
                let key = if !cfg.beeper { "beeper-disabled-but-audible" } else { "sample-does-not-track-port" };
                let near: Vec<J> = evs.iter().filter(|e| e.b > nominal - 6.0 * period - 100.0 && e.a < nominal + 6.0 * period + 100.0)
                    .take(12).map(|e| jobj!{"t_from"=>e.a,"t_to"=>e.b,"bits43"=>e.lvl}).collect();
                let mut w = wit();
                w.set("frame", J::from(*f));
                w.set("sample_index", J::from(k as u64));
                w.set("nominal_T_abs", J::from(nominal));
                w.set("got_left", J::from(*l as f64));
                w.set("got_right", J::from(*r as f64));
                w.set("allowed_port_bits_mask", J::from(set));
                w.set("levels_left", J::Arr(lv.l.iter().map(|x| J::from(*x as f64)).collect()));
                w.set("nearby_port_writes", J::Arr(near));
                ctx.violation(key, &format!("frame {} sample {}: value {} is not the level of any port value in force within one sample (+{} T) of its nominal time", f, k, l, SLACK_T), w);
                return;
            }
        }
    }
    let mut h = FNV_INIT;
    fnv1a(&mut h, &[cfg.is128 as u8, cfg.ay as u8, cfg.beeper as u8, cfg.volume, cfg.ay_mode, ay_loud as u8]);
    fnv1a(&mut h, &(cfg.rate as u32).to_le_bytes());
    fnv1a(&mut h, &prog);
    st.distinct.insert(h);
    if st.sample.is_none() {
        st.sample = Some(jobj! {"monitor"=>"tracking","cfg"=>cfg_json(&cfg),"frames"=>nframes,"port_writes"=>(evs.len()-2) as u64,"program_bytes"=>prog.len() as u64});
    }
}

/// Queue workload: hosts that drain always / sometimes / never.
fn queue_case(ctx: &Ctx, rng: &mut Rng, id: u64, st: &mut Stats) {
    let ay_loud = rng.chance(1, 3);
    let cfg = gen_cfg(rng, if ay_loud { Some(true) } else { None });
    let prog = gen_program(rng, ay_loud);
    let mut m = Machine::new(cfg);
    let spf = cfg.rate / 50;
    let nframes = 4 + rng.below(40);
    let policy = rng.below(4); // 0 always, 1 never (drain at the end), 2 random mix, 3 K undrained then drain, repeated
    let rom = rng.chance(1, 3);
    let mut counts = vec![];
    let w0 = || jobj! {"monitor"=>"queue","case"=>id,"cfg"=>cfg_json(&cfg)};
    let Some(lv) = calibrate(ctx, &mut m, &w0, &mut counts) else { return };
    m.poke_bytes(PROG, &prog);
    park(&mut m, PROG);
    if rom {
        // sometimes run the ROM from reset with interrupts instead (its AY/port activity is unknown to the harness)
        let mut rf = m.regs();
        rf.pc = 0;
        m.set_regs(&rf);
    }
    let ay_loud = ay_loud || rom;
    let mut sched: Vec<String> = vec![];
    let wit = |sched: &Vec<String>| jobj! {"monitor"=>"queue","case"=>id,"cfg"=>cfg_json(&cfg),"program_at_a000_hex"=>hex(&prog),"policy"=>policy,"rom_from_reset"=>rom,
        "schedule"=>J::Arr(sched.iter().map(|s|J::from(s.as_str())).collect())};
    let mut prev_full = false;
    let mut undrained = 0u64;
    let k_run = 1 + rng.below(12);
    let bound = bound_of(&cfg, &lv);
    st.cases += 1;
    for f in 0..nframes {
        m.run_frames(1);
        st.frames += 1;
        let act = match policy {
            0 => 0,
            1 => if f + 1 == nframes { 0 } else { 2 },
            2 => rng.below(3),
            _ => if undrained >= k_run { 0 } else { 2 },
        };
        match act {
            0 => {
                let s = m.drain_audio();
                sched.push(format!("all:{}", s.len()));
                st.drains += 1;
                st.samples += s.len() as u64;
                if undrained > 0 {
                    st.undrained_runs += 1;
                }
                if s.len() >= 2 * spf {
                    ctx.violation("audio-queue-unbounded", &format!("after {} undrained frame boundaries the host received {} samples (two frames' worth is {})", undrained, s.len(), 2 * spf), wit(&sched));
                    return;
                }
                if prev_full && s.len() != spf {
                    ctx.violation("samples-per-frame", &format!("a frame drained at both boundaries delivered {} samples, floor({}/50) = {}", s.len(), cfg.rate, spf), wit(&sched));
                    return;
                }
                let w = || wit(&sched);
                if !check_bounds(ctx, &cfg, ay_loud, bound.max(0.0), &s, f, &w) {
                    return;
                }
                prev_full = true;
                undrained = 0;
            }
            1 => {
                let want = rng.below(spf as u64 * 2 + 2);
                let mut got = 0;
                while got < want {
                    if m.emu.next_audio_sample().is_none() {
                        break;
                    }
                    got += 1;
                }
                sched.push(format!("pop{}:{}", want, got));
                st.samples += got;
                if got >= 2 * spf as u64 {
                    ctx.violation("audio-queue-unbounded", &format!("a partial drain received {} samples (two frames' worth is {})", got, 2 * spf), wit(&sched));
                    return;
                }
                prev_full = got < want; // queue ran empty = drained everything
                if !prev_full {
                    undrained += 1;
                } else {
                    undrained = 0;
                }
            }
            _ => {
                sched.push("none".into());
                prev_full = false;
                undrained += 1;
            }
        }
    }
    let mut h = FNV_INIT;
    fnv1a(&mut h, &[9, cfg.is128 as u8, cfg.ay as u8, cfg.beeper as u8, cfg.volume, policy as u8, k_run as u8, nframes as u8]);
    fnv1a(&mut h, &(cfg.rate as u32).to_le_bytes());
    st.distinct.insert(h);
}

pub fn run(ctx: &Ctx) -> Evidence {
    let n_track = ctx.scale(1_600, 60_000) as usize;
    let n_queue = ctx.scale(1_600, 60_000) as usize;
    let shards = 64usize;
    let res = par_map(ctx.jobs(), shards, |sh| {
        let mut st = Stats::default();
        for (stream, n, f) in [(0x1u64, n_track, tracking_case as fn(&Ctx, &mut Rng, u64, &mut Stats)), (0x2, n_queue, queue_case)] {
            let per = (n + shards - 1) / shards;
            for i in 0..per {
                let id = (sh * per + i) as u64;
                let mut rng = Rng::fork(ctx.seed ^ 0xC19 ^ (stream << 40), id);
                f(ctx, &mut rng, id, &mut st);
            }
        }
        st
    });
    let mut ev = Evidence::new("tracking: random programs in uncontended RAM writing port 0xFE every 18 T … 80 000 T, sometimes sleeping in EI;HALT right after a write, the host sometimes re-applying its sound settings between frames (optionally programming a loud AY first), both machines, rates 8000…384000 (incl. non-multiples of 50), volumes 0…200, beeper/AY on/off; single-stepped, drained at every frame boundary: count == floor(rate/50), every sample finite and within the volume bound, and (AY silent) equal to the calibrated level of a port value in force within one sample + 12 T of its nominal time. queue: always/never/random/K-undrained drain policies at frame boundaries: a full drain yields < 2·spf samples, == spf after a previous full drain. distinct = distinct (configuration, program / policy) fingerprints");
    let mut tot = Stats::default();
    for r in res {
        tot.cases += r.cases;
        tot.frames += r.frames;
        tot.samples += r.samples;
        tot.exact_samples += r.exact_samples;
        tot.edges_seen += r.edges_seen;
        tot.port_writes += r.port_writes;
        tot.boundary_writes += r.boundary_writes;
        tot.settings_reapplied += r.settings_reapplied;
        tot.off_on_toggles += r.off_on_toggles;
        tot.snapshot_roundtrips += r.snapshot_roundtrips;
        tot.szx_time_jumps += r.szx_time_jumps;
        tot.fast_forward_preludes += r.fast_forward_preludes;
        tot.long_rests += r.long_rests;
        tot.rest_frames += r.rest_frames;
        tot.drains += r.drains;
        tot.undrained_runs += r.undrained_runs;
        tot.ay_cases += r.ay_cases;
        tot.ay_loud_cases += r.ay_loud_cases;
        tot.distinct.extend(r.distinct);
        if let Some(s) = r.sample {
            ev.sample(s);
        }
    }
    ev.evaluations = tot.frames;
    ev.distinct_nontrivial = tot.distinct.len() as u64;
    ev.add_num("cases", tot.cases);
    ev.add_num("frames_checked", tot.frames);
    ev.add_num("samples_checked", tot.samples);
    ev.add_num("samples_with_single_allowed_level", tot.exact_samples);
    ev.add_num("level_changes_seen_in_audio", tot.edges_seen);
    ev.add_num("port_fe_writes", tot.port_writes);
    ev.add_num("port_fe_writes_within_30T_of_a_frame_boundary", tot.boundary_writes);
    ev.add_num("host_reapplied_sound_settings_between_frames", tot.settings_reapplied);
    ev.add_num("sound_or_speed_switched_off_and_on_while_stopped", tot.off_on_toggles);
    ev.add_num("own_snapshot_saved_and_reloaded_before_a_drain", tot.snapshot_roundtrips);
    ev.add_num("szx_loads_moving_the_frame_position_forward", tot.szx_time_jumps);
    ev.add_num("cases_after_a_fast_forward_pass_ended_by_a_breakpoint", tot.fast_forward_preludes);
    ev.add_num("cases_after_a_rest_of_more_than_5_s_of_constant_output", tot.long_rests);
    ev.add_num("frames_of_constant_output_before_those_cases", tot.rest_frames);
    ev.add_num("full_drains", tot.drains);
    ev.add_num("full_drains_after_undrained_frames", tot.undrained_runs);
    ev.add_num("ay_enabled_cases", tot.ay_cases);
    ev.add_num("ay_sounding_cases", tot.ay_loud_cases);
    ctx.require("frames checked", tot.frames, 2_000);
    ctx.require("samples checked", tot.samples, 1_000_000);
    ctx.require("samples with a single allowed level", tot.exact_samples, 200_000);
    ctx.require("level changes seen in the audio", tot.edges_seen, 5_000);
    ctx.require("port writes near a frame boundary", tot.boundary_writes, 20);
    ctx.require("full drains after undrained frames", tot.undrained_runs, 100);
    ctx.require("AY-sounding cases", tot.ay_loud_cases, 50);
    ev.assumptions.push("a port value written by OUT (n),A is taken to become effective somewhere between the start and the end of that instruction; 12 T of additional slack for instruction-granular sampling".into());
    ev.assumptions.push("bound: calibrated speaker+MIC level + (volume/100)*4.0 (three AY channels at full scale incl. filter overshoot at a master gain of at most volume/100)".into());
    ev
}
