//! Independent reference model of the NMOS Zilog Z80 ("FUSE style": one flat match per opcode
//! page, flags computed arithmetically, explicit MEMPTR (WZ) and Q). Written from the Zilog
//! manual, Sean Young's "Undocumented Z80 documented", boo_boo's MEMPTR note, Patrik Rak's Q
//! research and the FUSE contention tables; shares no code or tables with rustzx.
//!
//! `step()` has the granularity of `rustzx_z80::Z80::emulate`: optional interrupt entry, then one
//! opcode or one pending-prefix unit (DD/FD followed by another prefix byte ends the unit).
//! Besides the new state it produces the canonical bus-cycle list of the step.

pub const FC: u8 = 0x01;
pub const FN: u8 = 0x02;
pub const FP: u8 = 0x04;
pub const F3: u8 = 0x08;
pub const FH: u8 = 0x10;
pub const F5: u8 = 0x20;
pub const FZ: u8 = 0x40;
pub const FS: u8 = 0x80;

#[derive(Clone, Copy, PartialEq, Eq, Debug)]
pub enum Cy {
    /// 4-T opcode fetch at address
    M1(u16),
    /// 3-T memory read (addr, data)
    Rd(u16, u8),
    /// 3-T memory write (addr, data)
    Wr(u16, u8),
    /// one internal T-state with `addr` on the bus
    Dl(u16),
    /// n internal T-states without a (judged) address: interrupt acknowledge
    Ack(u8),
    /// 4-T port read (port, data)
    In(u16, u8),
    /// 4-T port write
    Out(u16, u8),
}

impl Cy {
    pub fn tstates(&self) -> u32 {
        match self {
            Cy::M1(_) => 4,
            Cy::Rd(..) | Cy::Wr(..) => 3,
            Cy::Dl(_) => 1,
            Cy::Ack(n) => *n as u32,
            Cy::In(..) | Cy::Out(..) => 4,
        }
    }
}

pub fn total_t(c: &[Cy]) -> u32 {
    c.iter().map(|x| x.tstates()).sum()
}

#[derive(Clone, Copy, PartialEq, Eq, Debug, Default)]
pub struct RZ {
    pub af: u16,
    pub bc: u16,
    pub de: u16,
    pub hl: u16,
    pub af_: u16,
    pub bc_: u16,
    pub de_: u16,
    pub hl_: u16,
    pub ix: u16,
    pub iy: u16,
    pub sp: u16,
    pub pc: u16,
    pub wz: u16,
    pub i: u8,
    pub r: u8,
    pub iff1: bool,
    pub iff2: bool,
    pub im: u8,
    pub halted: bool,
    /// Q latch: copy of F if the last instruction modified the flags, else 0
    pub q: u8,
    /// previous instruction was EI or DI: no interrupt at the coming boundary
    pub after_eidi: bool,
    /// pending prefix byte of an unfinished DD/FD chain (0 = none; DD, FD or ED)
    pub prefix: u8,
}

pub trait RefBus {
    fn rd(&mut self, a: u16) -> u8;
    fn wr(&mut self, a: u16, v: u8);
    fn inp(&mut self, p: u16) -> u8;
    fn outp(&mut self, p: u16, v: u8);
    fn int_line(&self) -> bool;
    fn nmi_line(&self) -> bool;
    fn int_vector(&mut self) -> u8 {
        0xFF
    }
}

/// What happened in a step (for monitors that need to classify variants)
#[derive(Clone, Copy, Default, Debug, PartialEq, Eq)]
pub struct StepInfo {
    pub int_accepted: bool,
    pub nmi_accepted: bool,
    /// the step only consumed prefix bytes (DD/FD followed by DD/FD/ED)
    pub prefix_only: bool,
    /// encoding page: 0 none, 1 CB, 2 ED, 3 DD, 4 FD, 5 DDCB, 6 FDCB
    pub page: u8,
    pub opcode: u8,
    /// conditional taken / repeat continues
    pub taken: bool,
}

fn parity(v: u8) -> u8 {
    if v.count_ones() & 1 == 0 {
        FP
    } else {
        0
    }
}
fn sz53(v: u8) -> u8 {
    (v & (FS | F5 | F3)) | if v == 0 { FZ } else { 0 }
}
fn sz53p(v: u8) -> u8 {
    sz53(v) | parity(v)
}

pub struct Ref<'a, B: RefBus> {
    pub s: RZ,
    pub bus: &'a mut B,
    pub cy: Vec<Cy>,
    pub info: StepInfo,
    last_q: u8,
}

impl<'a, B: RefBus> Ref<'a, B> {
    pub fn new(s: RZ, bus: &'a mut B) -> Self {
        Ref { s, bus, cy: Vec::with_capacity(32), info: StepInfo::default(), last_q: 0 }
    }
    // ---- register helpers
    fn a(&self) -> u8 {
        (self.s.af >> 8) as u8
    }
    fn f(&self) -> u8 {
        self.s.af as u8
    }
    fn set_a(&mut self, v: u8) {
        self.s.af = (self.s.af & 0x00FF) | (v as u16) << 8;
    }
    /// set F as the result of a flag-modifying instruction (updates Q)
    fn set_f(&mut self, v: u8) {
        self.s.af = (self.s.af & 0xFF00) | v as u16;
        self.s.q = v;
    }
    fn b(&self) -> u8 {
        (self.s.bc >> 8) as u8
    }
    fn c(&self) -> u8 {
        self.s.bc as u8
    }
    fn set_b(&mut self, v: u8) {
        self.s.bc = (self.s.bc & 0x00FF) | (v as u16) << 8;
    }
    fn ir(&self) -> u16 {
        (self.s.i as u16) << 8 | self.s.r as u16
    }
    fn inc_r(&mut self) {
        self.s.r = (self.s.r & 0x80) | (self.s.r.wrapping_add(1) & 0x7F);
    }
    /// 8-bit register by code 0..7 (6 invalid here), idx: 0 HL, 1 IX, 2 IY substitution for H/L
    fn r8(&self, code: u8, idx: u8) -> u8 {
        match code {
            0 => (self.s.bc >> 8) as u8,
            1 => self.s.bc as u8,
            2 => (self.s.de >> 8) as u8,
            3 => self.s.de as u8,
            4 => (self.rp_hl(idx) >> 8) as u8,
            5 => self.rp_hl(idx) as u8,
            7 => self.a(),
            _ => unreachable!(),
        }
    }
    fn set_r8(&mut self, code: u8, idx: u8, v: u8) {
        match code {
            0 => self.s.bc = (self.s.bc & 0xFF) | (v as u16) << 8,
            1 => self.s.bc = (self.s.bc & 0xFF00) | v as u16,
            2 => self.s.de = (self.s.de & 0xFF) | (v as u16) << 8,
            3 => self.s.de = (self.s.de & 0xFF00) | v as u16,
            4 => {
                let x = (self.rp_hl(idx) & 0xFF) | (v as u16) << 8;
                self.set_rp_hl(idx, x)
            }
            5 => {
                let x = (self.rp_hl(idx) & 0xFF00) | v as u16;
                self.set_rp_hl(idx, x)
            }
            7 => self.set_a(v),
            _ => unreachable!(),
        }
    }
    fn rp_hl(&self, idx: u8) -> u16 {
        match idx {
            0 => self.s.hl,
            1 => self.s.ix,
            _ => self.s.iy,
        }
    }
    fn set_rp_hl(&mut self, idx: u8, v: u16) {
        match idx {
            0 => self.s.hl = v,
            1 => self.s.ix = v,
            _ => self.s.iy = v,
        }
    }
    /// register pair by code (BC,DE,HL/IX/IY,SP)
    fn rp(&self, p: u8, idx: u8) -> u16 {
        match p {
            0 => self.s.bc,
            1 => self.s.de,
            2 => self.rp_hl(idx),
            _ => self.s.sp,
        }
    }
    fn set_rp(&mut self, p: u8, idx: u8, v: u16) {
        match p {
            0 => self.s.bc = v,
            1 => self.s.de = v,
            2 => self.set_rp_hl(idx, v),
            _ => self.s.sp = v,
        }
    }
    // ---- bus helpers
    fn m1(&mut self) -> u8 {
        let a = self.s.pc;
        self.cy.push(Cy::M1(a));
        let v = self.bus.rd(a);
        self.s.pc = a.wrapping_add(1);
        self.inc_r();
        v
    }
    fn rd(&mut self, a: u16) -> u8 {
        let v = self.bus.rd(a);
        self.cy.push(Cy::Rd(a, v));
        v
    }
    fn wr(&mut self, a: u16, v: u8) {
        self.cy.push(Cy::Wr(a, v));
        self.bus.wr(a, v);
    }
    fn dl(&mut self, a: u16, n: usize) {
        for _ in 0..n {
            self.cy.push(Cy::Dl(a));
        }
    }
    fn imm8(&mut self) -> u8 {
        let a = self.s.pc;
        self.s.pc = a.wrapping_add(1);
        self.rd(a)
    }
    fn imm16(&mut self) -> u16 {
        let l = self.imm8();
        let h = self.imm8();
        (h as u16) << 8 | l as u16
    }
    fn rd16(&mut self, a: u16) -> u16 {
        let l = self.rd(a);
        let h = self.rd(a.wrapping_add(1));
        (h as u16) << 8 | l as u16
    }
    fn wr16(&mut self, a: u16, v: u16) {
        self.wr(a, v as u8);
        self.wr(a.wrapping_add(1), (v >> 8) as u8);
    }
    fn push(&mut self, v: u16) {
        self.s.sp = self.s.sp.wrapping_sub(1);
        self.wr(self.s.sp, (v >> 8) as u8);
        self.s.sp = self.s.sp.wrapping_sub(1);
        self.wr(self.s.sp, v as u8);
    }
    fn pop(&mut self) -> u16 {
        let l = self.rd(self.s.sp);
        self.s.sp = self.s.sp.wrapping_add(1);
        let h = self.rd(self.s.sp);
        self.s.sp = self.s.sp.wrapping_add(1);
        (h as u16) << 8 | l as u16
    }
    fn port_in(&mut self, p: u16) -> u8 {
        let v = self.bus.inp(p);
        self.cy.push(Cy::In(p, v));
        v
    }
    fn port_out(&mut self, p: u16, v: u8) {
        self.cy.push(Cy::Out(p, v));
        self.bus.outp(p, v);
    }
    /// (IX+d) address for indexed forms of the main page: reads d, 5 delay T-states on PC
    fn idx_addr(&mut self, idx: u8) -> u16 {
        if idx == 0 {
            return self.s.hl;
        }
        let pc = self.s.pc;
        let d = self.rd(pc) as i8;
        self.dl(pc, 5);
        self.s.pc = pc.wrapping_add(1);
        let a = self.rp_hl(idx).wrapping_add(d as i16 as u16);
        self.s.wz = a;
        a
    }
    fn cond(&self, cc: u8) -> bool {
        let f = self.f();
        match cc {
            0 => f & FZ == 0,
            1 => f & FZ != 0,
            2 => f & FC == 0,
            3 => f & FC != 0,
            4 => f & FP == 0,
            5 => f & FP != 0,
            6 => f & FS == 0,
            _ => f & FS != 0,
        }
    }
    // ---- ALU
    fn alu(&mut self, op: u8, v: u8) {
        let a = self.a();
        let c = (self.f() & FC) as u16;
        match op {
            0 | 1 => {
                let cin = if op == 1 { c } else { 0 };
                let r = a as u16 + v as u16 + cin;
                let r8 = r as u8;
                let f = sz53(r8)
                    | ((a ^ v ^ r8) & FH)
                    | if (a ^ r8) & (v ^ r8) & 0x80 != 0 { FP } else { 0 }
                    | if r > 0xFF { FC } else { 0 };
                self.set_a(r8);
                self.set_f(f);
            }
            2 | 3 | 7 => {
                let cin = if op == 3 { c } else { 0 };
                let r = (a as u16).wrapping_sub(v as u16).wrapping_sub(cin);
                let r8 = r as u8;
                let mut f = (r8 & FS)
                    | if r8 == 0 { FZ } else { 0 }
                    | ((a ^ v ^ r8) & FH)
                    | if (a ^ v) & (a ^ r8) & 0x80 != 0 { FP } else { 0 }
                    | FN
                    | if r & 0x100 != 0 { FC } else { 0 };
                if op == 7 {
                    f |= v & (F3 | F5);
                } else {
                    f |= r8 & (F3 | F5);
                    self.set_a(r8);
                }
                self.set_f(f);
            }
            4 => {
                let r = a & v;
                self.set_a(r);
                self.set_f(sz53p(r) | FH);
            }
            5 => {
                let r = a ^ v;
                self.set_a(r);
                self.set_f(sz53p(r));
            }
            _ => {
                let r = a | v;
                self.set_a(r);
                self.set_f(sz53p(r));
            }
        }
    }
    fn inc8(&mut self, v: u8) -> u8 {
        let r = v.wrapping_add(1);
        let f = (self.f() & FC) | sz53(r) | if r & 0x0F == 0 { FH } else { 0 } | if v == 0x7F { FP } else { 0 };
        self.set_f(f);
        r
    }
    fn dec8(&mut self, v: u8) -> u8 {
        let r = v.wrapping_sub(1);
        let f = (self.f() & FC) | FN | sz53(r) | if v & 0x0F == 0 { FH } else { 0 } | if v == 0x80 { FP } else { 0 };
        self.set_f(f);
        r
    }
    fn rot(&mut self, op: u8, v: u8) -> u8 {
        let cin = self.f() & FC;
        let (r, cout) = match op {
            0 => (v.rotate_left(1), v >> 7),
            1 => (v.rotate_right(1), v & 1),
            2 => (v << 1 | cin, v >> 7),
            3 => (v >> 1 | cin << 7, v & 1),
            4 => (v << 1, v >> 7),
            5 => (v >> 1 | (v & 0x80), v & 1),
            6 => (v << 1 | 1, v >> 7),
            _ => (v >> 1, v & 1),
        };
        self.set_f(sz53p(r) | cout);
        r
    }

    // ------------------------------------------------------------------ step
    pub fn step(&mut self) {
        self.cy.clear();
        self.info = StepInfo::default();
        let blocked = self.s.after_eidi || self.s.prefix != 0;
        self.s.after_eidi = false;
        if !blocked {
            if self.bus.nmi_line() {
                self.info.nmi_accepted = true;
                self.s.q = 0;
                if self.s.halted {
                    self.s.halted = false;
                    self.s.pc = self.s.pc.wrapping_add(1);
                }
                self.inc_r();
                self.s.iff1 = false;
                self.cy.push(Cy::Ack(5));
                let pc = self.s.pc;
                self.push(pc);
                self.s.pc = 0x0066;
                self.s.wz = 0x0066;
            } else if self.bus.int_line() && self.s.iff1 {
                self.info.int_accepted = true;
                self.s.q = 0;
                if self.s.halted {
                    self.s.halted = false;
                    self.s.pc = self.s.pc.wrapping_add(1);
                }
                self.inc_r();
                self.s.iff1 = false;
                self.s.iff2 = false;
                self.cy.push(Cy::Ack(7));
                let pc = self.s.pc;
                self.push(pc);
                if self.s.im == 2 {
                    let v = self.bus.int_vector();
                    let a = (self.s.i as u16) << 8 | v as u16;
                    self.s.pc = self.rd16(a);
                } else {
                    self.s.pc = 0x0038;
                }
                self.s.wz = self.s.pc;
            }
        }
        // ---- fetch unit
        let byte1 = if self.s.prefix != 0 {
            let p = self.s.prefix;
            self.s.prefix = 0;
            p
        } else {
            self.m1()
        };
        match byte1 {
            0xDD | 0xFD => {
                let idx = if byte1 == 0xDD { 1 } else { 2 };
                let byte2 = self.m1();
                match byte2 {
                    0xDD | 0xFD | 0xED => {
                        self.s.prefix = byte2;
                        self.info.prefix_only = true;
                    }
                    0xCB => {
                        self.begin_op();
                        self.info.page = 4 + idx;
                        self.exec_idx_cb(idx);
                    }
                    _ => {
                        self.begin_op();
                        self.info.page = 2 + idx;
                        self.info.opcode = byte2;
                        self.exec_main(byte2, idx);
                    }
                }
            }
            0xCB => {
                self.begin_op();
                self.info.page = 1;
                let op = self.m1();
                self.info.opcode = op;
                self.exec_cb(op);
            }
            0xED => {
                let op = self.m1();
                self.begin_op();
                self.info.page = 2;
                self.info.opcode = op;
                self.exec_ed(op);
            }
            op => {
                self.begin_op();
                self.info.page = 0;
                self.info.opcode = op;
                self.exec_main(op, 0);
            }
        }
    }

    /// Q bookkeeping at the start of an opcode: last_q := q; q := 0
    fn begin_op(&mut self) {
        self.last_q = self.s.q;
        self.s.q = 0;
    }
}


// ---------------------------------------------------------------------- main page
impl<'a, B: RefBus> Ref<'a, B> {
    fn exec_main(&mut self, op: u8, idx: u8) {
        let y = (op >> 3) & 7;
        let z = op & 7;
        let p = (op >> 4) & 3;
        match op {
            0x00 => {}
            0x08 => std::mem::swap(&mut self.s.af, &mut self.s.af_),
            0x10 => {
                self.dl(self.ir(), 1);
                let pc = self.s.pc;
                let d = self.rd(pc) as i8;
                let b = self.b().wrapping_sub(1);
                self.set_b(b);
                if b != 0 {
                    self.dl(pc, 5);
                    self.s.pc = pc.wrapping_add(1).wrapping_add(d as i16 as u16);
                    self.s.wz = self.s.pc;
                    self.info.taken = true;
                } else {
                    self.s.pc = pc.wrapping_add(1);
                }
            }
            0x18 | 0x20 | 0x28 | 0x30 | 0x38 => {
                let pc = self.s.pc;
                let d = self.rd(pc) as i8;
                if op == 0x18 || self.cond(y - 4) {
                    self.dl(pc, 5);
                    self.s.pc = pc.wrapping_add(1).wrapping_add(d as i16 as u16);
                    self.s.wz = self.s.pc;
                    self.info.taken = true;
                } else {
                    self.s.pc = pc.wrapping_add(1);
                }
            }
            0x01 | 0x11 | 0x21 | 0x31 => {
                let v = self.imm16();
                self.set_rp(p, idx, v);
            }
            0x09 | 0x19 | 0x29 | 0x39 => {
                self.dl(self.ir(), 7);
                let hl = self.rp_hl(idx);
                let v = self.rp(p, idx);
                let r = hl as u32 + v as u32;
                self.s.wz = hl.wrapping_add(1);
                let f = (self.f() & (FS | FZ | FP))
                    | (((hl ^ v ^ r as u16) >> 8) as u8 & FH)
                    | if r > 0xFFFF { FC } else { 0 }
                    | ((r >> 8) as u8 & (F3 | F5));
                self.set_f(f);
                self.set_rp_hl(idx, r as u16);
            }
            0x02 | 0x12 => {
                let a = if op == 0x02 { self.s.bc } else { self.s.de };
                let acc = self.a();
                self.wr(a, acc);
                self.s.wz = (a.wrapping_add(1) & 0xFF) | (acc as u16) << 8;
            }
            0x0A | 0x1A => {
                let a = if op == 0x0A { self.s.bc } else { self.s.de };
                let v = self.rd(a);
                self.set_a(v);
                self.s.wz = a.wrapping_add(1);
            }
            0x22 => {
                let a = self.imm16();
                let v = self.rp_hl(idx);
                self.wr16(a, v);
                self.s.wz = a.wrapping_add(1);
            }
            0x2A => {
                let a = self.imm16();
                let v = self.rd16(a);
                self.set_rp_hl(idx, v);
                self.s.wz = a.wrapping_add(1);
            }
            0x32 => {
                let a = self.imm16();
                let acc = self.a();
                self.wr(a, acc);
                self.s.wz = (a.wrapping_add(1) & 0xFF) | (acc as u16) << 8;
            }
            0x3A => {
                let a = self.imm16();
                let v = self.rd(a);
                self.set_a(v);
                self.s.wz = a.wrapping_add(1);
            }
            0x03 | 0x13 | 0x23 | 0x33 => {
                self.dl(self.ir(), 2);
                let v = self.rp(p, idx).wrapping_add(1);
                self.set_rp(p, idx, v);
            }
            0x0B | 0x1B | 0x2B | 0x3B => {
                self.dl(self.ir(), 2);
                let v = self.rp(p, idx).wrapping_sub(1);
                self.set_rp(p, idx, v);
            }
            0x34 | 0x35 => {
                let a = self.idx_addr(idx);
                let v = self.rd(a);
                self.dl(a, 1);
                let r = if op == 0x34 { self.inc8(v) } else { self.dec8(v) };
                self.wr(a, r);
            }
            _ if op < 0x40 && (z == 4 || z == 5) => {
                let v = self.r8(y, idx);
                let r = if z == 4 { self.inc8(v) } else { self.dec8(v) };
                self.set_r8(y, idx, r);
            }
            0x36 => {
                if idx == 0 {
                    let v = self.imm8();
                    self.wr(self.s.hl, v);
                } else {
                    let d = self.imm8() as i8;
                    let a = self.rp_hl(idx).wrapping_add(d as i16 as u16);
                    self.s.wz = a;
                    let pc = self.s.pc;
                    let v = self.rd(pc);
                    self.dl(pc, 2);
                    self.s.pc = pc.wrapping_add(1);
                    self.wr(a, v);
                }
            }
            _ if op < 0x40 && z == 6 => {
                let v = self.imm8();
                self.set_r8(y, idx, v);
            }
            0x07 => {
                let a = self.a().rotate_left(1);
                self.set_a(a);
                let f = (self.f() & (FS | FZ | FP)) | (a & (F3 | F5)) | (a & 1);
                self.set_f(f);
            }
            0x0F => {
                let c = self.a() & 1;
                let a = self.a().rotate_right(1);
                self.set_a(a);
                let f = (self.f() & (FS | FZ | FP)) | (a & (F3 | F5)) | c;
                self.set_f(f);
            }
            0x17 => {
                let c = self.a() >> 7;
                let a = self.a() << 1 | (self.f() & FC);
                self.set_a(a);
                let f = (self.f() & (FS | FZ | FP)) | (a & (F3 | F5)) | c;
                self.set_f(f);
            }
            0x1F => {
                let c = self.a() & 1;
                let a = self.a() >> 1 | (self.f() & FC) << 7;
                self.set_a(a);
                let f = (self.f() & (FS | FZ | FP)) | (a & (F3 | F5)) | c;
                self.set_f(f);
            }
            0x27 => {
                let a = self.a();
                let f = self.f();
                let mut add = 0u8;
                let mut carry = f & FC;
                if f & FH != 0 || a & 0x0F > 9 {
                    add = 6;
                }
                if carry != 0 || a > 0x99 {
                    add |= 0x60;
                }
                if a > 0x99 {
                    carry = FC;
                }
                let (r, h) = if f & FN != 0 {
                    let r = a.wrapping_sub(add);
                    (r, (a ^ add ^ r) & FH)
                } else {
                    let r = a.wrapping_add(add);
                    (r, (a ^ add ^ r) & FH)
                };
                self.set_a(r);
                self.set_f(sz53p(r) | h | (f & FN) | carry);
            }
            0x2F => {
                let a = !self.a();
                self.set_a(a);
                let f = (self.f() & (FS | FZ | FP | FC)) | FH | FN | (a & (F3 | F5));
                self.set_f(f);
            }
            0x37 => {
                let f = self.f();
                let nf = (f & (FS | FZ | FP)) | FC | (((self.last_q ^ f) | self.a()) & (F3 | F5));
                self.set_f(nf);
            }
            0x3F => {
                let f = self.f();
                let nf = (f & (FS | FZ | FP))
                    | if f & FC != 0 { FH } else { FC }
                    | (((self.last_q ^ f) | self.a()) & (F3 | F5));
                self.set_f(nf);
            }
            0x76 => {
                self.s.halted = true;
                self.s.pc = self.s.pc.wrapping_sub(1);
            }
            0x40..=0x7F => {
                if z == 6 {
                    let a = self.idx_addr(idx);
                    let v = self.rd(a);
                    self.set_r8(y, 0, v);
                } else if y == 6 {
                    let a = self.idx_addr(idx);
                    let v = self.r8(z, 0);
                    self.wr(a, v);
                } else {
                    let v = self.r8(z, idx);
                    self.set_r8(y, idx, v);
                }
            }
            0x80..=0xBF => {
                let v = if z == 6 {
                    let a = self.idx_addr(idx);
                    self.rd(a)
                } else {
                    self.r8(z, idx)
                };
                self.alu(y, v);
            }
            0xC0 | 0xC8 | 0xD0 | 0xD8 | 0xE0 | 0xE8 | 0xF0 | 0xF8 => {
                self.dl(self.ir(), 1);
                if self.cond(y) {
                    self.s.pc = self.pop();
                    self.s.wz = self.s.pc;
                    self.info.taken = true;
                }
            }
            0xC1 | 0xD1 | 0xE1 => {
                let v = self.pop();
                self.set_rp(p, idx, v);
            }
            0xF1 => {
                // POP AF loads F from the stack; it is not an ALU flag update (Q stays 0)
                self.s.af = self.pop();
            }
            0xC9 => {
                self.s.pc = self.pop();
                self.s.wz = self.s.pc;
            }
            0xD9 => {
                std::mem::swap(&mut self.s.bc, &mut self.s.bc_);
                std::mem::swap(&mut self.s.de, &mut self.s.de_);
                std::mem::swap(&mut self.s.hl, &mut self.s.hl_);
            }
            0xE9 => self.s.pc = self.rp_hl(idx),
            0xF9 => {
                self.dl(self.ir(), 2);
                self.s.sp = self.rp_hl(idx);
            }
            0xC2 | 0xCA | 0xD2 | 0xDA | 0xE2 | 0xEA | 0xF2 | 0xFA => {
                let a = self.imm16();
                if self.cond(y) {
                    self.s.pc = a;
                    self.info.taken = true;
                }
                self.s.wz = a;
            }
            0xC3 => {
                let a = self.imm16();
                self.s.pc = a;
                self.s.wz = a;
            }
            0xD3 => {
                let n = self.imm8();
                let acc = self.a();
                self.port_out((acc as u16) << 8 | n as u16, acc);
                self.s.wz = (n.wrapping_add(1) as u16) | (acc as u16) << 8;
            }
            0xDB => {
                let n = self.imm8();
                let port = (self.a() as u16) << 8 | n as u16;
                let v = self.port_in(port);
                self.set_a(v);
                self.s.wz = port.wrapping_add(1);
            }
            0xE3 => {
                let sp = self.s.sp;
                let v = self.rd16(sp);
                self.dl(sp.wrapping_add(1), 1);
                let hl = self.rp_hl(idx);
                self.wr(sp.wrapping_add(1), (hl >> 8) as u8);
                self.wr(sp, hl as u8);
                self.dl(sp, 2);
                self.set_rp_hl(idx, v);
                self.s.wz = v;
            }
            0xEB => std::mem::swap(&mut self.s.de, &mut self.s.hl),
            0xF3 => {
                self.s.iff1 = false;
                self.s.iff2 = false;
                self.s.after_eidi = true;
            }
            0xFB => {
                self.s.iff1 = true;
                self.s.iff2 = true;
                self.s.after_eidi = true;
            }
            0xC4 | 0xCC | 0xD4 | 0xDC | 0xE4 | 0xEC | 0xF4 | 0xFC | 0xCD => {
                let l = self.imm8();
                let pc = self.s.pc;
                let h = self.rd(pc);
                let a = (h as u16) << 8 | l as u16;
                self.s.wz = a;
                if op == 0xCD || self.cond(y) {
                    self.dl(pc, 1);
                    self.s.pc = pc.wrapping_add(1);
                    let ret = self.s.pc;
                    self.push(ret);
                    self.s.pc = a;
                    self.info.taken = true;
                } else {
                    self.s.pc = pc.wrapping_add(1);
                }
            }
            0xC5 | 0xD5 | 0xE5 | 0xF5 => {
                self.dl(self.ir(), 1);
                let v = if p == 3 { self.s.af } else { self.rp(p, idx) };
                self.push(v);
            }
            0xC6 | 0xCE | 0xD6 | 0xDE | 0xE6 | 0xEE | 0xF6 | 0xFE => {
                let v = self.imm8();
                self.alu(y, v);
            }
            0xC7 | 0xCF | 0xD7 | 0xDF | 0xE7 | 0xEF | 0xF7 | 0xFF => {
                self.dl(self.ir(), 1);
                let pc = self.s.pc;
                self.push(pc);
                self.s.pc = (y as u16) * 8;
                self.s.wz = self.s.pc;
            }
            // CB, DD, ED, FD never arrive here
            _ => unreachable!("opcode {:02x}", op),
        }
    }

    // ------------------------------------------------------------------ CB page
    fn exec_cb(&mut self, op: u8) {
        let x = op >> 6;
        let y = (op >> 3) & 7;
        let z = op & 7;
        if z == 6 {
            let a = self.s.hl;
            let v = self.rd(a);
            self.dl(a, 1);
            match x {
                0 => {
                    let r = self.rot(y, v);
                    self.wr(a, r);
                }
                1 => self.bit_flags(y, v, (self.s.wz >> 8) as u8),
                2 => self.wr(a, v & !(1 << y)),
                _ => self.wr(a, v | 1 << y),
            }
        } else {
            let v = self.r8(z, 0);
            match x {
                0 => {
                    let r = self.rot(y, v);
                    self.set_r8(z, 0, r);
                }
                1 => self.bit_flags(y, v, v),
                2 => self.set_r8(z, 0, v & !(1 << y)),
                _ => self.set_r8(z, 0, v | 1 << y),
            }
        }
    }
    fn bit_flags(&mut self, bit: u8, v: u8, xy_src: u8) {
        let t = v & (1 << bit);
        let f = (self.f() & FC) | FH | if t == 0 { FZ | FP } else { 0 } | (t & FS) | (xy_src & (F3 | F5));
        self.set_f(f);
    }
    fn exec_idx_cb(&mut self, idx: u8) {
        let d = self.imm8() as i8;
        let a = self.rp_hl(idx).wrapping_add(d as i16 as u16);
        self.s.wz = a;
        let pc = self.s.pc;
        let op = self.rd(pc);
        self.dl(pc, 2);
        self.s.pc = pc.wrapping_add(1);
        self.info.opcode = op;
        let x = op >> 6;
        let y = (op >> 3) & 7;
        let z = op & 7;
        let v = self.rd(a);
        self.dl(a, 1);
        let r = match x {
            0 => self.rot(y, v),
            1 => {
                self.bit_flags(y, v, (a >> 8) as u8);
                return;
            }
            2 => v & !(1 << y),
            _ => v | 1 << y,
        };
        self.wr(a, r);
        if z != 6 {
            self.set_r8(z, 0, r);
        }
    }

    // ------------------------------------------------------------------ ED page
    fn exec_ed(&mut self, op: u8) {
        let y = (op >> 3) & 7;
        let p = (op >> 4) & 3;
        match op {
            0x40 | 0x48 | 0x50 | 0x58 | 0x60 | 0x68 | 0x70 | 0x78 => {
                let bc = self.s.bc;
                self.s.wz = bc.wrapping_add(1);
                let v = self.port_in(bc);
                if y != 6 {
                    self.set_r8(y, 0, v);
                }
                let f = (self.f() & FC) | sz53p(v);
                self.set_f(f);
            }
            0x41 | 0x49 | 0x51 | 0x59 | 0x61 | 0x69 | 0x71 | 0x79 => {
                let bc = self.s.bc;
                self.s.wz = bc.wrapping_add(1);
                let v = if y == 6 { 0 } else { self.r8(y, 0) };
                self.port_out(bc, v);
            }
            0x42 | 0x52 | 0x62 | 0x72 | 0x4A | 0x5A | 0x6A | 0x7A => {
                self.dl(self.ir(), 7);
                let hl = self.s.hl;
                let v = self.rp(p, 0);
                let c = (self.f() & FC) as u32;
                self.s.wz = hl.wrapping_add(1);
                let (r, f) = if op & 0x08 == 0 {
                    let r = (hl as u32).wrapping_sub(v as u32).wrapping_sub(c);
                    let r16 = r as u16;
                    let f = FN
                        | if r & 0x10000 != 0 { FC } else { 0 }
                        | if (hl ^ v) & (hl ^ r16) & 0x8000 != 0 { FP } else { 0 }
                        | (((hl ^ v ^ r16) >> 8) as u8 & FH);
                    (r16, f)
                } else {
                    let r = hl as u32 + v as u32 + c;
                    let r16 = r as u16;
                    let f = if r > 0xFFFF { FC } else { 0 }
                        | if (hl ^ r16) & (v ^ r16) & 0x8000 != 0 { FP } else { 0 }
                        | (((hl ^ v ^ r16) >> 8) as u8 & FH);
                    (r16, f)
                };
                let f = f | ((r >> 8) as u8 & (FS | F3 | F5)) | if r == 0 { FZ } else { 0 };
                self.s.hl = r;
                self.set_f(f);
            }
            0x43 | 0x53 | 0x63 | 0x73 => {
                let a = self.imm16();
                let v = self.rp(p, 0);
                self.wr16(a, v);
                self.s.wz = a.wrapping_add(1);
            }
            0x4B | 0x5B | 0x6B | 0x7B => {
                let a = self.imm16();
                let v = self.rd16(a);
                self.set_rp(p, 0, v);
                self.s.wz = a.wrapping_add(1);
            }
            0x44 | 0x4C | 0x54 | 0x5C | 0x64 | 0x6C | 0x74 | 0x7C => {
                let a = self.a();
                self.set_a(0);
                self.alu(2, a);
            }
            0x45 | 0x4D | 0x55 | 0x5D | 0x65 | 0x6D | 0x75 | 0x7D => {
                self.s.iff1 = self.s.iff2;
                self.s.pc = self.pop();
                self.s.wz = self.s.pc;
            }
            0x46 | 0x4E | 0x66 | 0x6E => self.s.im = 0,
            0x56 | 0x76 => self.s.im = 1,
            0x5E | 0x7E => self.s.im = 2,
            0x47 => {
                self.dl(self.ir(), 1);
                self.s.i = self.a();
            }
            0x4F => {
                self.dl(self.ir(), 1);
                self.s.r = self.a();
            }
            0x57 | 0x5F => {
                self.dl(self.ir(), 1);
                let v = if op == 0x57 { self.s.i } else { self.s.r };
                self.set_a(v);
                let f = (self.f() & FC) | sz53(v) | if self.s.iff2 { FP } else { 0 };
                self.set_f(f);
            }
            0x67 => {
                let hl = self.s.hl;
                let m = self.rd(hl);
                self.dl(hl, 4);
                let a = self.a();
                self.wr(hl, a << 4 | m >> 4);
                let na = (a & 0xF0) | (m & 0x0F);
                self.set_a(na);
                let f = (self.f() & FC) | sz53p(na);
                self.set_f(f);
                self.s.wz = hl.wrapping_add(1);
            }
            0x6F => {
                let hl = self.s.hl;
                let m = self.rd(hl);
                self.dl(hl, 4);
                let a = self.a();
                self.wr(hl, m << 4 | (a & 0x0F));
                let na = (a & 0xF0) | (m >> 4);
                self.set_a(na);
                let f = (self.f() & FC) | sz53p(na);
                self.set_f(f);
                self.s.wz = hl.wrapping_add(1);
            }
            0xA0 | 0xA8 | 0xB0 | 0xB8 => {
                let dec = op & 0x08 != 0;
                let (hl, de) = (self.s.hl, self.s.de);
                let v = self.rd(hl);
                self.wr(de, v);
                self.dl(de, 2);
                self.s.bc = self.s.bc.wrapping_sub(1);
                let n = v.wrapping_add(self.a());
                let f = (self.f() & (FS | FZ | FC)) | if self.s.bc != 0 { FP } else { 0 } | (n & F3) | if n & 0x02 != 0 { F5 } else { 0 };
                self.set_f(f);
                if op & 0x10 != 0 && self.s.bc != 0 {
                    self.dl(de, 5);
                    self.s.pc = self.s.pc.wrapping_sub(2);
                    self.s.wz = self.s.pc.wrapping_add(1);
                    self.repeat_xy();
                    self.info.taken = true;
                }
                let step = if dec { 0xFFFFu16 } else { 1 };
                self.s.hl = hl.wrapping_add(step);
                self.s.de = de.wrapping_add(step);
            }
            0xA1 | 0xA9 | 0xB1 | 0xB9 => {
                let dec = op & 0x08 != 0;
                let hl = self.s.hl;
                let v = self.rd(hl);
                self.dl(hl, 5);
                let a = self.a();
                let r = a.wrapping_sub(v);
                let h = (a ^ v ^ r) & FH;
                let n = r.wrapping_sub(if h != 0 { 1 } else { 0 });
                self.s.bc = self.s.bc.wrapping_sub(1);
                let f = (self.f() & FC) | FN | if self.s.bc != 0 { FP } else { 0 } | h | if r == 0 { FZ } else { 0 } | (r & FS) | (n & F3) | if n & 0x02 != 0 { F5 } else { 0 };
                self.set_f(f);
                let step = if dec { 0xFFFFu16 } else { 1 };
                self.s.wz = self.s.wz.wrapping_add(step);
                if op & 0x10 != 0 && self.s.bc != 0 && r != 0 {
                    self.dl(hl, 5);
                    self.s.pc = self.s.pc.wrapping_sub(2);
                    self.s.wz = self.s.pc.wrapping_add(1);
                    self.repeat_xy();
                    self.info.taken = true;
                }
                self.s.hl = hl.wrapping_add(step);
            }
            0xA2 | 0xAA | 0xB2 | 0xBA => {
                let dec = op & 0x08 != 0;
                self.dl(self.ir(), 1);
                let bc = self.s.bc;
                let v = self.port_in(bc);
                let hl = self.s.hl;
                self.wr(hl, v);
                let step = if dec { 0xFFFFu16 } else { 1 };
                self.s.wz = bc.wrapping_add(step);
                let b = self.b().wrapping_sub(1);
                self.set_b(b);
                let c1 = self.c().wrapping_add(step as u8);
                let k = v as u16 + c1 as u16;
                let f = sz53(b) | if v & 0x80 != 0 { FN } else { 0 } | if k > 0xFF { FH | FC } else { 0 } | parity((k as u8 & 7) ^ b);
                self.set_f(f);
                if op & 0x10 != 0 && b != 0 {
                    self.dl(hl, 5);
                    self.s.pc = self.s.pc.wrapping_sub(2);
                    self.repeat_io(v, c1.wrapping_add(v));
                    self.info.taken = true;
                }
                self.s.hl = hl.wrapping_add(step);
            }
            0xA3 | 0xAB | 0xB3 | 0xBB => {
                let dec = op & 0x08 != 0;
                self.dl(self.ir(), 1);
                let hl = self.s.hl;
                let v = self.rd(hl);
                let b = self.b().wrapping_sub(1);
                self.set_b(b);
                let bc = self.s.bc;
                self.port_out(bc, v);
                let step = if dec { 0xFFFFu16 } else { 1 };
                self.s.hl = hl.wrapping_add(step);
                self.s.wz = bc.wrapping_add(step);
                let l = self.s.hl as u8;
                let k = v as u16 + l as u16;
                let f = sz53(b) | if v & 0x80 != 0 { FN } else { 0 } | if k > 0xFF { FH | FC } else { 0 } | parity((k as u8 & 7) ^ b);
                self.set_f(f);
                if op & 0x10 != 0 && b != 0 {
                    self.dl(bc, 5);
                    self.s.pc = self.s.pc.wrapping_sub(2);
                    self.repeat_io(v, l.wrapping_add(v));
                    self.info.taken = true;
                }
            }
            // everything else on the ED page is an 8-T two byte NOP
            _ => {}
        }
    }

    /// LDIR/LDDR/CPIR/CPDR that repeat: F5/F3 come from bits 13/11 of PC (address of the
    /// instruction; sources differ only when it sits at xxFF, which generators avoid)
    fn repeat_xy(&mut self) {
        let f = (self.f() & !(F3 | F5)) | ((self.s.pc >> 8) as u8 & (F3 | F5));
        self.set_f(f);
    }
    /// INIR/INDR/OTIR/OTDR that repeat (MrKWatkins / David Banks research):
    /// F5/F3 from PC.13/11; with T = the 8-bit sum used for the carry above:
    /// if CF: B' = B -/+ 1 by NF, HF = (B' ^ B).4, PF = PF ^ parity(B' & 7) ^ 1... expressed
    /// here in the published closed form: PF = parity((T & 7) ^ B ^ (B' & 7)).
    fn repeat_io(&mut self, m: u8, t: u8) {
        let _ = m;
        let f = self.f();
        let b = self.b();
        let mut nf = (f & !(F3 | F5)) | ((self.s.pc >> 8) as u8 & (F3 | F5));
        let tmp = if f & FC != 0 {
            if f & FN != 0 {
                b.wrapping_sub(1)
            } else {
                b.wrapping_add(1)
            }
        } else {
            b
        };
        nf &= !(FH | FP);
        nf |= (tmp ^ b) & FH;
        nf |= parity((t & 7) ^ b ^ (tmp & 7));
        self.set_f(nf);
    }
}
