//! C05 – frames last 69888/70908 T with a 32-T INT pulse; no T-state is ever lost.
//!
//! Monitors (all on the full machine):
//!  A. conservation, single-stepped: random code (any memory, I/O, HALT, interrupts) started a few
//!     T-states before a frame end; after EVERY step  wraps*FRAME + clock - clock0 == sum of the
//!     step durations predicted independently (reference cycle list + statement's contention model).
//!  B. frame accounting through the public API: a counting loop of exactly known cost run with
//!     emulate_frames(FrameCount(n)) k times; executed T computed from the loop counters must equal
//!     k*n*FRAME + clock_now - clock0 (hook) and lie in [k*n*FRAME, k*n*FRAME + longest instruction).
//!  C. INT pulse: NOP sled with IFF1=1, clock placed at every t in [FRAME-40,FRAME) U [0,80):
//!     interrupt accepted iff the boundary time is in [0,32).
//!  D. exactly once per frame: IM2 handler of length 33..400 T incrementing IY; main loop busy /
//!     HALT / mixed; after K frames IY == K (DI variant: 0).
use crate::c04::{regfile_to_rz, MachBus, Model};
use crate::host::{Cfg, Machine, RegFile};
use crate::json::J;
use crate::refz80::Ref;
use crate::report::{par_map, Ctx, Evidence};
use crate::rng::Rng;
use rustzx_core::EmulationMode;
use std::collections::HashSet;
use std::time::Duration;

#[derive(Default)]
struct St {
    steps: u64,
    wraps: u64,
    overruns: HashSet<u64>,
    api_runs: u64,
    frames: u64,
    int_window_points: u64,
    once_runs: u64,
    szx_positions: u64,
    host_pokes: u64,
    troubled_tapes: u64,
    steps_reporting_errors: u64,
    aged_cases: u64,
    sample: Vec<J>,
}

/// A: single-stepped conservation across a frame boundary
fn conservation(ctx: &Ctx, rng: &mut Rng, is128: bool, st: &mut St, case: u64) {
    let mut m = Machine::new(Cfg::of(is128));
    let mut md = Model { is128, bank: 0, locked_cases: 0, ext: None };
    if is128 {
        let v = rng.below(8) as u8 | (rng.below(2) as u8) << 4;
        m.out(0x7FFD, v);
        md.bank = v & 7;
    }
    let fr = md.frame();
    // one case in sixteen runs on a machine that has some 250..520 frame ends behind it (passed
    // quickly by putting the frame clock just before each frame's end): the frame end that is
    // single-stepped below is then the 251st ... 520th since power-on, not the first
    if rng.chance(1, 16) {
        let age = *rng.pick(&[250u64, 506]) + rng.below(14);
        for _ in 0..age {
            m.set_clock(fr - 4);
            m.run_frames(1);
        }
        st.aged_cases += 1;
    }
    // random program: mostly plain instructions, some block/IO/HALT/EI, in a random region
    let base: u16 = *rng.pick(&[0x8000u16, 0x9000, 0x6000, 0xC000, 0x7FF0, 0xBFF0]);
    let mut prog = vec![];
    for _ in 0..40 {
        match rng.below(12) {
            0 => prog.extend_from_slice(&[0xED, *rng.pick(&[0xB0u8, 0xB8, 0xB1, 0xA0, 0xB3])]),
            1 => prog.extend_from_slice(&[0xDB, 0xFE]),
            2 => prog.extend_from_slice(&[0xD3, rng.u8()]),
            3 => prog.push(0xFB),
            4 => prog.push(if rng.chance(1, 3) { 0x76 } else { 0x00 }),
            5 => prog.extend_from_slice(&[0xDD, 0x34, rng.u8()]),
            6 => prog.extend_from_slice(&[0xE3]),
            7 => prog.extend_from_slice(&[0x18, 0x00]),
            _ => {
                let b = crate::z80diff::encode(rng.below(7) as u8, rng.u8(), rng);
                prog.extend_from_slice(&b[..2.min(b.len())]);
            }
        }
    }
    m.poke_bytes(base, &prog);
    let mut rf = RegFile::default();
    rf.pc = base;
    rf.sp = *rng.pick(&[0xBF00u16, 0x7F00, 0xFF00, 0x5000]);
    rf.hl = *rng.pick(&[0x9000u16, 0x6000, 0xC100]);
    rf.de = *rng.pick(&[0xA000u16, 0x5B00, 0xE000]);
    rf.bc = *rng.pick(&[0x0003u16, 0x0210, 0x40FE, 0x1234]);
    rf.ix = 0x6100;
    rf.iy = 0x9100;
    rf.i = *rng.pick(&[0x3Bu8, 0x40, 0x80, 0xFE]);
    rf.im = rng.below(3) as u8;
    rf.iff1 = rng.bool();
    rf.iff2 = rf.iff1;
    m.set_regs(&rf);
    // host pokes while the emulation is stopped anywhere in the picture area (where a CPU access to
    // the same address would be held up by the ULA) are not CPU time either
    if rng.chance(1, 4) {
        let (t0, line) = if is128 { (14362usize, 228usize) } else { (14336, 224) };
        for _ in 0..4 {
            let t = t0 + rng.below(192) as usize * line + rng.below(128) as usize;
            m.set_clock(t);
            let a = *rng.pick(&[0x5C00u16, 0x4000, 0x7FFE, 0x5800, 0xC000, 0xFFF0]);
            m.poke_bytes(a, &[rng.u8(), rng.u8()]);
            st.host_pokes += 1;
            if m.clock() != t {
                ctx.violation(
                    "conservation:host-poke-takes-time",
                    &format!("execute_poke of 2 bytes at {:04x} moved the frame clock from {} to {} ({}K)", a, t, m.clock(), if is128 { 128 } else { 48 }),
                    jobj! {"monitor"=>"A","case"=>case,"is128"=>is128,"address"=>a,"clock_before"=>t,"clock_after"=>m.clock()},
                );
                return;
            }
        }
    }
    let mut clock0 = fr - 1 - rng.below(120) as usize;
    if rng.chance(1, 5) {
        // the frame position comes from an SZX snapshot (dwCyclesStart) loaded into the machine
        // while it sits somewhere else in its frame: the frame in progress must still end FRAME T
        // after its start and the T-states up to there must not be lost
        let c = crate::spec_snap::capture(&mut m);
        let a = crate::spec_snap::Abs { is128, r: c.r, ei_last: false, border: c.border, latch: c.latch & 0x1F, pages: c.pages, ay: None, mouse: None, keyb: None, cycles: clock0 as u32, fe_hi: 0 };
        m.set_clock(rng.below(fr as u64) as usize);
        let bytes = crate::spec_snap::write_szx(&a, &crate::spec_snap::SzxOpts::plain(), rng);
        if !matches!(crate::spec_snap::load_szx(&mut m, &bytes), Ok(Ok(()))) {
            return; // loaders are judged by C14/C15
        }
        st.szx_positions += 1;
        clock0 = m.clock();
        if is128 {
            md.bank = m.emu.verif_paging().0 & 7;
        }
    } else {
        m.set_clock(clock0);
    }
    // a playing tape that makes trouble – an empty block in the image, or an asset whose reads fail –
    // is reported through emulate_frames' result; emulated time goes on regardless
    if rng.chance(1, 8) {
        let mut img: Vec<u8> = vec![];
        if rng.bool() {
            img.extend_from_slice(&[0, 0]);
        }
        img.extend_from_slice(&[3, 0, 0xFF, 0x12, 0xED]);
        let asset = if rng.bool() { crate::host::mem_asset(img) } else { crate::host::DynAsset(Box::new(crate::host::Faulty { inner: crate::host::ShortRead::new(img, 1 + rng.below(8) as usize), ops: Default::default(), fail_at: 1 + rng.below(6), kind: rng.below(3) as u8, sticky: rng.bool() })) };
        if m.emu.load_tape(rustzx_core::host::Tape::Tap(asset)).is_ok() {
            m.emu.play_tape();
            st.troubled_tapes += 1;
        }
    }
    let mut expected_total: u64 = 0;
    let mut wraps: u64 = 0;
    let mut prev_clock = clock0;
    let mut skip_next = false;
    for step in 0..(20 + rng.below(60)) {
        // the host may poke memory while the emulation is stopped (here: between two instructions,
        // anywhere in the frame): that is not CPU time
        if rng.chance(1, 10) {
            let before = m.clock();
            let a = *rng.pick(&[0x5C00u16, 0x4000, 0x7FFF, 0x9000, 0xC000, 0xFFFF, 0x5800]);
            m.poke_bytes(a.wrapping_sub(1), &[rng.u8(), rng.u8(), rng.u8()]);
            st.host_pokes += 1;
            if m.clock() != before {
                ctx.violation(
                    "conservation:host-poke-takes-time",
                    &format!("execute_poke of 3 bytes at {:04x} moved the frame clock from {} to {} ({}K)", a.wrapping_sub(1), before, m.clock(), if is128 { 128 } else { 48 }),
                    jobj! {"monitor"=>"A","case"=>case,"is128"=>is128,"address"=>a.wrapping_sub(1),"clock_before"=>before,"clock_after"=>m.clock()},
                );
                return;
            }
        }
        let t = m.clock();
        let cur = m.regs();
        let skip = m.cpu().skip_interrupt;
        let (cy, pending, after_eidi) = {
            let mut bus = MachBus { m: &m, overlay: vec![], int: t % fr < 32 };
            let mut s = regfile_to_rz(&cur);
            s.after_eidi = skip;
            let _ = skip_next;
            let mut r = Ref::new(s, &mut bus);
            r.step();
            (std::mem::take(&mut r.cy), r.s.prefix != 0, r.s.after_eidi)
        };
        skip_next = after_eidi;
        if pending {
            // prefix chains would need the hidden prefix state on later steps: stop the case here
            break;
        }
        let dur = md.run(&cy, t) - t;
        // (with a troubled tape in the deck the call may report an error: the CPU has executed its
        // instruction all the same, and its T-states count)
        if m.step_res().is_err() {
            st.steps_reporting_errors += 1;
        }
        if is128 {
            let (v, _) = m.emu.verif_paging();
            md.bank = v & 7;
        }
        let now = m.clock();
        if ctx.replay.is_some() {
            println!("step {} t={} dur={} now={} cycles={:?}", step, t, dur, now, cy);
            println!("   before={:04x?}\n   after ={:04x?}", cur, m.regs());
        }
        if now < prev_clock {
            wraps += 1;
            st.overruns.insert(((is128 as u64) << 32) | now as u64);
        }
        prev_clock = now;
        expected_total += dur as u64;
        st.steps += 1;
        let observed_total = wraps * fr as u64 + now as u64 - clock0 as u64;
        if observed_total != expected_total || now >= fr {
            ctx.violation(
                &format!("conservation:{}", if now >= fr { "clock-not-wrapped" } else if wraps > 0 { "across-frame-end" } else { "within-frame" }),
                &format!("after step {}: wraps*FRAME+clock-clock0 = {} but the executed instructions took {} T ({}K, clock0={}, now={})", step, observed_total, expected_total, if is128 { 128 } else { 48 }, clock0, now),
                jobj! {"monitor"=>"A","case"=>case,"is128"=>is128,"clock0"=>clock0,"program"=>crate::json::hex(&prog),"base"=>base,"step"=>step,"cycles"=>format!("{:?}", cy)},
            );
            return;
        }
    }
    st.wraps += wraps;
}

const LOOP_AT: u16 = 0x8000;
/// INC HL / LD A,H / OR L / JR NZ,loop / INC DE / JR loop
const LOOP: [u8; 8] = [0x23, 0x7C, 0xB5, 0x20, 0xFB, 0x13, 0x18, 0xF8];

/// executed T-states of the counting loop given its counters and PC (started at LOOP_AT, HL=DE=0)
fn loop_t(de: u16, hl: u16, pc: u16) -> u64 {
    let full = 65535u64 * 26 + 39;
    let mut t = de as u64 * full;
    // iterations completed in the current HL cycle: HL counts INC HL executions
    let off = pc.wrapping_sub(LOOP_AT);
    let hl = if hl == 0 && off != 0 { 65536u64 } else { hl as u64 };
    // HL has already been incremented when pc is past the INC HL
    match off {
        0 => t += hl * 26,
        1 => t += (hl - 1) * 26 + 6,
        2 => t += (hl - 1) * 26 + 10,
        3 => t += (hl - 1) * 26 + 14,
        // HL == 0 here (JR NZ fell through) and DE not yet / just incremented
        5 => t = de as u64 * full + 65535 * 26 + 6 + 4 + 4 + 7,
        6 => t = (de as u64).wrapping_sub(1) * full + 65535 * 26 + 6 + 4 + 4 + 7 + 6,
        _ => t = u64::MAX,
    }
    t
}

/// B: frame accounting through emulate_frames(FrameCount(n))
fn api_accounting(ctx: &Ctx, rng: &mut Rng, is128: bool, st: &mut St, case: u64) {
    let mut m = Machine::new(Cfg::of(is128));
    let fr = m.frame_len() as u64;
    m.poke_bytes(LOOP_AT, &LOOP);
    let mut rf = RegFile::default();
    rf.pc = LOOP_AT;
    rf.sp = 0xBF00;
    m.set_regs(&rf);
    let clock0 = rng.below(fr) as usize;
    m.set_clock(clock0);
    let n = 1 + rng.below(5) as usize;
    let k = 1 + rng.below(6) as usize;
    m.dbg().mode = crate::host::DbgMode::Never;
    m.emu.set_speed(EmulationMode::FrameCount(n));
    for call in 0..k {
        m.emu.emulate_frames(Duration::from_secs(100)).expect("emulate");
        let r = m.regs();
        let executed = loop_t(r.de, r.hl, r.pc);
        let frames_done = ((call + 1) * n) as u64;
        let want = frames_done * fr + m.clock() as u64 - clock0 as u64;
        st.frames += n as u64;
        // without the hook: between frames*FRAME - clock0 and that + longest instruction (12 T)
        let lo = frames_done * fr - clock0 as u64;
        if executed != want || executed < lo || executed >= lo + 12 {
            ctx.violation(
                "frame-accounting:emulate_frames",
                &format!("after {} call(s) of emulate_frames(FrameCount({})) the counting loop executed {} T, expected {} (= {} frames x {} + clock {} - clock0 {})", call + 1, n, executed, want, frames_done, fr, m.clock(), clock0),
                jobj! {"monitor"=>"B","case"=>case,"is128"=>is128,"n"=>n,"k"=>k,"clock0"=>clock0,"de"=>r.de,"hl"=>r.hl,"pc"=>r.pc},
            );
            return;
        }
    }
    st.api_runs += 1;
    if st.sample.len() < 2 {
        st.sample.push(jobj! {"monitor"=>"B","is128"=>is128,"frames_per_call"=>n,"calls"=>k,"clock0"=>clock0});
    }
}

/// C: INT accepted iff boundary time in [0,32)
fn int_window(ctx: &Ctx, is128: bool, st: &mut St) {
    let mut m = Machine::new(Cfg::of(is128));
    let fr = m.frame_len();
    m.poke_bytes(0x8000, &[0u8; 64]);
    for im in 0..3u8 {
        let ts: Vec<usize> = (fr - 40..fr).chain(0..80).collect();
        for t in ts {
            let mut rf = RegFile::default();
            rf.pc = 0x8010;
            rf.sp = 0xBF00;
            rf.iff1 = true;
            rf.iff2 = true;
            rf.im = im;
            rf.i = 0x3B;
            m.set_regs(&rf);
            m.cpu().skip_interrupt = false;
            m.set_clock(t);
            m.step();
            let r = m.regs();
            // not accepted <=> the NOP at 0x8010 simply executed
            let accepted = !(r.pc == 0x8011 && r.sp == 0xBF00);
            let want = t < 32;
            st.int_window_points += 1;
            if accepted != want {
                ctx.violation(
                    "int-window",
                    &format!("{}K IM{}: instruction boundary at frame T={} – interrupt {} but INT is active exactly for T in [0,32)", if is128 { 128 } else { 48 }, im, t, if accepted { "accepted" } else { "not accepted" }),
                    jobj! {"monitor"=>"C","is128"=>is128,"t"=>t,"im"=>im},
                );
            }
        }
    }
}

/// D: handler runs exactly once per frame
fn once_per_frame(ctx: &Ctx, rng: &mut Rng, is128: bool, st: &mut St, case: u64) {
    let mut m = Machine::new(Cfg::of(is128));
    // IM2 table at 0xBE00..=0xBF00 -> handler at 0xBDBD
    m.poke_bytes(0xBE00, &[0xBD; 257]);
    let pad = rng.below(92) as usize; // NOPs: handler total = 19 + 10 + 4*pad + 4 + 10
    let mut h = vec![0xFD, 0x23];
    h.extend(std::iter::repeat(0x00).take(pad));
    h.extend_from_slice(&[0xFB, 0xC9]);
    // the part of the handler before interrupts are re-enabled must outlast the 32-T pulse:
    // 19 (entry) + 10 (INC IY) + 4*pad + 4 (EI) + 10 (RET, EI delay) = 43 + 4*pad >= 43
    m.poke_bytes(0xBDBD, &h);
    let variant = rng.below(5);
    let main: Vec<u8> = match variant {
        0 => vec![0x76, 0x18, 0xFD],                                     // HALT; JR -3
        1 => vec![0x00, 0x34, 0x18, 0xFC],                               // busy: NOP; INC (HL); JR
        2 => vec![0x21, 0x00, 0x90, 0x11, 0x00, 0xA0, 0x01, 0x00, 0x01, 0xED, 0xB0, 0x18, 0xF3], // LDIR (21 T steps)
        3 => vec![0xE3, 0xE3, 0xDD, 0xE3, 0x18, 0xFA],                   // EX (SP),HL x2, EX (SP),IX (23 T)
        _ => vec![0xF3, 0x00, 0x18, 0xFD],                               // DI: never interrupted
    };
    m.poke_bytes(0x8000, &main);
    let mut rf = RegFile::default();
    rf.pc = 0x8000;
    rf.sp = 0xBD00;
    rf.i = 0xBE;
    rf.im = 2;
    rf.iff1 = true;
    rf.iff2 = true;
    rf.hl = 0x9000;
    rf.de = 0xA000;
    rf.bc = 0x0100;
    rf.iy = 0;
    m.set_regs(&rf);
    let clock0 = 100 + rng.below(m.frame_len() as u64 - 200) as usize;
    m.set_clock(clock0);
    let k = if ctx.quick() { 20 + rng.below(40) as usize } else { 100 + rng.below(400) as usize };
    let per_call = 1 + rng.below(3) as usize;
    m.dbg().mode = crate::host::DbgMode::Never;
    m.emu.set_speed(EmulationMode::FrameCount(per_call));
    let mut frames = 0;
    while frames < k {
        m.emu.emulate_frames(Duration::from_secs(100)).expect("emulate");
        frames += per_call;
        // the frame boundary has just been crossed: let the handler finish before looking
        for _ in 0..(pad + 40) {
            m.step();
        }
        m.emu.set_speed(EmulationMode::FrameCount(per_call));
        m.dbg().mode = crate::host::DbgMode::Never;
        let iy = m.regs().iy as usize;
        let want = if variant == 4 { 0 } else { frames };
        if iy != want {
            ctx.violation(
                &format!("once-per-frame:{}", if iy > want { "extra-interrupt" } else { "missed-interrupt" }),
                &format!("{}K: after {} frames the frame-interrupt handler ({} T long) ran {} times (main loop variant {})", if is128 { 128 } else { 48 }, frames, 43 + 4 * pad, iy, variant),
                jobj! {"monitor"=>"D","case"=>case,"is128"=>is128,"pad"=>pad,"variant"=>variant,"frames"=>frames,"iy"=>iy,"clock0"=>clock0},
            );
            return;
        }
    }
    st.frames += frames as u64;
    st.once_runs += 1;
    if st.sample.len() < 3 {
        st.sample.push(jobj! {"monitor"=>"D","is128"=>is128,"handler_T"=>43 + 4 * pad,"variant"=>variant,"frames"=>frames,"handler_runs"=>m.regs().iy});
    }
}

/// E: the frame accounting must not depend on the speed mode: the same halting / busy program run
/// one frame per call and run with FrameCount(n) or Max (scripted stopwatch) must show the same frame
/// clock, PC, R and handler count after the same number of frames (the one-frame-per-call run is the
/// one validated instruction by instruction by monitor A).
fn mode_twin(ctx: &Ctx, rng: &mut Rng, is128: bool, st: &mut St, case: u64) {
    let pad = rng.below(40) as usize;
    let variant = rng.below(3);
    let clock0 = 1 + rng.below(2000) as usize; // mostly not a multiple of 4
    // main loop in uncontended or in contended RAM (there a halted CPU's M1 cycles are stretched)
    let main_at: u16 = *rng.pick(&[0x8000u16, 0x8000, 0x6000, 0x5CCB, 0x7FFE]);
    let build = || {
        let mut m = Machine::new(Cfg::of(is128));
        m.poke_bytes(0xBE00, &[0xBD; 257]);
        let mut h = vec![0xFD, 0x23];
        h.extend(std::iter::repeat(0x00).take(pad));
        h.extend_from_slice(&[0xFB, 0xC9]);
        m.poke_bytes(0xBDBD, &h);
        let main: Vec<u8> = match variant {
            0 => vec![0x76, 0x18, 0xFD],             // HALT; JR -3
            1 => vec![0x00, 0x76, 0x23, 0x18, 0xFB], // NOP; HALT; INC HL; JR
            _ => vec![0x34, 0x76, 0xE3, 0x18, 0xFB], // INC (HL); HALT; EX (SP),HL; JR
        };
        m.poke_bytes(main_at, &main);
        let mut rf = RegFile::default();
        rf.pc = main_at;
        rf.sp = 0xBD00;
        rf.i = 0xBE;
        rf.im = 2;
        rf.iff1 = true;
        rf.iff2 = true;
        rf.hl = 0x9000;
        m.set_regs(&rf);
        m.set_clock(clock0);
        m.dbg().mode = crate::host::DbgMode::Never;
        m
    };
    let total = 6 + rng.below(20) as usize;
    // reference: one frame per call
    let mut a = build();
    a.emu.set_speed(EmulationMode::FrameCount(1));
    let mut refs = vec![];
    for _ in 0..total {
        a.emu.emulate_frames(Duration::from_secs(100)).expect("emulate");
        let r = a.regs();
        refs.push((a.clock(), r.pc, r.r, r.iy, r.halted));
    }
    // twin: FrameCount(n) or Max
    let mut b = build();
    let use_max = rng.bool();
    let mut frame = 0usize;
    while frame < total {
        let n = (1 + rng.below(4) as usize).min(total - frame);
        if use_max {
            b.emu.set_speed(EmulationMode::Max);
            let mut v: Vec<u64> = vec![0; n - 1];
            v.extend_from_slice(&[5000, 5000, 5000]);
            crate::host::set_stopwatch(crate::host::SwScript::List(v));
            b.emu.emulate_frames(Duration::from_micros(1000)).expect("emulate");
            crate::host::set_stopwatch(crate::host::SwScript::Zero);
        } else {
            b.emu.set_speed(EmulationMode::FrameCount(n));
            b.emu.emulate_frames(Duration::from_secs(100)).expect("emulate");
        }
        frame += n;
        let r = b.regs();
        let got = (b.clock(), r.pc, r.r, r.iy, r.halted);
        st.frames += n as u64;
        if got != refs[frame - 1] {
            ctx.violation(
                &format!("frame-accounting:mode-dependent:{}", if use_max { "max" } else { "framecount-n" }),
                &format!("{}K: after {} frames (clock, pc, r, iy, halted) = {:?} when run {} frames per call in {} mode, but {:?} one frame per call (main loop variant {} at {:04x}, start clock {})", if is128 { 128 } else { 48 }, frame, got, n, if use_max { "Max" } else { "FrameCount(n)" }, refs[frame - 1], variant, main_at, clock0),
                jobj! {"monitor"=>"E","case"=>case,"is128"=>is128,"variant"=>variant,"clock0"=>clock0,"pad"=>pad},
            );
            return;
        }
    }
    st.api_runs += 1;
}

pub fn run(ctx: &Ctx) -> Evidence {
    if let Some(r) = &ctx.replay {
        let d = r.get("details").cloned().unwrap_or(J::Null);
        let case = d.get("case").and_then(|x| x.as_i64()).unwrap_or(0) as u64;
        let is128 = matches!(d.get("is128"), Some(J::Bool(true)));
        let mut st = St::default();
        match d.get("monitor").and_then(|x| x.as_str()).unwrap_or("") {
            "A" => conservation(ctx, &mut Rng::fork(ctx.seed ^ 0xC05A, case), is128, &mut st, case),
            "B" => api_accounting(ctx, &mut Rng::fork(ctx.seed ^ 0xC05B, case), is128, &mut st, case),
            "D" => once_per_frame(ctx, &mut Rng::fork(ctx.seed ^ 0xC05D, case), is128, &mut st, case),
            "E" => mode_twin(ctx, &mut Rng::fork(ctx.seed ^ 0xC05E, case), is128, &mut st, case),
            _ => int_window(ctx, is128, &mut st),
        }
        let mut ev = Evidence::new("replay");
        ev.evaluations = 1;
        ev.distinct_nontrivial = 2;
        return ev;
    }
    let shards = 64usize;
    let n_cons = ctx.scale(40_000, 2_000_000) as usize;
    let n_api = ctx.scale(600, 20_000) as usize;
    let n_once = ctx.scale(400, 6_000) as usize;
    let res = par_map(ctx.jobs(), shards, |sh| {
        let mut st = St::default();
        for i in 0..n_cons / shards {
            let case = (sh * (n_cons / shards) + i) as u64;
            let mut rng = Rng::fork(ctx.seed ^ 0xC05A, case);
            conservation(ctx, &mut rng, case % 2 == 1, &mut st, case);
        }
        for i in 0..(n_api / shards).max(1) {
            let case = (sh * (n_api / shards).max(1) + i) as u64;
            let mut rng = Rng::fork(ctx.seed ^ 0xC05B, case);
            api_accounting(ctx, &mut rng, case % 2 == 1, &mut st, case);
        }
        for i in 0..(n_once / shards).max(1) {
            let case = (sh * (n_once / shards).max(1) + i) as u64;
            let mut rng = Rng::fork(ctx.seed ^ 0xC05D, case);
            once_per_frame(ctx, &mut rng, case % 2 == 1, &mut st, case);
        }
        for i in 0..(n_api / shards).max(1) {
            let case = (sh * (n_api / shards).max(1) + i) as u64;
            let mut rng = Rng::fork(ctx.seed ^ 0xC05E, case);
            mode_twin(ctx, &mut rng, case % 2 == 1, &mut st, case);
        }
        if sh < 2 {
            int_window(ctx, sh == 1, &mut st);
        }
        st
    });
    let mut ev = Evidence::new("A: random programs (any memory, I/O, HALT, EI, block ops) single-stepped from 1..120 T before a frame end, sum of independently predicted step durations vs wraps*FRAME+clock-clock0 after every step; B: counting loop under emulate_frames(FrameCount(1..5)) x 1..6 calls from random start clocks; C: INT acceptance at every boundary time in [FRAME-40,FRAME) U [0,80) x IM0/1/2; D: IM2 handlers of 43..407 T x 5 main loops (HALT, busy, LDIR, EX (SP), DI) over K frames, handler count == K; E: halting programs run one frame per call vs FrameCount(n)/Max mode: equal frame clock, PC, R, handler count after equal numbers of frames. distinct = distinct (machine, overrun carried into the next frame) values seen at frame wraps");
    let mut over = HashSet::new();
    for r in res {
        ev.evaluations += r.steps + r.api_runs + r.once_runs + r.int_window_points;
        ev.add_num("single_steps_checked", r.steps);
        ev.add_num("frame_wraps_single_stepped", r.wraps);
        ev.add_num("api_accounting_runs", r.api_runs);
        ev.add_num("frames_emulated", r.frames);
        ev.add_num("int_window_points", r.int_window_points);
        ev.add_num("once_per_frame_runs", r.once_runs);
        ev.add_num("conservation_cases_positioned_by_szx_load", r.szx_positions);
        ev.add_num("host_pokes_between_instructions", r.host_pokes);
        ev.add_num("conservation_cases_with_a_troubled_tape_playing", r.troubled_tapes);
        ev.add_num("steps_whose_call_reported_an_error", r.steps_reporting_errors);
        ev.add_num("conservation_cases_on_machines_250..520_frames_old", r.aged_cases);
        over.extend(r.overruns);
        for s in r.sample {
            ev.sample(s);
        }
    }
    ev.distinct_nontrivial = over.len() as u64;
    crate::z80work::qualify_reference(ctx, &mut ev);
    ctx.require("frame wraps observed while single-stepping", over.len() as u64, 20);
    ctx.require("int window points", 2 * 3 * 120, 720);
    ev.assumptions.push("step durations come from the qualified reference model + the statement's contention model (validated by C04)".into());
    ev
}
