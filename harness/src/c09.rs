//! C09 – border pixels show the colour written to the ULA before the beam got there.
//!
//! Oracle (from the statement): pixel (x,y) of the 320x240 border buffer is drawn at
//! T(x,y) = T_first + (y-24)*L + (x-32)/2 with T_first = 14336/14362, L = 224/228. Given the list of
//! port writes of a frame – each known to have happened inside the interval [start+4, end] of its
//! OUT instruction (frame clock hook before/after the single-stepped OUT) – a border pixel may show
//! any colour that was current at some time within T(x,y) +- 8 T (16 pixels). The colour in force at
//! the start of a frame is the last one written before. The canvas area of the buffer is not judged.
//! With no write in a frame the whole border must equal the current colour. `border_color()` must
//! equal the low three bits of the last even-port write (or the border of the last loaded snapshot).
use crate::host::{Cfg, Machine, RegFile};
use crate::json::J;
use crate::report::{par_map, Ctx, Evidence};
use crate::rng::Rng;
use rustzx_core::host::{BufferCursor, Snapshot};
use std::collections::HashSet;

#[derive(Clone, Copy, Debug)]
struct Wr {
    lo: i64,
    hi: i64,
    col: u8,
}

struct Geo {
    t_first: i64,
    line: i64,
    frame: i64,
}

fn geo(is128: bool) -> Geo {
    if is128 { Geo { t_first: 14362, line: 228, frame: 70908 } } else { Geo { t_first: 14336, line: 224, frame: 69888 } }
}

/// judges one completed frame; returns number of judged pixels or a description of the first bad one
fn judge(g: &Geo, px: &[u8], c0: u8, writes: &[Wr]) -> Result<u64, String> {
    // colour i (0 = carried c0, i>=1 = writes[i-1].col) is current in [start_i, end_i]
    let n = writes.len() + 1;
    let start = |i: usize| if i == 0 { i64::MIN / 2 } else { writes[i - 1].lo };
    let end = |i: usize| if i + 1 < n { writes[i].hi } else { i64::MAX / 2 };
    let col = |i: usize| if i == 0 { c0 } else { writes[i - 1].col };
    let mut judged = 0u64;
    let mut first = 0usize;
    for y in 0..240i64 {
        for x in 0..320i64 {
            if (32..288).contains(&x) && (24..216).contains(&y) {
                continue;
            }
            let tb = g.t_first + (y - 24) * g.line + (x - 32).div_euclid(2);
            let (a, b) = (tb - 8, tb + 8);
            while first + 1 < n && end(first) < a {
                first += 1;
            }
            let got = px[(y * 320 + x) as usize] & 7;
            let mut ok = false;
            let mut i = first;
            while i < n && start(i) <= b {
                if end(i) >= a && col(i) == got {
                    ok = true;
                    break;
                }
                i += 1;
            }
            judged += 1;
            if !ok {
                let allowed: Vec<u8> = (first..n).take_while(|i| start(*i) <= b).filter(|i| end(*i) >= a).map(col).collect();
                return Err(format!("border pixel ({},{}) drawn at T={} shows colour {} but the colours current within +-8 T are {:?}", x, y, tb, got, allowed));
            }
        }
    }
    Ok(judged)
}

struct St {
    frames: u64,
    pixels: u64,
    writes: u64,
    empty_frames: u64,
    long_lives: u64,
    patterns: HashSet<u64>,
    histories: u64,
    sample: Vec<J>,
}

fn quiet(m: &mut Machine) {
    m.poke_bytes(0x8000, &[0x18, 0xFE]);
    let mut rf = RegFile::default();
    rf.pc = 0x8000;
    rf.sp = 0xBF00;
    m.set_regs(&rf);
}

fn run_case(ctx: &Ctx, rng: &mut Rng, is128: bool, st: &mut St, case: u64) {
    let g = geo(is128);
    let mut m = Machine::new(Cfg { sound: false, init_mode: rng.below(4) as u8, ..Cfg::of(is128) });
    quiet(&mut m);
    // optionally start from a snapshot border
    let mut current: u8 = 0; // initial border colour of the machine is part of what we observe below
    let mut known = false;
    if rng.chance(1, 3) && !is128 {
        let b = rng.below(8) as u8;
        let mut v = vec![0u8; 27];
        v[23] = 0x00;
        v[24] = 0xBF;
        v[25] = 1;
        v[26] = b;
        let mut ram = vec![0u8; 49152];
        ram[0x4000] = 0x18;
        ram[0x4001] = 0xFE;
        ram[0xBF00 - 0x4000] = 0x00;
        ram[0xBF01 - 0x4000] = 0x80;
        v.extend_from_slice(&ram);
        m.emu.load_snapshot(Snapshot::Sna(BufferCursor::new(v))).expect("sna");
        current = b;
        known = true;
        if m.emu.border_color() as u8 != b {
            ctx.violation("border-color:after-snapshot", &format!("border_color() is {} after loading a snapshot with border {}", m.emu.border_color() as u8, b), jobj! {"case"=>case});
            return;
        }
    }
    if !known {
        // the very first write after power-on: any colour, black included
        let c = if rng.chance(1, 3) { 0 } else { rng.below(8) as u8 };
        m.out(0xBFFE, c);
        current = c;
        if m.emu.border_color() as u8 != c {
            ctx.violation("border-color:not-last-write", &format!("border_color() is {} after the first OUT with colour {}", m.emu.border_color() as u8, c), jobj! {"case"=>case});
            return;
        }
    }
    m.run_frames(1);
    let nframes = 3 + rng.below(4) as usize;
    let mut hist: Vec<String> = vec![];
    for f in 0..nframes {
        // schedule for this frame
        let style = rng.below(8);
        let mut targets: Vec<i64> = match style {
            0 => vec![],
            1 => (0..1 + rng.below(3)).map(|_| rng.below(g.frame as u64) as i64).collect(),
            2 => {
                // several per line
                let y = rng.below(300) as i64;
                (0..10 + rng.below(30)).map(|k| (y * g.line + k as i64 * (14 + rng.below(40) as i64)).min(g.frame - 30)).collect()
            }
            3 => {
                let mut v: Vec<i64> = (0..5).map(|_| g.frame - 1 - rng.below(30) as i64).collect();
                v.extend((0..3).map(|_| rng.below(30) as i64));
                v
            }
            4 => (0..20).map(|_| g.t_first - 24 * g.line + rng.below((240 * g.line) as u64) as i64).collect(),
            _ => (0..rng.below(40)).map(|_| rng.below(g.frame as u64) as i64).collect(),
        };
        targets.sort();
        targets.dedup();
        let c0 = current;
        let mut writes: Vec<Wr> = vec![];
        let mut carry_next: Vec<Wr> = vec![];
        let start_clock = m.clock() as i64;
        let mut prev = start_clock;
        let mut wrapped = false;
        let mut ti = 0;
        // skip targets already behind us (frame overrun)
        while ti < targets.len() && targets[ti] < start_clock {
            ti += 1;
        }
        loop {
            let now = m.clock() as i64;
            if now < prev {
                wrapped = true;
                break;
            }
            prev = now;
            if ti < targets.len() && now + 12 > targets[ti] {
                let same = rng.chance(1, 6);
                let colv = if same { current } else { rng.below(8) as u8 };
                let val = colv | (rng.u8() & 0x18);
                let port = ((rng.u8() as u16) << 8) | *rng.pick(&[0xFEu16, 0xFE, 0x7E, 0xF6, 0x02, 0xFC, 0x00, 0xF8, 0x1C]);
                let at = now;
                m.out(port, val);
                let done = m.clock() as i64;
                st.writes += 1;
                hist.push(format!("f{} T={} OUT {:04x},{:02x}", f, at, port, val));
                if m.emu.border_color() as u8 != colv {
                    ctx.violation("border-color:not-last-write", &format!("border_color() is {} after OUT {:04x},{:02x}", m.emu.border_color() as u8, port, val), jobj! {"case"=>case,"history"=>J::Arr(hist.iter().map(|s| J::from(s.as_str())).collect())});
                    return;
                }
                current = colv;
                if done < at {
                    // the OUT straddled the frame end
                    writes.push(Wr { lo: at + 4, hi: g.frame + 16, col: colv });
                    carry_next.push(Wr { lo: -16, hi: done, col: colv });
                    wrapped = true;
                    ti += 1;
                    break;
                }
                writes.push(Wr { lo: at + 4, hi: done, col: colv });
                ti += 1;
                prev = done;
                continue;
            }
            m.step();
        }
        let _ = wrapped;
        // frame complete: judge it
        let px = m.emu.border_buffer().px.clone();
        st.frames += 1;
        if writes.is_empty() {
            st.empty_frames += 1;
        }
        let mut h = crate::rng::FNV_INIT;
        crate::rng::fnv1a(&mut h, &[style as u8, is128 as u8, writes.len().min(255) as u8]);
        for w in writes.iter().take(6) {
            crate::rng::fnv1a(&mut h, &((w.lo / 16) as u32).to_le_bytes());
        }
        st.patterns.insert(h);
        match judge(&g, &px, c0, &writes) {
            Ok(n) => st.pixels += n,
            Err(e) => {
                let kind = if writes.is_empty() { "no-write-frame" } else { "beam-position" };
                ctx.violation(
                    &format!("border:{}:{}", if is128 { "128k" } else { "48k" }, kind),
                    &format!("frame {} (start colour {}, {} writes): {}", f, c0, writes.len(), e),
                    jobj! {"case"=>case,"is128"=>is128,"frame"=>f,"c0"=>c0,"writes"=>format!("{:?}", writes),"history"=>J::Arr(hist.iter().rev().take(50).rev().map(|s| J::from(s.as_str())).collect())},
                );
                return;
            }
        }
        if st.sample.len() < 3 && !writes.is_empty() {
            st.sample.push(jobj! {"is128"=>is128,"frame"=>f,"start_colour"=>c0,"writes"=>format!("{:?}", &writes[..writes.len().min(6)])});
        }
        // a write that straddled the frame end also belongs to the next frame: emulate by making
        // the start colour ambiguous – handled by pushing it to the front of the next list
        if !carry_next.is_empty() {
            // next frame: colour before `hi` may be old or new; simplest sound treatment: judge the
            // next frame with c0 = old colour and the carried write first
            // (done by re-inserting at loop start)
            // We fold it in by running one more unjudged frame.
            m.run_frames(1);
        }
    }
}

/// Long histories on one machine: OUTs to even ports (half of them repeating the previous byte
/// exactly), SNA/SZX loads with their own border, and idle frames. After every step
/// `border_color()` must be the low three bits of the last ULA write or the border of the last
/// loaded snapshot, and an idle frame must show that colour everywhere.
fn history_case(ctx: &Ctx, rng: &mut Rng, is128: bool, st: &mut St, case: u64) {
    use crate::spec_snap::{load_sna, load_szx, write_sna, write_szx, Abs, SzxOpts};
    let g = geo(is128);
    let mut m = Machine::new(Cfg { sound: false, init_mode: rng.below(4) as u8, ..Cfg::of(is128) });
    quiet(&mut m);
    let mut current: Option<u8> = None;
    let mut last: Option<(u16, u8)> = None;
    let mut hist: Vec<String> = vec![];
    let fail = |ctx: &Ctx, key: &str, what: String, hist: &Vec<String>| {
        ctx.violation(key, &what, jobj! {"case"=>case,"is128"=>is128,"history"=>J::Arr(hist.iter().map(|s| J::from(s.as_str())).collect())});
    };
    // now and then the machine has a long life behind it: tens of thousands of border writes (a
    // minute of tape loading stripes) before the judged history starts
    if rng.chance(1, 10) {
        // several bursts of writes with idle frames in between (each idle frame is judged), until
        // more than 70000 writes have been made in this emulator's life
        let mut total = 0u64;
        let mut v = 0u8;
        while total < 70_000 {
            let n = 3_000 + rng.below(30_000);
            for i in 0..n {
                v = ((i % 7) as u8 + 1) & 7 | (rng.u8() & 0x18);
                m.out(0x00FE | ((i as u16 & 0xFF) << 8), v);
            }
            total += n;
            st.writes += n;
            hist.push(format!("{} OUTs to the ULA cycling through the colours, the last one {:02x} ({} so far)", n, v, total));
            current = Some(v & 7);
            last = Some((0x00FE, v));
            m.run_frames(2);
            hist.push("2 idle frames".into());
            st.frames += 1;
            st.empty_frames += 1;
            let px = m.emu.border_buffer().px.clone();
            match judge(&g, &px, v & 7, &[]) {
                Ok(n) => st.pixels += n,
                Err(e) => {
                    fail(ctx, &format!("border-history:{}:idle-frame", if is128 { "128k" } else { "48k" }), format!("idle frame after {} border writes does not show colour {}: {}", total, v & 7, e), &hist);
                    return;
                }
            }
        }
        st.long_lives += 1;
    }
    for _ in 0..8 + rng.below(12) {
        match rng.below(6) {
            0 | 1 | 2 => {
                let (port, val) = match last {
                    Some(l) if rng.bool() => l,
                    _ => (((rng.u8() as u16) << 8) | *rng.pick(&[0xFEu16, 0xFE, 0x7E, 0x02, 0xFC, 0x00]), rng.u8() & 0x1F),
                };
                m.out(port, val);
                st.writes += 1;
                hist.push(format!("OUT {:04x},{:02x}", port, val));
                current = Some(val & 7);
                last = Some((port, val));
            }
            3 | 4 => {
                let mut a = Abs::random(rng, is128);
                a.r.pc = 0x8000;
                a.r.sp = 0xBF00;
                a.r.iff1 = false;
                a.r.iff2 = false;
                a.latch &= 0x17;
                a.poke_bytes(0x8000, &[0x18, 0xFE]);
                // half of the time the snapshot border differs from the last write in a chosen way
                if let Some(c) = current {
                    if rng.bool() {
                        a.border = (c + 1 + rng.below(7) as u8) & 7;
                    }
                }
                let szx = rng.bool();
                let r = if szx { load_szx(&mut m, &write_szx(&a, &SzxOpts::plain(), rng)) } else { load_sna(&mut m, &write_sna(&a)) };
                hist.push(format!("load {} border={}", if szx { "szx" } else { "sna" }, a.border));
                match r {
                    Ok(Ok(())) => {}
                    other => {
                        fail(ctx, "border-history:load-failed", format!("well-formed snapshot was not accepted: {:?}", other), &hist);
                        return;
                    }
                }
                current = Some(a.border);
            }
            _ => {
                m.run_frames(2);
                hist.push("2 idle frames".into());
                if let Some(c) = current {
                    st.frames += 1;
                    st.empty_frames += 1;
                    let px = m.emu.border_buffer().px.clone();
                    match judge(&g, &px, c, &[]) {
                        Ok(n) => st.pixels += n,
                        Err(e) => {
                            fail(ctx, &format!("border-history:{}:idle-frame", if is128 { "128k" } else { "48k" }), format!("idle frame after the history does not show colour {}: {}", c, e), &hist);
                            return;
                        }
                    }
                }
            }
        }
        if let Some(c) = current {
            let got = m.emu.border_color() as u8;
            if got != c {
                fail(ctx, "border-history:border-color", format!("border_color() is {} but the last ULA write / loaded snapshot says {} (after: {})", got, c, hist.last().cloned().unwrap_or_default()), &hist);
                return;
            }
        }
    }
    let mut h = crate::rng::FNV_INIT;
    crate::rng::fnv1a(&mut h, hist.join("|").as_bytes());
    st.patterns.insert(h);
    st.histories += 1;
}

pub fn run(ctx: &Ctx) -> Evidence {
    let n = ctx.scale(6_400, 200_000) as usize;
    let shards = 64usize;
    let res = par_map(ctx.jobs(), shards, |sh| {
        let mut st = St { frames: 0, pixels: 0, writes: 0, empty_frames: 0, long_lives: 0, patterns: HashSet::new(), histories: 0, sample: vec![] };
        for i in 0..(n / shards).max(1) {
            let case = (sh * (n / shards).max(1) + i) as u64;
            let mut rng = Rng::fork(ctx.seed ^ 0xC09, case);
            if case % 8 == 6 || case % 8 == 7 {
                history_case(ctx, &mut rng, case % 2 == 1, &mut st, case);
            } else {
                run_case(ctx, &mut rng, case % 2 == 1, &mut st, case);
            }
        }
        st
    });
    let mut ev = Evidence::new("programs issuing OUTs to random even ULA ports at scripted frame clocks (0-40 per frame, several per line, in retrace, in the last/first 30 T of a frame, same-colour writes, frames without writes, after a snapshot border) on 48K/128K over 3-6 frames; every completed frame's border buffer judged pixel by pixel against the beam model (+-8 T), border_color() checked after every write; plus long histories on one machine mixing OUTs to even ports incl. A1=0 ones (half repeat the previous byte exactly), SNA/SZX loads with their own border and idle frames, border_color() and idle-frame border judged after every step. distinct = distinct (style, machine, write-time pattern) frames");
    let mut pats = HashSet::new();
    for r in res {
        ev.evaluations += r.frames;
        ev.add_num("frames_judged", r.frames);
        ev.add_num("border_pixels_judged", r.pixels);
        ev.add_num("port_writes", r.writes);
        ev.add_num("frames_without_write", r.empty_frames);
        ev.add_num("histories_after_65000+_border_writes", r.long_lives);
        ev.add_num("load_write_histories", r.histories);
        pats.extend(r.patterns);
        for s in r.sample {
            ev.sample(s);
        }
    }
    ev.distinct_nontrivial = pats.len() as u64;
    ctx.require("frames judged", ev.evaluations, 500);
    ctx.require("frames without write", ev.extra.iter().find(|(k, _)| k == "frames_without_write").and_then(|(_, v)| v.as_i64()).unwrap_or(0) as u64, 20);
    ev.assumptions.push("the instant of the port write is only known to lie inside [start+4, end] of the OUT instruction".into());
    ev
}
