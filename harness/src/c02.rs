//! C02 – interrupt, NMI, HALT and prefix sequencing follow the Z80 rules.
//! Same differential engine as C01 with scripted INT/NMI lines at every instruction boundary,
//! programs biased towards EI/DI/HALT/RETI/RETN/IM/prefix chains, plus a directed enumeration of
//! (pre-state x IFF1 x IFF2 x IM x lines x following instruction).
use crate::report::{Ctx, Evidence};
use crate::z80diff::Class;
use crate::z80work::*;

pub fn run(ctx: &Ctx) -> Evidence {
    let plan = Plan {
        sweeps: 0,
        per_encoding: 0,
        sequences: 0,
        irq_sequences: ctx.scale(6_000_000, 300_000_000),
        directed_rounds: ctx.scale(40, 1000),
    };
    let mut plan = plan;
    if plan.per_encoding == 0 {
        plan.per_encoding = 1; // keeps case ids well defined; one case per encoding is negligible
    }
    let st = run_plan(ctx, Class::Sequencing, &plan);
    let mut ev = Evidence::new("random programs dense in EI/DI/HALT/RETI/RETN/IM n/DD-FD chains x random INT/NMI level scripts (p in {2,30,90}%, bursts, held lines, NMI pulses) in all three IMs with random I/bus byte/SP; plus exhaustive directed enumeration of (normal|after EI|after DI|DD pending|FD pending|chain|halted) x IFF1 x IFF2 x IM x {none,INT,NMI,both} x 6 following instructions; every step compared with the reference model (acceptance, IFFs, pushed PC, vector, R, HALT release) plus a trace assertion that no interrupt entry appears inside a prefix chain. distinct = (page, opcode, taken, interrupt kind) variants");
    fill_evidence(&mut ev, &st);
    qualify_reference(ctx, &mut ev);
    if ctx.replay.is_none() {
        ctx.require("interrupts_accepted", st.int_accepts, 1000);
        ctx.require("nmis_accepted", st.nmi_accepts, 100);
        ctx.require("halted_steps", st.halted_steps, 1000);
        ctx.require("prefix_only_steps", st.prefix_only_steps, 1000);
    }
    ev.add("directed_combinations", N_DIRECTED);
    ev.assumptions.push("NMI raised on the boundary right after EI/DI or inside a prefix chain is not generated (statement constrains only the maskable interrupt there)".into());
    ev.assumptions.push("IM 0 is RST 38h as the statement says (bus byte irrelevant)".into());
    ev
}
