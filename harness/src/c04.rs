//! C04 – ULA memory and I/O contention delays match the 48K/128K contention model.
//!
//! Observed: the frame clock (hook) before and after ONE single-stepped instruction on the full
//! machine. Oracle: the statement's contention model applied cycle by cycle to the bus-cycle
//! list the qualified reference model `refz80` produces for that instruction from the same
//! registers/memory: expected end clock == observed end clock (mod frame length), exactly.
use crate::host::{Cfg, Machine};
use crate::json::J;
use crate::refz80::{Cy, Ref, RefBus, RZ};
use crate::report::{par_map, Ctx, Evidence};
use crate::rng::Rng;
use crate::z80diff::{encode, is_instruction, PAGE_NAMES};
use std::collections::HashSet;

pub struct Model {
    pub is128: bool,
    /// RAM bank paged at 0xC000 (128K)
    pub bank: u8,
    /// cases run on the current machine since its paging got locked
    pub locked_cases: u32,
    /// ports (mask, value) claimed by a host I/O extender installed on this machine (timing and
    /// contention of a port cycle do not depend on who answers it)
    pub ext: Option<(u16, u16)>,
}

impl Model {
    pub fn frame(&self) -> usize {
        if self.is128 { 70908 } else { 69888 }
    }
    /// delay at frame time t, from the statement
    pub fn delay(&self, t: usize) -> usize {
        let (t0, line) = if self.is128 { (14361usize, 228usize) } else { (14335, 224) };
        let t = t % self.frame();
        if t < t0 || t >= t0 + 192 * line {
            return 0;
        }
        let x = (t - t0) % line;
        if x >= 128 {
            return 0;
        }
        [6, 5, 4, 3, 2, 1, 0, 0][x % 8]
    }
    pub fn contended(&self, addr: u16) -> bool {
        match addr >> 14 {
            1 => true,
            3 if self.is128 => self.bank & 1 == 1,
            _ => false,
        }
    }
    /// apply the contention model to a cycle list starting at frame time t; returns end time
    pub fn run(&self, cy: &[Cy], mut t: usize) -> usize {
        let c = |t: &mut usize, n: usize, me: &Model| {
            *t += me.delay(*t);
            *t += n;
        };
        for x in cy {
            match *x {
                Cy::M1(a) => {
                    if self.contended(a) {
                        c(&mut t, 4, self)
                    } else {
                        t += 4
                    }
                }
                Cy::Rd(a, _) | Cy::Wr(a, _) => {
                    if self.contended(a) {
                        c(&mut t, 3, self)
                    } else {
                        t += 3
                    }
                }
                Cy::Dl(a) => {
                    if self.contended(a) {
                        c(&mut t, 1, self)
                    } else {
                        t += 1
                    }
                }
                Cy::Ack(n) => t += n as usize,
                Cy::In(p, _) | Cy::Out(p, _) => {
                    let hi = self.contended(p);
                    let even = p & 1 == 0;
                    match (hi, even) {
                        (false, false) => t += 4,
                        (false, true) => {
                            t += 1;
                            c(&mut t, 3, self);
                        }
                        (true, true) => {
                            c(&mut t, 1, self);
                            c(&mut t, 3, self);
                        }
                        (true, false) => {
                            for _ in 0..4 {
                                c(&mut t, 1, self);
                            }
                        }
                    }
                }
            }
        }
        t
    }
}

/// reference bus reading the live machine memory (writes go to an overlay)
pub struct MachBus<'a> {
    pub m: &'a Machine,
    pub overlay: Vec<(u32, u8)>,
    pub int: bool,
}
impl<'a> MachBus<'a> {
    /// physical location of a RAM address (128K: banks 5 and 2 can also appear at 0xC000)
    fn phys(&self, a: u16) -> u32 {
        let bank = if self.m.cfg.is128 {
            match a >> 14 {
                1 => 5,
                2 => 2,
                _ => (self.m.emu.verif_paging().0 & 7) as u32,
            }
        } else {
            (a >> 14) as u32
        };
        bank << 14 | (a & 0x3FFF) as u32
    }
}
impl<'a> RefBus for MachBus<'a> {
    fn rd(&mut self, a: u16) -> u8 {
        if a >= 0x4000 && !self.overlay.is_empty() {
            let p = self.phys(a);
            for (x, v) in self.overlay.iter().rev() {
                if *x == p {
                    return *v;
                }
            }
        }
        self.m.peek(a)
    }
    fn wr(&mut self, a: u16, v: u8) {
        if a >= 0x4000 {
            let p = self.phys(a);
            self.overlay.push((p, v));
        }
    }
    fn inp(&mut self, _p: u16) -> u8 {
        0xFF
    }
    fn outp(&mut self, _p: u16, _v: u8) {}
    fn int_line(&self) -> bool {
        self.int
    }
    fn nmi_line(&self) -> bool {
        false
    }
}

pub fn regfile_to_rz(f: &crate::host::RegFile) -> RZ {
    RZ {
        af: f.af, bc: f.bc, de: f.de, hl: f.hl, af_: f.af_, bc_: f.bc_, de_: f.de_, hl_: f.hl_,
        ix: f.ix, iy: f.iy, sp: f.sp, pc: f.pc, wz: f.memptr, i: f.i, r: f.r, iff1: f.iff1, iff2: f.iff2,
        im: f.im, halted: f.halted, q: 0, after_eidi: false, prefix: 0,
    }
}

fn region_addr(rng: &mut Rng, region: u8) -> u16 {
    match region {
        0 => 0x4000 + rng.below(0x3FF0) as u16,          // always contended
        1 => 0x8000 + rng.below(0x3FF0) as u16,          // never contended
        2 => 0xC000 + rng.below(0x3FF0) as u16,          // bank dependent (128K)
        3 => *rng.pick(&[0x7FFEu16, 0x7FFF, 0x7FFD, 0xBFFE, 0xBFFF, 0xFFFE, 0xFFFD, 0x3FFF, 0x3FFE]), // window borders
        _ => rng.below(0x4000) as u16,                   // ROM
    }
}

fn pick_t(rng: &mut Rng, md: &Model) -> usize {
    let fr = md.frame();
    let (t0, line) = if md.is128 { (14361usize, 228usize) } else { (14335, 224) };
    match rng.below(10) {
        0 => rng.below(40) as usize,
        1 => fr - 1 - rng.below(40) as usize,
        2 => t0 - 10 + rng.below(150) as usize,
        3 => t0 + 191 * line - 10 + rng.below(line as u64 + 40) as usize,
        4 | 5 | 6 => t0 + rng.below(192) as usize * line + rng.below(140) as usize,
        _ => rng.below(fr as u64) as usize,
    }
}

struct St {
    cases: u64,
    shapes: HashSet<u64>,
    contended_delays: u64,
    ints: u64,
    sample: Option<J>,
}

/// Runs one case; returns true if executed. `fixed_t` overrides the random start time.
#[allow(clippy::too_many_arguments)]
fn one_case(ctx: &Ctx, m: &mut Machine, md: &mut Model, rng: &mut Rng, page: u8, opcode: u8, placement: Option<u8>, fixed_t: Option<usize>, st: &mut St, case_id: u64, verbose: bool) {
    // 128K: change the bank at 0xC000 now and then (never lock)
    if md.is128 && rng.chance(1, 40) {
        // now and then with the lock bit: the bank selected by the locking write stays contended
        let v = rng.below(8) as u8 | (rng.below(2) as u8) << 3 | (rng.below(2) as u8) << 4 | if rng.chance(1, 6) { 0x20 } else { 0 };
        m.out(0x7FFD, v);
        // a case may have locked paging earlier: take the accepted value from the hook
        md.bank = m.emu.verif_paging().0 & 7;
    }
    let bytes = encode(page, opcode, rng);
    // placements: bit0 code contended, bit1 data pointers contended
    let (code_region, data_region) = match placement {
        Some(p) => (if p & 1 != 0 { 0 } else { 1 }, if p & 2 != 0 { 0 } else { 1 }),
        None => (*rng.pick(&[0u8, 0, 1, 1, 2, 3]), 9),
    };
    let mut pc = region_addr(rng, code_region);
    if pc < 0x4000 {
        pc = 0x8000 | pc;
    }
    let mut ptr = |rng: &mut Rng| if data_region == 9 { let r = rng.below(5) as u8; region_addr(rng, r) } else { region_addr(rng, data_region) };
    let mut rf = crate::host::RegFile::default();
    rf.pc = pc;
    rf.bc = ptr(rng);
    rf.de = ptr(rng);
    rf.hl = ptr(rng);
    rf.ix = ptr(rng);
    rf.iy = ptr(rng);
    rf.sp = ptr(rng);
    if rf.sp < 0x4002 {
        rf.sp = 0x8000 | rf.sp;
    }
    rf.i = (ptr(rng) >> 8) as u8;
    rf.r = rng.u8();
    rf.af = (((ptr(rng) >> 8) as u8) as u16) << 8 | *rng.pick(&[0x00u16, 0xFF, 0x45, 0xBA]) | 0;
    if rng.chance(1, 3) {
        rf.af = (rf.af & 0xFF00) | rng.u8() as u16;
    }
    if rng.chance(1, 3) {
        // small counters for repeat instructions
        rf.bc = (rf.bc & 0xFF00 & 0x0300) | *rng.pick(&[0u16, 1, 2]) | (rf.bc & 0xC000);
    }
    rf.bc_ = rng.u16();
    rf.iff1 = rng.chance(1, 4);
    rf.iff2 = rf.iff1;
    rf.im = rng.below(3) as u8;
    rf.memptr = rng.u16();
    let t = fixed_t.unwrap_or_else(|| pick_t(rng, md));
    // now and then the CPU is already halted on a HALT (its 4-T NOP cycles are opcode fetches at PC
    // and contended like any other)
    let mut bytes = bytes;
    if fixed_t.is_none() && rng.chance(1, 25) {
        rf.halted = true;
        bytes = vec![0x76];
    }
    exec_case(ctx, m, md, page, opcode, &bytes, &rf, t, st, case_id, verbose);
}

fn rf_json(rf: &crate::host::RegFile) -> J {
    jobj! {"af"=>rf.af,"bc"=>rf.bc,"de"=>rf.de,"hl"=>rf.hl,"af_"=>rf.af_,"bc_"=>rf.bc_,"de_"=>rf.de_,"hl_"=>rf.hl_,"ix"=>rf.ix,"iy"=>rf.iy,
           "sp"=>rf.sp,"pc"=>rf.pc,"i"=>rf.i,"r"=>rf.r,"iff1"=>rf.iff1,"iff2"=>rf.iff2,"im"=>rf.im,"memptr"=>rf.memptr}
}
fn rf_from_json(j: &J) -> crate::host::RegFile {
    let g = |k: &str| j.get(k).and_then(|x| x.as_i64()).unwrap_or(0);
    let b = |k: &str| matches!(j.get(k), Some(J::Bool(true)));
    crate::host::RegFile {
        af: g("af") as u16, bc: g("bc") as u16, de: g("de") as u16, hl: g("hl") as u16, af_: g("af_") as u16, bc_: g("bc_") as u16,
        de_: g("de_") as u16, hl_: g("hl_") as u16, ix: g("ix") as u16, iy: g("iy") as u16, sp: g("sp") as u16, pc: g("pc") as u16,
        i: g("i") as u8, r: g("r") as u8, iff1: b("iff1"), iff2: b("iff2"), im: g("im") as u8, halted: false, memptr: g("memptr") as u16,
    }
}

#[allow(clippy::too_many_arguments)]
fn exec_case(ctx: &Ctx, m: &mut Machine, md: &mut Model, page: u8, opcode: u8, bytes: &[u8], rf: &crate::host::RegFile, t: usize, st: &mut St, case_id: u64, verbose: bool) {
    let _ = (page, opcode);
    let pc = rf.pc;
    // write the code (RAM only), avoiding ROM force-writes
    for (i, b) in bytes.iter().enumerate() {
        let a = pc.wrapping_add(i as u16);
        if a >= 0x4000 {
            m.poke(a, *b);
        }
    }
    m.set_regs(rf);
    m.cpu().skip_interrupt = false;
    m.set_clock(t);
    // reference cycle list from the same state
    let int = t % md.frame() < 32;
    let (cy, info, pending_prefix) = {
        let mut bus = MachBus { m, overlay: vec![], int };
        let mut r = Ref::new(regfile_to_rz(rf), &mut bus);
        r.step();
        (std::mem::take(&mut r.cy), r.info, r.s.prefix != 0)
    };
    let expect = md.run(&cy, t) % md.frame();
    let plain: usize = cy.iter().map(|c| c.tstates() as usize).sum();
    m.step();
    let got = m.clock();
    if pending_prefix {
        // an interrupt handler starting with DD/FD + prefix byte leaves a pending prefix inside the
        // CPU; consume it with a NOP so that the next case starts from a clean boundary
        m.poke(0x8000, 0);
        m.cpu().regs.set_pc(0x8000);
        m.step();
    }
    if md.is128 {
        // an OUT of the case itself may have hit the paging latch: resynchronise from the hook;
        // a locked machine is replaced so that bank diversity is kept
        let (v, locked) = m.emu.verif_paging();
        md.bank = v & 7;
        // a locked machine keeps its bank for good: stay with it for a while (contention must
        // still follow the bank), then replace it so that bank diversity is kept
        if locked {
            md.locked_cases += 1;
            if md.locked_cases > 300 {
                *m = Machine::new(Cfg::of(true));
                if let Some(e) = md.ext {
                    m.emu.set_io_extender(crate::host::LogExt::new(vec![e]));
                }
                md.bank = 0;
                md.locked_cases = 0;
            }
        }
    }
    st.cases += 1;
    st.ints += info.int_accepted as u64;
    if (expect + md.frame() - (t + plain) % md.frame()) % md.frame() != 0 {
        st.contended_delays += 1;
    }
    // shape = sequence of (cycle kind, contended?) – counts distinct contention shapes exercised
    let mut h = crate::rng::FNV_INIT;
    for c in cy.iter() {
        let (k, a) = match *c {
            Cy::M1(a) => (1u8, a),
            Cy::Rd(a, _) => (2, a),
            Cy::Wr(a, _) => (3, a),
            Cy::Dl(a) => (4, a),
            Cy::Ack(n) => (5, n as u16),
            Cy::In(p, _) => (6 + (p & 1) as u8, p),
            Cy::Out(p, _) => (8 + (p & 1) as u8, p),
        };
        crate::rng::fnv1a(&mut h, &[k, if k == 5 { a as u8 } else { md.contended(a) as u8 }]);
    }
    st.shapes.insert(h);
    if got != expect || verbose {
        let what = format!(
            "{} {}:{:02x} at T={} ({}K, bank {}): end clock {} != contention model {} (uncontended {} T)",
            if got != expect { "MISMATCH" } else { "ok" },
            PAGE_NAMES[info.page as usize], info.opcode, t, if md.is128 { 128 } else { 48 }, md.bank, got, expect, plain
        );
        if verbose {
            println!("{}\n  cycles={:?}", what, cy);
        }
        if got != expect {
            let kinds: Vec<&str> = {
                let mut v = vec![];
                if cy.iter().any(|c| matches!(c, Cy::In(..) | Cy::Out(..))) { v.push("io"); }
                if cy.iter().any(|c| matches!(c, Cy::Dl(a) if md.contended(*a))) { v.push("dl"); }
                if info.int_accepted { v.push("int"); }
                if v.is_empty() { v.push("mem"); }
                v
            };
            ctx.violation(
                &format!("contention:{}:{}", if md.is128 { "128k" } else { "48k" }, kinds.join("+")),
                &what,
                jobj! {"case"=>case_id,"is128"=>md.is128,"bank"=>md.bank,"page"=>page,"opcode"=>opcode,"t"=>t,"bytes"=>crate::json::hex(&bytes),
                       "regs"=>rf_json(rf),"cycles"=>format!("{:?}", cy),"expected_end"=>expect,"observed_end"=>got,
                       "extender_mask"=>md.ext.map(|e| e.0 as i64).unwrap_or(0),"extender_value"=>md.ext.map(|e| e.1 as i64).unwrap_or(-1)},
            );
        }
    }
    if st.sample.is_none() {
        st.sample = Some(jobj! {"is128"=>md.is128,"bank"=>md.bank,"t"=>t,"bytes"=>crate::json::hex(&bytes),"cycles"=>format!("{:?}", cy),"expected_end"=>expect,"observed_end"=>got});
    }
}

/// representative encodings, one per distinct cycle shape (thorough: every start T-state)
const REPS: &[(u8, u8)] = &[
    (0, 0x00), (0, 0x01), (0, 0x02), (0, 0x03), (0, 0x09), (0, 0x0A), (0, 0x10), (0, 0x18), (0, 0x20), (0, 0x22), (0, 0x2A),
    (0, 0x32), (0, 0x34), (0, 0x36), (0, 0x3A), (0, 0x46), (0, 0x70), (0, 0x76), (0, 0x86), (0, 0xC0), (0, 0xC1), (0, 0xC3),
    (0, 0xC4), (0, 0xC5), (0, 0xC6), (0, 0xC7), (0, 0xC9), (0, 0xCD), (0, 0xD3), (0, 0xDB), (0, 0xE3), (0, 0xE9), (0, 0xF9),
    (1, 0x00), (1, 0x06), (1, 0x46), (1, 0x86), (2, 0x40), (2, 0x41), (2, 0x42), (2, 0x43), (2, 0x4B), (2, 0x44), (2, 0x45),
    (2, 0x47), (2, 0x57), (2, 0x67), (2, 0x6F), (2, 0xA0), (2, 0xA1), (2, 0xA2), (2, 0xA3), (2, 0xB0), (2, 0xB1), (2, 0xB2),
    (2, 0xB3), (2, 0xB8), (2, 0xB9), (2, 0xBA), (2, 0xBB), (2, 0x00), (3, 0x09), (3, 0x21), (3, 0x22), (3, 0x23), (3, 0x34),
    (3, 0x36), (3, 0x46), (3, 0x70), (3, 0x86), (3, 0xE1), (3, 0xE3), (3, 0xE5), (3, 0xE9), (3, 0xF9), (4, 0x7E), (5, 0x06),
    (5, 0x46), (5, 0x86), (6, 0x0E),
];

pub fn run(ctx: &Ctx) -> Evidence {
    let mut ev = Evidence::new("one single-stepped instruction on the full 48K/128K machine from a chosen frame T-state; every encoding with code/operand pointers/stack/I/port high byte placed in contended, uncontended, bank-dependent and window-border addresses, 128K bank at 0xC000 changed by emulated OUT 7FFD, interrupt entry when T<32; end clock compared exactly with the statement's contention model applied to the reference cycle list. distinct = distinct (cycle kind, contended?) shapes");
    if let Some(r) = &ctx.replay {
        let d = r.get("details").cloned().unwrap_or(J::Null);
        let is128 = matches!(d.get("is128"), Some(J::Bool(true)));
        let mut m = Machine::new(Cfg::of(is128));
        let mut md = Model { is128, bank: 0, locked_cases: 0, ext: None };
        let em = d.get("extender_mask").and_then(|x| x.as_i64()).unwrap_or(0);
        if em != 0 {
            let e = (em as u16, d.get("extender_value").and_then(|x| x.as_i64()).unwrap_or(0) as u16);
            md.ext = Some(e);
            m.emu.set_io_extender(crate::host::LogExt::new(vec![e]));
        }
        let bank = d.get("bank").and_then(|x| x.as_i64()).unwrap_or(0) as u8;
        if is128 {
            m.out(0x7FFD, bank);
            md.bank = bank;
        }
        let case = d.get("case").and_then(|x| x.as_i64()).unwrap_or(0) as u64;
        let mut rng = Rng::fork(ctx.seed ^ 0xC04, case);
        let mut st = St { cases: 0, shapes: HashSet::new(), contended_delays: 0, ints: 0, sample: None };
        let page = d.get("page").and_then(|x| x.as_i64()).unwrap_or(0) as u8;
        let op = d.get("opcode").and_then(|x| x.as_i64()).unwrap_or(0) as u8;
        let _ = &mut rng;
        let bytes = crate::json::unhex(d.get("bytes").and_then(|x| x.as_str()).unwrap_or(""));
        let rf = rf_from_json(d.get("regs").unwrap_or(&J::Null));
        let t = d.get("t").and_then(|x| x.as_i64()).unwrap_or(0) as usize;
        exec_case(ctx, &mut m, &mut md, page, op, &bytes, &rf, t, &mut st, case, true);
        ev.evaluations = 1;
        ev.distinct_nontrivial = 2;
        return ev;
    }
    let shards = 64usize;
    let n_random = ctx.scale(3_000_000, 40_000_000);
    let thorough = !ctx.quick();
    let res = par_map(ctx.jobs(), shards, |sh| {
        let mut st = St { cases: 0, shapes: HashSet::new(), contended_delays: 0, ints: 0, sample: None };
        let encs: Vec<(u8, u8)> = (0..7u8).flat_map(|p| (0..=255u8).map(move |o| (p, o))).filter(|(p, o)| is_instruction(*p, *o)).collect();
        for is128 in [false, true] {
            let mut m = Machine::new(Cfg::of(is128));
            let mut md = Model { is128, bank: 0, locked_cases: 0, ext: None };
            if sh % 3 == 1 {
                // a quarter of all ports, of both parities and with every high byte, none of them the
                // paging port or 0xFE: low-byte bits 4,3 == 0,1
                md.ext = Some((0x0018, 0x0008));
                m.emu.set_io_extender(crate::host::LogExt::new(vec![(0x0018, 0x0008)]));
            }
            let per = n_random as usize / shards / 2;
            for i in 0..per {
                let case_id = ((is128 as u64) << 40) | (sh * per + i) as u64;
                let mut rng = Rng::fork(ctx.seed ^ 0xC04, case_id);
                let (p, o) = encs[rng.below(encs.len() as u64) as usize];
                one_case(ctx, &mut m, &mut md, &mut rng, p, o, None, None, &mut st, case_id, false);
            }
            // sweep of start T-states for the representative shapes in 4 placements
            let fr = md.frame();
            for (ri, (p, o)) in REPS.iter().enumerate() {
                for placement in 0..4u8 {
                    let unit = ri * 4 + placement as usize;
                    if unit % shards != sh {
                        continue;
                    }
                    let case_id = (1u64 << 48) | ((is128 as u64) << 40) | unit as u64;
                    let mut rng = Rng::fork(ctx.seed ^ 0xC04, case_id);
                    let step = if thorough { 1 } else { 61 };
                    let mut t = (unit * 7) % step;
                    while t < fr {
                        one_case(ctx, &mut m, &mut md, &mut rng, *p, *o, Some(placement), Some(t), &mut st, case_id, false);
                        t += step;
                    }
                }
            }
        }
        st
    });
    let mut shapes = HashSet::new();
    for r in res {
        ev.evaluations += r.cases;
        ev.add_num("cases_with_nonzero_contention_delay", r.contended_delays);
        ev.add_num("interrupt_entries", r.ints);
        shapes.extend(r.shapes);
        if let Some(s) = r.sample {
            ev.sample(s);
        }
    }
    ev.distinct_nontrivial = shapes.len() as u64;
    ev.add("representative_shapes_swept_over_T", REPS.len() * 4 * 2);
    ev.add("start_T_sweep_step", if thorough { 1 } else { 61 });
    if thorough {
        ev.exhaustive = Some(true);
        ev.add("exhaustive_subspace", "every start T-state of the frame for each representative shape x 4 placements x both machines");
    }
    crate::z80work::qualify_reference(ctx, &mut ev);
    ctx.require("cases", ev.evaluations, 100_000);
    ctx.require("distinct contention shapes", ev.distinct_nontrivial, 200);
    ev.assumptions.push("uncontended cycle lists come from the qualified reference model refz80".into());
    ev.assumptions.push("contention model typed from the statement (T0, line length, pattern, four port patterns)".into());
    ev
}
