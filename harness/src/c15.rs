//! C15 – loaders are total: any byte string / failing asset gives Ok or Err, never a crash, hang or
//! an allocation out of proportion to the input.
//!
//! Observed (per sub-run): the outcome of one public load entry point – `load_snapshot` (SNA, SZX),
//! `load_tape` followed by playing frames and by ROM LD-BYTES fast-load requests, `load_screen`,
//! `load_rom`, `GzipAsset::new` (+ SNA load of the result), `Vtx::load` – on one input through one
//! asset implementation, followed by 3 emulated frames:
//!   Ok / Err / panic (catch_unwind; message @ file:line from the panic hook) / abort / hang /
//!   largest single allocation request (counting `#[global_allocator]`, armed only around the call).
//! Oracle: no panic (release *and* the `checked` profile, where arithmetic overflow panics), no abort,
//! completion within the watchdog (>= 400x the slowest valid load; a suspect is re-run alone with a
//! 10x limit before it is called a hang, an unreproduced suspect makes the run inconclusive), largest
//! single request <= 1 MiB + 2 x 1032 x input length (1032 = maximal deflate expansion, x2 because a
//! growing Vec legitimately doubles while inflating an honest stream).
//!
//! Process model: the parent spawns worker sub-processes (`vcheck C15 --worker …`, same binary and
//! the `checked` build) on small id ranges; a worker prints `B id sub` before every sub-run and an
//! `R` line for every non-clean outcome; the allocator refuses requests above 2 GiB after writing
//! an `A` line (the resulting abort kills only the worker); a silent worker is killed by the parent,
//! which records the sub-run and resumes behind it.
//!
//! Inputs are a pure function of (seed, id): first the complete list of structure-aware mutants of
//! valid files (every truncation boundary, short chunks, out-of-range enumerations, hostile length
//! fields …; the list does not depend on the seed, the base files do), then havoc mutations of valid
//! files, then random strings of structured lengths. Every input runs on both models through the
//! in-memory cursor and one short-read asset; every third input (all in thorough) additionally gets
//! **fault enumeration**: a counting dry run discovers how many read/seek operations the loader (and
//! the subsequent playing / fast loading) performs and each of them is made to fail in turn.
//!
//! Keys: `format|outcome|panic-site basename|message, digits normalised|structural trigger`; the
//! trigger is the mutation's label (`havoc` / `random` for unstructured inputs; `@model-mismatch` is
//! appended when the file, sniffed per the format specification, is for the other machine model –
//! structured mutants are only run on their own model, except the `valid` files).
use crate::host::{catch, Cfg, DynAsset, Faulty, Machine, ShortRead};
use crate::json::{hex, J};
use crate::report::{verif_root, Ctx, Evidence};
use crate::rng::Rng;
use crate::spec_snap::*;
use rustzx_core::host::{BufferCursor, RomFormat, RomSet, Screen, Snapshot, Tape};
use std::alloc::{GlobalAlloc, Layout, System};
use std::cell::Cell;
use std::collections::{BTreeMap, HashSet};
use std::io::{BufRead, Read, Seek, Write};
use std::rc::Rc;
use std::sync::atomic::{AtomicBool, AtomicUsize, Ordering};
use std::sync::Mutex;
use std::time::Duration;

// ------------------------------------------------------------------------------------ allocator
pub struct Counting;
static ARMED: AtomicBool = AtomicBool::new(false);
static MAX_REQ: AtomicUsize = AtomicUsize::new(0);
const REFUSE_ABOVE: usize = 2 << 30;

#[inline]
fn note(size: usize) -> bool {
    if ARMED.load(Ordering::Relaxed) {
        MAX_REQ.fetch_max(size, Ordering::Relaxed);
        if size > REFUSE_ABOVE {
            // no allocation allowed here: format into a stack buffer and write(2) it
            let mut buf = [0u8; 32];
            let mut n = size;
            let mut i = buf.len();
            buf[i - 1] = b'\n';
            i -= 1;
            loop {
                i -= 1;
                buf[i] = b'0' + (n % 10) as u8;
                n /= 10;
                if n == 0 {
                    break;
                }
            }
            i -= 2;
            buf[i] = b'A';
            buf[i + 1] = b' ';
            unsafe {
                libc::write(1, buf[i..].as_ptr() as *const libc::c_void, buf.len() - i);
            }
            return false;
        }
    }
    true
}

unsafe impl GlobalAlloc for Counting {
    unsafe fn alloc(&self, l: Layout) -> *mut u8 {
        if !note(l.size()) {
            return std::ptr::null_mut();
        }
        System.alloc(l)
    }
    unsafe fn alloc_zeroed(&self, l: Layout) -> *mut u8 {
        if !note(l.size()) {
            return std::ptr::null_mut();
        }
        System.alloc_zeroed(l)
    }
    unsafe fn dealloc(&self, p: *mut u8, l: Layout) {
        System.dealloc(p, l)
    }
    unsafe fn realloc(&self, p: *mut u8, l: Layout, new_size: usize) -> *mut u8 {
        if !note(new_size) {
            return std::ptr::null_mut();
        }
        System.realloc(p, l, new_size)
    }
}

#[global_allocator]
static GLOBAL: Counting = Counting;

fn alloc_bound(input_len: usize) -> usize {
    (1 << 20) + 2 * 1032 * input_len
}

// ------------------------------------------------------------------------------------ inputs
#[derive(Clone, Copy, Debug, PartialEq, Eq, Hash, PartialOrd, Ord)]
pub enum F {
    Sna,
    Szx,
    Tap,
    Scr,
    Rom,
    Gz,
    Vtx,
}
impl F {
    fn name(&self) -> &'static str {
        match self {
            F::Sna => "sna",
            F::Szx => "szx",
            F::Tap => "tap",
            F::Scr => "scr",
            F::Rom => "rom",
            F::Gz => "gz",
            F::Vtx => "vtx",
        }
    }
    const ALL: [F; 7] = [F::Sna, F::Szx, F::Tap, F::Scr, F::Rom, F::Gz, F::Vtx];
}

type Gen = Box<dyn Fn(&mut Rng) -> Vec<u8>>;
struct Spec {
    fmt: F,
    trigger: String,
    gen: Gen,
}

/// small, compressible abstract state (keeps SZX bases small so that enumeration stays cheap)
fn small_abs(rng: &mut Rng, is128: bool) -> Abs {
    let mut a = Abs::random(rng, is128);
    for (i, p) in a.pages.iter_mut().enumerate() {
        let fillv = rng.u8();
        for (o, b) in p.iter_mut().enumerate() {
            *b = if o % 251 == i { fillv } else { (i as u8).wrapping_mul(17) };
        }
    }
    a.r.sp = 0x8000 + rng.below(0x3000) as u16;
    a
}

fn base_szx(rng: &mut Rng, is128: bool, comp: Comp) -> SzxFile {
    let mut a = small_abs(rng, is128);
    a.ay = Some(AyState { flags: 2, cur: rng.u8() & 15, regs: [1; 16] });
    a.mouse = Some(rng.bool());
    a.keyb = Some(0);
    let o = SzxOpts { minor: 4, comp: vec![comp], shuffle: false, unknown: 1, crtr: Some(3), halt_pc_after: true };
    szx_file(&a, &o, rng)
}

fn tap_block(flag: u8, data: &[u8]) -> Vec<u8> {
    let mut v = vec![];
    let len = data.len() + 2;
    v.extend_from_slice(&(len as u16).to_le_bytes());
    v.push(flag);
    v.extend_from_slice(data);
    v.push(data.iter().fold(flag, |a, b| a ^ b));
    v
}

fn base_tap(rng: &mut Rng) -> Vec<u8> {
    let n = *rng.pick(&[1usize, 20, 126, 127, 128, 200, 255, 300, 513]);
    let data = rng.bytes(n);
    let mut hdr = vec![3u8];
    hdr.extend_from_slice(b"vcheck    ");
    hdr.extend_from_slice(&(n as u16).to_le_bytes());
    hdr.extend_from_slice(&[0x00, 0x80, 0x00, 0x80]);
    let mut v = tap_block(0x00, &hdr);
    v.extend(tap_block(0xFF, &data));
    v
}

fn repo_file(rel: &str) -> Vec<u8> {
    std::fs::read(crate::report::repo_root().join(rel)).unwrap_or_default()
}

const VTX_FILES: [&str; 4] = ["vtx/src/test/csoon.vtx", "vtx/src/test/secret.vtx", "vtx/src/test/sil00.vtx", "vtx/src/test/spf21_00.vtx"];
fn base_vtx(rng: &mut Rng) -> Vec<u8> {
    repo_file(*rng.pick(&VTX_FILES))
}

/// synthetic VTX header (spec: id, stereo, loop, chip freq, player freq, year, unpacked size, 5 strings)
fn vtx_header(size: u32, strings: &[&[u8]]) -> Vec<u8> {
    let mut v = b"ay".to_vec();
    v.push(1);
    v.extend_from_slice(&0u16.to_le_bytes());
    v.extend_from_slice(&1_773_400u32.to_le_bytes());
    v.push(50);
    v.extend_from_slice(&1999u16.to_le_bytes());
    v.extend_from_slice(&size.to_le_bytes());
    for s in strings {
        v.extend_from_slice(s);
        v.push(0);
    }
    v
}

fn gz(data: &[u8]) -> Vec<u8> {
    let mut e = flate2::write::GzEncoder::new(Vec::new(), flate2::Compression::default());
    e.write_all(data).unwrap();
    e.finish().unwrap()
}

fn rom_container(pages: &[Vec<u8>]) -> Vec<u8> {
    let mut v = vec![pages.len() as u8];
    for p in pages {
        v.extend_from_slice(&(p.len() as u32).to_le_bytes());
        v.extend_from_slice(p);
    }
    v
}
fn rom_pages(d: &[u8]) -> Vec<Vec<u8>> {
    let mut out = vec![];
    if d.is_empty() {
        return out;
    }
    let n = (d[0] % 5) as usize;
    let mut o = 1;
    for _ in 0..n {
        if o + 4 > d.len() {
            break;
        }
        let l = u32::from_le_bytes([d[o], d[o + 1], d[o + 2], d[o + 3]]) as usize % 40000;
        o += 4;
        let e = (o + l).min(d.len());
        out.push(d[o..e].to_vec());
        o = e;
    }
    out
}

fn base_of(f: F, rng: &mut Rng) -> Vec<u8> {
    match f {
        F::Sna => {
            let m = rng.bool();
            write_sna(&small_abs(rng, m))
        }
        F::Szx => {
            let is128 = rng.bool();
            let comp = *rng.pick(&[Comp::Stored, Comp::Miniz(6), Comp::Miniz(6), Comp::Hand(16384)]);
            base_szx(rng, is128, comp).to_bytes()
        }
        F::Tap => base_tap(rng),
        F::Scr => rng.bytes(6912),
        F::Rom => rom_container(&[rng.bytes(16384), rng.bytes(16384)]),
        F::Gz => gz(&write_sna(&small_abs(rng, false))),
        F::Vtx => base_vtx(rng),
    }
}

fn spec(fmt: F, trigger: &str, gen: impl Fn(&mut Rng) -> Vec<u8> + 'static) -> Spec {
    Spec { fmt, trigger: trigger.to_string(), gen: Box::new(gen) }
}

fn szx_mut(out: &mut Vec<Spec>, trigger: &str, f: impl Fn(&mut SzxFile, &mut Rng) + 'static + Clone) {
    for is128 in [false, true] {
        let f = f.clone();
        out.push(spec(F::Szx, trigger, move |r| {
            let mut s = base_szx(r, is128, Comp::Miniz(6));
            f(&mut s, r);
            s.to_bytes()
        }));
    }
}

const KNOWN_CHUNKS: [(&[u8; 4], usize); 7] = [(b"CRTR", 36), (b"Z80R", 37), (b"SPCR", 8), (b"AY\0\0", 18), (b"KEYB", 5), (b"AMXM", 7), (b"RAMP", 3 + 16384)];

/// The complete list of structure-aware mutants (independent of the seed; base files are not).
fn structured() -> Vec<Spec> {
    let mut v: Vec<Spec> = vec![];
    // ---- valid files first: they calibrate "Ok" and must stay clean
    for f in F::ALL {
        v.push(spec(f, "valid", move |r| base_of(f, r)));
    }
    // valid snapshots of either model (each also meets the machine of the other model)
    for is128 in [false, true] {
        v.push(spec(F::Sna, "valid", move |r| write_sna(&small_abs(r, is128))));
        for comp in [Comp::Stored, Comp::Miniz(6), Comp::Hand(4096)] {
            v.push(spec(F::Szx, "valid", move |r| base_szx(r, is128, comp).to_bytes()));
        }
        v.push(spec(F::Gz, "valid", move |r| gz(&write_sna(&small_abs(r, is128)))));
    }
    // ---- SNA
    for is128 in [false, true] {
        for cut in [0usize, 1, 26, 27, 28, 49178, 49179, 49180, 49181, 49182, 49183, 49184, 65563, 131102, 131103, 131104, 147486, 147487, 147488] {
            v.push(spec(F::Sna, "trunc-or-pad", move |r| {
                let mut b = write_sna(&small_abs(r, is128));
                b.resize(cut, 0x55);
                b
            }));
        }
        for im in [3u8, 4, 0x7F, 0xFF] {
            v.push(spec(F::Sna, "im>2", move |r| {
                let mut b = write_sna(&small_abs(r, is128));
                b[25] = im;
                b
            }));
        }
        for x in [8u8, 0x80, 0xFF] {
            v.push(spec(F::Sna, "border>7", move |r| {
                let mut b = write_sna(&small_abs(r, is128));
                b[26] = x;
                b
            }));
            v.push(spec(F::Sna, "iff-garbage", move |r| {
                let mut b = write_sna(&small_abs(r, is128));
                b[19] = x;
                b
            }));
        }
        v.push(spec(F::Sna, "sp-in-rom", move |r| {
            let mut b = write_sna(&small_abs(r, is128));
            let sp = *r.pick(&[0u16, 1, 2, 0x3FFF, 0xFFFF]);
            b[23] = sp as u8;
            b[24] = (sp >> 8) as u8;
            b
        }));
    }
    for latch in [0x08u8, 0x20, 0x3F, 0x40, 0x80, 0xC7, 0xFF, 0x15, 0x12] {
        v.push(spec(F::Sna, "latch-any", move |r| {
            let mut a = small_abs(r, true);
            a.latch = latch;
            let mut b = write_sna(&a);
            if b.len() > 49182 {
                b[49182] = r.u8();
            }
            b
        }));
    }
    // ---- SZX
    for cut in 0..=8usize {
        v.push(spec(F::Szx, "trunc-header", move |r| base_szx(r, false, Comp::Miniz(6)).to_bytes()[..cut].to_vec()));
    }
    v.push(spec(F::Szx, "bad-magic", |r| {
        let mut b = base_szx(r, false, Comp::Miniz(6)).to_bytes();
        b[r.below(4) as usize] ^= 0x20;
        b
    }));
    v.push(spec(F::Szx, "magic-nonutf8", |r| {
        let mut b = base_szx(r, false, Comp::Miniz(6)).to_bytes();
        b[1] = 0xFF;
        b
    }));
    for mid in [0u8, 3, 4, 7, 16, 0x80, 0xFF] {
        szx_mut(&mut v, "machine-id", move |s, _| s.machine = mid);
    }
    for id in [[0xFFu8, 0xFE, 0x80, 0x00], [b'R', b'A', 0xC3, 0x28], [0x80, b'8', b'0', b'R'], [0xF0, 0x9F, 0x98, 0x80]] {
        szx_mut(&mut v, "chunk-id-nonutf8", move |s, r| {
            let k = r.below(s.chunks.len() as u64) as usize;
            s.chunks.insert(k, Chunk { id, data: r.bytes(5) });
        });
    }
    szx_mut(&mut v, "chunk-id-multibyte-utf8", |s, r| s.chunks.insert(0, Chunk { id: [0xC3, 0x9F, b'a', b'b'], data: r.bytes(3) }));
    szx_mut(&mut v, "chunk-id-lowercase", |s, r| {
        let k = r.below(s.chunks.len() as u64) as usize;
        for c in s.chunks[k].id.iter_mut() {
            *c = c.to_ascii_lowercase();
        }
    });
    for (id, full) in KNOWN_CHUNKS {
        let mut lens: Vec<usize> = vec![0, 1, 2, 3, 4, full / 2, full - 2, full - 1, full + 1];
        if *id == *b"CRTR" {
            lens.extend([31, 32, 33, 34, 35, 36, 37, 38]);
        }
        if *id == *b"RAMP" {
            lens.extend([3 + 1, 3 + 16383, 3 + 16385, 3 + 40000]);
        }
        if *id == *b"AY\0\0" {
            lens.extend([16, 17]);
        }
        if *id == *b"Z80R" {
            lens.extend([29, 33, 34, 35, 36]);
        }
        lens.sort();
        lens.dedup();
        for l in lens {
            let idc = *id;
            let trig = format!("short-or-long-chunk:{}", String::from_utf8_lossy(id).trim_end_matches('\0'));
            // stored pages so that RAMP lengths mean what they say
            for is128 in [false, true] {
                v.push(spec(F::Szx, &trig, move |r| {
                    let mut s = base_szx(r, is128, Comp::Stored);
                    if let Some(k) = s.find(&idc) {
                        let fillb = r.u8();
                        s.chunks[k].data.resize(l, fillb);
                    }
                    s.to_bytes()
                }));
                // chunk ids are matched case-insensitively by the loader: the same length games
                // with the id spelled in lower / mixed case
                if l < full {
                    let trig2 = format!("{}:id-case", trig);
                    v.push(spec(F::Szx, &trig2, move |r| {
                        let mut s = base_szx(r, is128, Comp::Stored);
                        if let Some(k) = s.find(&idc) {
                            let fillb = r.u8();
                            s.chunks[k].data.resize(l, fillb);
                            let mode = r.below(3);
                            for (i, c) in s.chunks[k].id.iter_mut().enumerate() {
                                if mode == 0 || (mode == 1 && i % 2 == 0) || (mode == 2 && i == 3) {
                                    *c = c.to_ascii_lowercase();
                                }
                            }
                        }
                        s.to_bytes()
                    }));
                }
            }
        }
    }
    szx_mut(&mut v, "crtr-nonutf8", |s, r| {
        let k = s.find(b"CRTR").unwrap();
        let p = r.below(32) as usize;
        s.chunks[k].data[p] = 0xFF;
    });
    szx_mut(&mut v, "crtr-no-nul", |s, _| {
        let k = s.find(b"CRTR").unwrap();
        for b in s.chunks[k].data[..32].iter_mut() {
            *b = b'x';
        }
    });
    for im in [3u8, 4, 0x80, 0xFF] {
        szx_mut(&mut v, "z80r-im>2", move |s, _| {
            let k = s.find(b"Z80R").unwrap();
            s.chunks[k].data[28] = im;
        });
    }
    for cyc in [69887u32, 69888, 70908, 100_000, 0x7FFF_FFFF, 0x8000_0000, 0xFFFF_FFFF] {
        szx_mut(&mut v, "z80r-cycles>=frame", move |s, _| {
            let k = s.find(b"Z80R").unwrap();
            s.chunks[k].data[29..33].copy_from_slice(&cyc.to_le_bytes());
        });
    }
    szx_mut(&mut v, "z80r-flags-all", |s, _| {
        let k = s.find(b"Z80R").unwrap();
        s.chunks[k].data[34] = 0xFF;
        s.chunks[k].data[26] = 0xFF;
    });
    for b in [8u8, 9, 0x10, 0x80, 0xFF] {
        szx_mut(&mut v, "spcr-border>7", move |s, _| {
            let k = s.find(b"SPCR").unwrap();
            s.chunks[k].data[0] = b;
        });
    }
    for b in [0x20u8, 0x3F, 0x47, 0xFF] {
        szx_mut(&mut v, "spcr-7ffd-any", move |s, r| {
            let k = s.find(b"SPCR").unwrap();
            s.chunks[k].data[1] = b;
            s.chunks[k].data[3] = r.u8();
        });
    }
    for p in [1u8, 3, 4, 6, 7, 8, 9, 0x10, 0x7F, 0x80, 0xFF] {
        szx_mut(&mut v, if p < 8 { "ramp-page-3..7" } else { "ramp-page>7" }, move |s, _| {
            let k = s.find(b"RAMP").unwrap();
            s.chunks[k].data[2] = p;
        });
    }
    for fl in [2u16, 3, 0x100, 0xFFFF, 0xFFFE] {
        szx_mut(&mut v, "ramp-flags-garbage", move |s, _| {
            let k = s.find(b"RAMP").unwrap();
            s.chunks[k].data[..2].copy_from_slice(&fl.to_le_bytes());
        });
    }
    szx_mut(&mut v, "ramp-stored-flagged-compressed", |s, r| {
        let k = s.find(b"RAMP").unwrap();
        let pn = s.chunks[k].data[2];
        let mut d = vec![1, 0, pn];
        d.extend(r.bytes(16384));
        s.chunks[k].data = d;
    });
    szx_mut(&mut v, "ramp-zlib-garbage", |s, r| {
        let k = s.find(b"RAMP").unwrap();
        let pn = s.chunks[k].data[2];
        let mut d = vec![1, 0, pn];
        let n = *r.pick(&[0usize, 1, 2, 6, 100]);
        d.extend(r.bytes(n));
        s.chunks[k].data = d;
    });
    for n in [0usize, 1, 100, 16383, 16385, 65535, 65536, 200_000] {
        szx_mut(&mut v, if n < 16384 { "ramp-zlib-inflates-short" } else { "ramp-zlib-inflates-long" }, move |s, r| {
            let k = s.find(b"RAMP").unwrap();
            let pn = s.chunks[k].data[2];
            let c = if r.bool() { Comp::Miniz(6) } else { Comp::Hand(60000) };
            s.chunks[k] = ramp_chunk(pn, &vec![0x11u8; n], c);
        });
    }
    szx_mut(&mut v, "ramp-zlib-truncated", |s, r| {
        let k = s.find(b"RAMP").unwrap();
        let n = s.chunks[k].data.len();
        let cut = 3 + r.below((n - 3) as u64) as usize;
        s.chunks[k].data.truncate(cut);
    });
    // hostile length fields (the file ends where it ends)
    for (lab, val) in [("len-ffffffff", 0xFFFF_FFFFu32), ("len-80000000", 0x8000_0000), ("len-7fffffff", 0x7FFF_FFFF), ("len-40000000", 0x4000_0000), ("len-1000000", 0x0100_0000)] {
        for which in [0usize, 1, 5] {
            for is128 in [false, true] {
                let _ = lab;
                v.push(spec(F::Szx, "chunk-len-huge", move |r| {
                    let s = base_szx(r, is128, Comp::Miniz(6));
                    let mut b = s.to_bytes();
                    let mut o = 8;
                    for c in s.chunks.iter().take(which.min(s.chunks.len() - 1)) {
                        o += 8 + c.data.len();
                    }
                    b[o + 4..o + 8].copy_from_slice(&val.to_le_bytes());
                    b
                }));
            }
        }
    }
    for d in [-1i64, 1, 7, -8] {
        for is128 in [false, true] {
            v.push(spec(F::Szx, "havoc", move |r| { // a length that is off by a little shifts the whole chunk grid: unstructured
                let s = base_szx(r, is128, Comp::Miniz(6));
                let mut b = s.to_bytes();
                let k = r.below(s.chunks.len() as u64) as usize;
                let mut o = 8;
                for c in s.chunks.iter().take(k) {
                    o += 8 + c.data.len();
                }
                let l = (s.chunks[k].data.len() as i64 + d).max(0) as u32;
                b[o + 4..o + 8].copy_from_slice(&l.to_le_bytes());
                b
            }));
        }
    }
    // register + port chunks repeated with the stored frame position going backwards and forwards
    // (every SPCR performs a real port write, i.e. clocks the devices in the middle of the load)
    for (c1, c2) in [(60000u32, 300u32), (300, 60000), (69000, 0), (40000, 39990)] {
        szx_mut(&mut v, "z80r-spcr-repeated-cycles", move |s, _| {
            let kz = s.find(b"Z80R").unwrap();
            let ks = s.find(b"SPCR").unwrap();
            let (mut z1, sp) = (s.chunks[kz].clone(), s.chunks[ks].clone());
            let mut z2 = z1.clone();
            z1.data[29..33].copy_from_slice(&c1.to_le_bytes());
            z2.data[29..33].copy_from_slice(&c2.to_le_bytes());
            s.chunks.retain(|c| c.id != *b"Z80R" && c.id != *b"SPCR");
            s.chunks.insert(0, sp.clone());
            s.chunks.insert(0, z2);
            s.chunks.insert(0, sp);
            s.chunks.insert(0, z1);
        });
    }
    for (id, _) in KNOWN_CHUNKS {
        let idc = *id;
        let trig = format!("dup-chunk:{}", String::from_utf8_lossy(id).trim_end_matches('\0'));
        szx_mut(&mut v, &trig, move |s, _| {
            // the copy goes to the end of the file (i.e. behind everything the first copy preceded)
            let k = s.find(&idc).unwrap();
            if idc == *b"Z80R" {
                // fixed mid-line frame position, so that the case does not depend on the seed
                s.chunks[k].data[29..33].copy_from_slice(&20000u32.to_le_bytes());
            }
            let c = s.chunks[k].clone();
            s.chunks.push(c);
        });
    }
    for (id, _) in KNOWN_CHUNKS {
        let idc = *id;
        szx_mut(&mut v, "missing-chunk", move |s, _| s.chunks.retain(|c| c.id != idc));
    }
    szx_mut(&mut v, "no-chunks", |s, _| s.chunks.clear());
    for _ in 0..12 {
        szx_mut(&mut v, "trunc", |s, r| {
            // at a chunk boundary +-1, inside a header, or anywhere
            let b = s.to_bytes();
            let mut bounds = vec![8usize];
            for c in &s.chunks {
                bounds.push(bounds.last().unwrap() + 8 + c.data.len());
            }
            let at = *r.pick(&bounds) as i64 + *r.pick(&[-1i64, 0, 1, 3, 4, 7, 8, 9]);
            let at = at.clamp(0, b.len() as i64) as usize;
            let cut = if r.chance(1, 4) { r.below(b.len() as u64) as usize } else { at };
            s.chunks.clear();
            s.chunks.push(Chunk { id: *b"\0\0\0\0", data: vec![] });
            s.major = 0xEE; // marker: replaced below
            s.flags = 0;
            // stash the truncated image in the single chunk (to_bytes is bypassed by the caller)
            s.chunks[0].data = b[..cut].to_vec();
        });
    }
    szx_mut(&mut v, "ay-flags", |s, r| {
        let k = s.find(b"AY\0\0").unwrap();
        s.chunks[k].data[0] = r.u8();
        s.chunks[k].data[1] = r.u8();
    });
    szx_mut(&mut v, "amxm-type-any", |s, r| {
        let k = s.find(b"AMXM").unwrap();
        s.chunks[k].data[0] = *r.pick(&[1u8, 3, 0x80, 0xFF]);
    });
    // ---- TAP
    for l in [0u16, 1, 2, 3, 127, 128, 129, 130, 255, 256, 257, 258, 384, 0x7FFF, 0xFFFF] {
        v.push(spec(F::Tap, "block-len-vs-rest", move |r| {
            let mut b = base_tap(r);
            b[0..2].copy_from_slice(&l.to_le_bytes());
            b
        }));
        v.push(spec(F::Tap, "block-of-exact-size", move |r| {
            let mut b = l.to_le_bytes().to_vec();
            b.extend(r.bytes(l as usize));
            b.extend(tap_block(0xFF, &r.bytes(5)));
            b
        }));
        v.push(spec(F::Tap, "second-block-len", move |r| {
            let mut b = base_tap(r);
            b[21..23].copy_from_slice(&l.to_le_bytes());
            b
        }));
    }
    for cut in [0usize, 1, 2, 3, 20, 21, 22, 23, 24] {
        v.push(spec(F::Tap, "trunc", move |r| {
            let mut b = base_tap(r);
            b.truncate(cut);
            b
        }));
    }
    v.push(spec(F::Tap, "trailing-byte", |r| {
        let mut b = base_tap(r);
        b.push(0x13);
        b
    }));
    v.push(spec(F::Tap, "bad-checksum", |r| {
        let mut b = base_tap(r);
        let n = b.len();
        b[n - 1] ^= 0x5A;
        b
    }));
    v.push(spec(F::Tap, "many-empty-blocks", |_| vec![0u8; 400]));
    // ---- SCR
    for l in [0usize, 1, 6143, 6144, 6911, 6912, 6913, 13824, 49179, 163840] {
        v.push(spec(F::Scr, "length", move |r| r.bytes(l)));
    }
    // ---- ROM
    for sizes in [vec![], vec![0usize], vec![1], vec![16383], vec![16384], vec![16385], vec![16384, 0], vec![16384, 16383], vec![16384, 16384], vec![16384, 16384, 16384], vec![32768], vec![8192, 8192]] {
        v.push(spec(F::Rom, "page-sizes", move |r| rom_container(&sizes.iter().map(|n| r.bytes(*n)).collect::<Vec<_>>())));
    }
    // ---- GZ
    v.push(spec(F::Gz, "empty", |_| vec![]));
    for cut in [1usize, 2, 3, 9, 10, 11, 18] {
        v.push(spec(F::Gz, "trunc-header", move |r| base_of(F::Gz, r)[..cut].to_vec()));
    }
    for back in [1usize, 4, 5, 8, 9, 40] {
        v.push(spec(F::Gz, "trunc-tail", move |r| {
            let b = base_of(F::Gz, r);
            b[..b.len().saturating_sub(back)].to_vec()
        }));
    }
    for (o, x) in [(0usize, 0x00u8), (1, 0x00), (2, 0x09), (3, 0xFF), (3, 0x04), (3, 0x08), (3, 0x10), (3, 0x02)] {
        v.push(spec(F::Gz, "header-field", move |r| {
            let mut b = base_of(F::Gz, r);
            b[o] = x;
            b
        }));
    }
    v.push(spec(F::Gz, "bad-crc", |r| {
        let mut b = base_of(F::Gz, r);
        let n = b.len();
        b[n - 6] ^= 0xFF;
        b
    }));
    v.push(spec(F::Gz, "bad-isize", |r| {
        let mut b = base_of(F::Gz, r);
        let n = b.len();
        b[n - 2] ^= 0xFF;
        b
    }));
    v.push(spec(F::Gz, "concatenated-members", |r| {
        let mut b = base_of(F::Gz, r);
        b.extend(gz(&r.bytes(100)));
        b
    }));
    for mb in [1usize, 8, 32] {
        v.push(spec(F::Gz, "bomb", move |_| gz(&vec![0u8; mb << 20])));
    }
    v.push(spec(F::Gz, "gz-of-garbage", |r| gz(&r.bytes(1000))));
    v.push(spec(F::Gz, "gz-of-empty", |_| gz(&[])));
    // ---- VTX
    for cut in 0..=17usize {
        v.push(spec(F::Vtx, "trunc-fixed-header", move |r| base_vtx(r)[..cut].to_vec()));
    }
    for nul in 0..=5usize {
        v.push(spec(F::Vtx, if nul < 5 { "eof-inside-strings" } else { "eof-after-strings" }, move |r| {
            let b = base_vtx(r);
            let mut seen = 0;
            let mut cut = 16;
            while cut < b.len() && seen < nul {
                if b[cut] == 0 {
                    seen += 1;
                }
                cut += 1;
            }
            // end the file in the middle of the next string (or right behind the fifth)
            let mut cut2 = cut;
            if nul < 5 && cut2 < b.len() && b[cut2] != 0 && r.bool() {
                cut2 += 1;
            }
            b[..cut2].to_vec()
        }));
    }
    v.push(spec(F::Vtx, "eof-inside-strings", |_| vtx_header(14, &[])));
    v.push(spec(F::Vtx, "long-strings-no-nul", |r| {
        let mut b = vtx_header(14, &[]);
        b.extend((0..*r.pick(&[255usize, 256, 257, 1000])).map(|_| b'x'));
        b
    }));
    v.push(spec(F::Vtx, "strings-over-256-boundary", |r| {
        let long = vec![b'a'; *r.pick(&[250usize, 254, 255, 256, 257, 511, 512])];
        let mut b = vtx_header(14, &[&long, b"b", b"", b"d", b"e"]);
        b.extend([0u8; 40]);
        b
    }));
    for sz in [0u32, 14, 28, 13, 15, 0x0100_0000 / 14 * 14, 0x4000_0000 / 14 * 14, 0x7FFF_FFFF / 14 * 14, 0x8000_0000u32 / 14 * 14 + 14, 0xFFFF_FFFF / 14 * 14] {
        for file in VTX_FILES {
            v.push(spec(F::Vtx, if sz >= 0x00F0_0000 { "unpacked-size-huge" } else { "unpacked-size-small" }, move |_| {
                let mut b = repo_file(file);
                b[12..16].copy_from_slice(&sz.to_le_bytes());
                b
            }));
        }
        v.push(spec(F::Vtx, if sz >= 0x00F0_0000 { "unpacked-size-huge" } else { "unpacked-size-small" }, move |_| vtx_header(sz, &[b"t", b"a", b"f", b"tr", b"c"])));
    }
    // a fixed invalid LH5 stream behind a well-formed header (found by the havoc stage, kept as a regression vector)
    v.push(spec(F::Vtx, "lh5-stream-invalid", |_| crate::json::unhex("6179010000580f1b0032cf078c00000074006100660074720063007ef90930c80e94657ee54f011966ae552c51b06d87bca809704333796ad51292fc35801ec51a66065dd40ec45eb8ff611475fa90ab7feee1615dd1d34f69e24d903015118336bc0cc8b8a8e5616d08402e45c15866d69093c37e13f4f5dd84f813ea785e4495dc24bb774c6068a2c96584a6f520459a582f61ccda54dcbc0242d908b2b9a39113c2a6cabfa6398fb3abc956f3fac96728d3cff3efa68e4fc4315bd84e3f50c20670aeebbd54394d495a13364ddf1755d4b12adab1c1e4")));
    for st in [7u8, 8, 0x80, 0xFF] {
        v.push(spec(F::Vtx, "stereo>6", move |r| {
            let mut b = base_vtx(r);
            b[2] = st;
            b
        }));
    }
    v.push(spec(F::Vtx, "bad-id", |r| {
        let mut b = base_vtx(r);
        b[0] = b'x';
        b
    }));
    for _ in 0..6 {
        v.push(spec(F::Vtx, "trunc-lh5-data", |r| {
            let b = base_vtx(r);
            let cut = b.len() - 1 - r.below((b.len() / 2) as u64) as usize;
            b[..cut].to_vec()
        }));
        v.push(spec(F::Vtx, "havoc", |r| { // random bytes as LH5 data: unstructured
            let mut b = vtx_header(14 * *r.pick(&[1u32, 10, 1000]), &[b"t", b"a", b"f", b"tr", b"c"]);
            let n = r.below(300) as usize;
            b.extend(r.bytes(n));
            b
        }));
    }
    v
}

fn havoc(r: &mut Rng, mut b: Vec<u8>) -> Vec<u8> {
    let n = 1 + r.below(4);
    for _ in 0..n {
        if b.is_empty() {
            b.push(r.u8());
            continue;
        }
        let l = b.len() as u64;
        // bias towards the structured head of the file
        let pos = |r: &mut Rng| if r.bool() { r.below(l.min(96)) as usize } else { r.below(l) as usize };
        match r.below(8) {
            0 => {
                let p = pos(r);
                b[p] ^= 1 << r.below(8);
            }
            1 => {
                let p = pos(r);
                b[p] = r.ibyte();
            }
            2 => {
                let p = pos(r);
                let w = r.iword().to_le_bytes();
                b[p] = w[0];
                if p + 1 < b.len() {
                    b[p + 1] = w[1];
                }
            }
            3 => {
                let p = pos(r);
                let x = *r.pick(&[0u32, 1, 0xFFFF_FFFF, 0x8000_0000, 0x7FFF_FFFF, 0xFFFF, 0x10000, 16384, 16387]);
                for (i, y) in x.to_le_bytes().iter().enumerate() {
                    if p + i < b.len() {
                        b[p + i] = *y;
                    }
                }
            }
            4 => {
                let p = pos(r);
                b.truncate(p);
            }
            5 => {
                let (p, q) = (pos(r), pos(r));
                let n = r.below(64) as usize;
                let blk: Vec<u8> = b[q..(q + n).min(b.len())].to_vec();
                for (i, y) in blk.iter().enumerate() {
                    if p + i < b.len() {
                        b[p + i] = *y;
                    }
                }
            }
            6 => {
                let p = pos(r);
                let n = r.below(40) as usize;
                let ins = r.bytes(n);
                b.splice(p..p, ins);
            }
            _ => {
                let p = pos(r);
                let n = (r.below(16) as usize).min(b.len() - p);
                b.drain(p..p + n);
            }
        }
    }
    b.truncate(163_840);
    b
}

const RANDOM_LENS: [usize; 24] = [0, 1, 2, 7, 8, 9, 16, 26, 27, 28, 100, 6911, 6912, 6913, 16384, 49178, 49179, 49180, 131102, 131103, 131104, 147486, 147487, 147488];

pub struct Case {
    pub fmt: F,
    pub trigger: String,
    pub bytes: Vec<u8>,
}

thread_local!(static SPECS: std::cell::RefCell<Option<Rc<Vec<Spec>>>> = std::cell::RefCell::new(None));
fn specs() -> Rc<Vec<Spec>> {
    SPECS.with(|s| {
        let mut s = s.borrow_mut();
        if s.is_none() {
            *s = Some(Rc::new(structured()));
        }
        s.as_ref().unwrap().clone()
    })
}

/// the input of case `id` – a pure function of (seed, id)
pub fn gen_case(seed: u64, id: u64) -> Case {
    let mut r = Rng::fork(seed ^ 0xC15_0000, id);
    let sp = specs();
    let ns = sp.len() as u64;
    if id < ns {
        let s = &sp[id as usize];
        let mut bytes = (s.gen)(&mut r);
        // "trunc" of SZX smuggles the truncated image through a marker file
        if s.fmt == F::Szx && bytes.len() >= 16 && bytes[4] == 0xEE && &bytes[8..12] == b"\0\0\0\0" {
            bytes = bytes[16..].to_vec();
        }
        return Case { fmt: s.fmt, trigger: s.trigger.clone(), bytes };
    }
    let k = id - ns;
    let fmt = F::ALL[(k % 7) as usize];
    if k % 3 != 2 {
        let base = base_of(fmt, &mut r);
        Case { fmt, trigger: "havoc".into(), bytes: havoc(&mut r, base) }
    } else {
        let mut l = *r.pick(&RANDOM_LENS);
        if r.chance(1, 4) {
            l = r.below(4096) as usize;
        }
        let mut b = r.bytes(l);
        // give the parser a foothold in half of the cases
        if r.bool() && b.len() >= 8 {
            match fmt {
                F::Szx => {
                    b[..4].copy_from_slice(b"ZXST");
                    b[6] = r.below(3) as u8;
                }
                F::Gz => b[..3].copy_from_slice(&[0x1F, 0x8B, 8]),
                F::Vtx => {
                    b[..2].copy_from_slice(if r.bool() { b"ay" } else { b"ym" });
                    b[2] = r.below(7) as u8;
                }
                _ => {}
            }
        }
        Case { fmt, trigger: "random".into(), bytes: b }
    }
}

// ------------------------------------------------------------------------------------ assets
#[derive(Clone, Copy, Debug, PartialEq)]
pub enum AK {
    Mem,
    Short(usize),
    Fault(u64, u8),
    Count,
}
impl AK {
    fn name(&self) -> String {
        match self {
            AK::Mem => "mem".into(),
            AK::Short(k) => format!("short{}", k),
            AK::Fault(n, k) => format!("fault@{}/{}", n, k),
            AK::Count => "count".into(),
        }
    }
}

fn mk_asset(bytes: &[u8], ak: AK, ops: &Rc<Cell<u64>>) -> DynAsset {
    match ak {
        AK::Mem => DynAsset(Box::new(BufferCursor::new(bytes.to_vec()))),
        AK::Short(k) => DynAsset(Box::new(ShortRead::new(bytes.to_vec(), k))),
        AK::Fault(n, kind) => DynAsset(Box::new(Faulty { inner: ShortRead::new(bytes.to_vec(), usize::MAX), ops: ops.clone(), fail_at: n, kind, sticky: n % 2 == 1 })),
        AK::Count => DynAsset(Box::new(Faulty { inner: ShortRead::new(bytes.to_vec(), usize::MAX), ops: ops.clone(), fail_at: u64::MAX, kind: 0, sticky: false })),
    }
}

struct IoFault<T> {
    inner: T,
    ops: Rc<Cell<u64>>,
    fail_at: u64,
    short: usize,
}
impl<T> IoFault<T> {
    fn hit(&mut self) -> bool {
        let n = self.ops.get();
        self.ops.set(n + 1);
        n == self.fail_at
    }
}
impl<T: Read> Read for IoFault<T> {
    fn read(&mut self, buf: &mut [u8]) -> std::io::Result<usize> {
        if self.hit() {
            return Err(std::io::Error::new(std::io::ErrorKind::Other, "injected"));
        }
        let n = buf.len().min(self.short.max(1));
        self.inner.read(&mut buf[..n])
    }
}
impl<T: Seek> Seek for IoFault<T> {
    fn seek(&mut self, p: std::io::SeekFrom) -> std::io::Result<u64> {
        if self.hit() {
            return Err(std::io::Error::new(std::io::ErrorKind::Other, "injected"));
        }
        self.inner.seek(p)
    }
}
fn io_reader(bytes: &[u8], ak: AK, ops: &Rc<Cell<u64>>) -> IoFault<std::io::Cursor<Vec<u8>>> {
    let (fail_at, short) = match ak {
        AK::Mem => (u64::MAX, usize::MAX),
        AK::Short(k) => (u64::MAX, k),
        AK::Fault(n, _) => (n, usize::MAX),
        AK::Count => (u64::MAX, usize::MAX),
    };
    IoFault { inner: std::io::Cursor::new(bytes.to_vec()), ops: ops.clone(), fail_at, short }
}

struct DynRomSet {
    pages: Vec<DynAsset>,
}
impl RomSet for DynRomSet {
    type Asset = DynAsset;
    fn format(&self) -> RomFormat {
        RomFormat::Binary16KPages
    }
    fn next_asset(&mut self) -> Option<DynAsset> {
        if self.pages.is_empty() { None } else { Some(self.pages.remove(0)) }
    }
}

// ------------------------------------------------------------------------------------ one sub-run
#[derive(Debug, Clone, Default)]
pub struct Outcome {
    /// "ok", "err", "panic"
    pub res: String,
    pub detail: String,
    /// "", or panic signature of the post-load emulation
    pub post_panic: String,
    pub post_raw: String,
    pub raw: String,
    pub max_alloc: usize,
    pub ops: u64,
}

fn frames(m: &mut Machine, n: usize, heartbeat: bool) {
    m.dbg().mode = crate::host::DbgMode::Never;
    m.emu.set_speed(rustzx_core::EmulationMode::FrameCount(1));
    for i in 0..n {
        let _ = m.emu.emulate_frames(Duration::from_secs(1000));
        m.drain_audio();
        if heartbeat && i % 50 == 49 {
            println!("H");
            let _ = std::io::stdout().flush();
        }
    }
}

/// reads and writes of every device port, data ports first (nothing is selected / initialised by
/// the probe before it is used)
fn probe_devices(m: &mut Machine) {
    let rf = m.regs();
    let mut q = rf.clone();
    q.iff1 = false;
    q.iff2 = false;
    q.halted = false;
    q.sp = 0xBF00;
    m.set_regs(&q);
    for p in [0xFFFDu16, 0xBFFD, 0x00FE, 0xFEFE, 0x001F, 0xFADF, 0xFBDF, 0xFFDF, 0x7FFD, 0x00FF] {
        let _ = m.inp(p);
    }
    m.out(0xBFFD, 0x5A);
    let _ = m.inp(0xFFFD);
    m.out(0x00FE, 0x12);
    m.out(0xFFFD, 0x1E);
    m.out(0xBFFD, 0xFF);
    let _ = m.inp(0xFFFD);
    m.set_regs(&rf);
}

/// ROM LD-BYTES request: CALL 0x0556 with A = flag, carry = LOAD, IX = destination, DE = length
fn fast_load_request(m: &mut Machine, r: &mut Rng) {
    if m.cfg.is128 {
        let mut q = m.regs();
        q.iff1 = false;
        q.sp = 0xBF00;
        q.halted = false;
        m.set_regs(&q);
        m.out(0x7FFD, 0x10);
    }
    m.poke_bytes(0x9000, &[0x18, 0xFE]);
    m.poke_bytes(0xBEFE, &[0x00, 0x90]);
    let mut q = m.regs();
    q.sp = 0xBEFE;
    q.pc = 0x0556;
    q.iff1 = false;
    q.halted = false;
    q.af = (*r.pick(&[0x00u16, 0xFF, 0xFF, 0xFF, 0x55]) << 8) | if r.chance(2, 3) { 1 } else { 0 };
    q.ix = *r.pick(&[0x8000u16, 0x4000, 0xFFF0, 0x0000, 0x3FF0]);
    q.de = *r.pick(&[0u16, 1, 17, 19, 100, 128, 130, 150, 199, 200, 250, 255, 257, 299, 300, 0xFFFF]);
    m.set_regs(&q);
    for _ in 0..60 {
        let _ = m.step_res();
    }
}

fn run_sub(case: &Case, is128: bool, ak: AK, variant: u64) -> Outcome {
    let ops = Rc::new(Cell::new(0u64));
    let mut out = Outcome::default();
    let mut cfg = Cfg::of(is128);
    cfg.sound = variant % 2 == 0;
    if case.fmt == F::Tap {
        cfg.fastload = variant % 2 == 1;
    }
    let bytes = &case.bytes;
    let mut m = Machine::new(cfg);
    let deep = case.fmt == F::Tap && variant % 16 == 2 && ak == AK::Mem;
    MAX_REQ.store(0, Ordering::Relaxed);
    ARMED.store(true, Ordering::Relaxed);
    // a host may load one snapshot right after another (no emulation in between, audio drained or
    // not): every third sub-run first loads a valid file of the same kind into the same emulator
    if matches!(case.fmt, F::Sna | F::Szx) && variant % 3 == 1 {
        let mut r = Rng::new(variant ^ 0xA11);
        let prior = base_of(case.fmt, &mut r);
        let _ = catch(|| {
            let a = crate::host::mem_asset(prior.clone());
            let _ = if case.fmt == F::Sna { m.emu.load_snapshot(Snapshot::Sna(a)) } else { m.emu.load_snapshot(Snapshot::Szx(a)) };
            if variant % 2 == 0 {
                m.drain_audio();
            }
        });
    }
    let r: Result<Result<(), String>, String> = catch(|| match case.fmt {
        F::Sna => m.emu.load_snapshot(Snapshot::Sna(mk_asset(bytes, ak, &ops))).map_err(|e| format!("{:?}", e)),
        F::Szx => m.emu.load_snapshot(Snapshot::Szx(mk_asset(bytes, ak, &ops))).map_err(|e| format!("{:?}", e)),
        F::Tap => m.emu.load_tape(Tape::Tap(mk_asset(bytes, ak, &ops))).map_err(|e| format!("{:?}", e)),
        F::Scr => m.emu.load_screen(Screen::Scr(mk_asset(bytes, ak, &ops))).map_err(|e| format!("{:?}", e)),
        F::Rom => {
            let pages = rom_pages(bytes).iter().map(|p| mk_asset(p, ak, &ops)).collect();
            m.emu.load_rom(DynRomSet { pages }).map_err(|e| format!("{:?}", e))
        }
        F::Gz => match rustzx_utils::io::GzipAsset::new(io_reader(bytes, ak, &ops)) {
            Ok(a) => m.emu.load_snapshot(Snapshot::Sna(a)).map_err(|e| format!("{:?}", e)),
            Err(e) => Err(format!("gzip:{:?}", e.kind())),
        },
        F::Vtx => vtx::Vtx::load(io_reader(bytes, ak, &ops)).map(|_| ()).map_err(|e| format!("{:?}", e).chars().take(60).collect()),
    });
    match r {
        Ok(Ok(())) => out.res = "ok".into(),
        Ok(Err(e)) => {
            out.res = "err".into();
            out.detail = e;
        }
        Err(_) => {
            out.res = "panic".into();
            out.raw = crate::last_panic();
            out.detail = norm_panic(&out.raw);
        }
    }
    // ---- afterwards the emulator must still run
    let post = catch(|| {
        let mut r = Rng::new(variant ^ 0x55);
        // whatever program runs next may touch any device before re-initialising it (data ports
        // before their select ports): do that on its behalf, straight after the load or after the
        // frames
        if case.fmt != F::Vtx && variant % 2 == 0 {
            probe_devices(&mut m);
        }
        match case.fmt {
            F::Vtx => {}
            F::Tap => {
                if variant % 2 == 1 {
                    // sometimes the deck has been playing for a while and was stopped inside a block
                    // before the program asks the ROM for the next one
                    if variant % 8 == 3 {
                        m.emu.play_tape();
                        frames(&mut m, 90 + (variant % 80) as usize, false);
                        m.emu.stop_tape();
                    }
                    for _ in 0..6 {
                        fast_load_request(&mut m, &mut r);
                    }
                    frames(&mut m, 2, false);
                } else {
                    m.emu.play_tape();
                    frames(&mut m, if deep { 300 } else { 3 }, deep);
                    if variant % 4 == 0 {
                        m.emu.stop_tape();
                        let _ = m.emu.rewind_tape();
                        m.emu.play_tape();
                        frames(&mut m, 2, false);
                    }
                }
            }
            _ => frames(&mut m, if matches!(ak, AK::Fault(..)) { 1 } else { 3 }, false),
        }
        if case.fmt != F::Vtx && variant % 2 == 1 {
            probe_devices(&mut m);
            frames(&mut m, 1, false);
        }
    });
    ARMED.store(false, Ordering::Relaxed);
    if post.is_err() {
        out.post_raw = crate::last_panic();
        out.post_panic = norm_panic(&out.post_raw);
    }
    out.max_alloc = MAX_REQ.load(Ordering::Relaxed);
    out.ops = ops.get();
    out
}

// ------------------------------------------------------------------------------------ worker
fn esc(s: &str) -> String {
    s.replace(['\t', '\n', '\r'], " ")
}

/// Machine model a snapshot file is for, read off the file as the format specifications say
/// (SNA: by length; SZX: machine id byte). None = not a snapshot / cannot tell.
fn file_model(case: &Case) -> Option<bool> {
    match case.fmt {
        F::Sna => Some(case.bytes.len() > 49179),
        F::Szx if case.bytes.len() >= 8 && &case.bytes[..4] == b"ZXST" => match case.bytes[6] {
            0 | 1 => Some(false),
            2 => Some(true),
            _ => None,
        },
        F::Gz => {
            // what the wrapper contains, unpacked on the harness side
            let mut out = vec![];
            let _ = flate2::read::GzDecoder::new(&case.bytes[..]).take(200_000).read_to_end(&mut out);
            Some(out.len() > 49179)
        }
        _ => None,
    }
}

/// The sub-runs of a case: (model, asset kind). Sub index = position in this list.
fn plan(case: &Case, id: u64, thorough: bool, light: bool, count_ops: impl Fn(bool) -> u64) -> Vec<(bool, AK)> {
    let mut v = vec![(false, AK::Mem), (true, AK::Mem)];
    let k = [1usize, 7, 4096][(id % 3) as usize];
    v.push((id % 2 == 0, AK::Short(k)));
    if thorough {
        v.push((id % 2 == 1, AK::Short([1usize, 7, 4096][((id + 1) % 3) as usize])));
    }
    let model_independent = matches!(case.fmt, F::Vtx);
    if model_independent {
        v.retain(|(m, a)| !*m || *a != AK::Mem);
    }
    let fm = file_model(case);
    let structured_mutant = !matches!(case.trigger.as_str(), "valid" | "havoc" | "random");
    let _ = structured_mutant;
    if let (Some(fm), true) = (fm, case.trigger != "valid") {
        // an input is judged on the model the file is for; the mismatch has its own cases (`valid`)
        for x in v.iter_mut() {
            x.0 = fm;
        }
        v.dedup();
    }
    if thorough || id % (if light { 6 } else { 3 }) == 0 {
        let mut model = id % 2 == 1 && !model_independent;
        if let Some(fm) = fm {
            model = fm;
        }
        let n = count_ops(model);
        for i in 0..n.min(400) {
            if thorough {
                for kind in 0..3u8 {
                    v.push((model, AK::Fault(i, kind)));
                }
            } else {
                v.push((model, AK::Fault(i, (i % 3) as u8)));
            }
        }
    }
    v
}

pub fn worker_main(args: &[String]) {
    // vcheck C15 --worker <seed> <thorough:0|1> <start> <end> [only_sub]
    let p = args.iter().position(|a| a == "--worker").unwrap();
    let seed: u64 = args[p + 1].parse().unwrap();
    let thorough = args[p + 2] == "1";
    let light = args[p + 2] == "2";
    let start: u64 = args[p + 3].parse().unwrap();
    let end: u64 = args[p + 4].parse().unwrap();
    let only_sub: Option<usize> = args.get(p + 5).and_then(|s| s.parse().ok());
    let out = std::io::stdout();
    for id in start..end {
        let case = gen_case(seed, id);
        let pl = plan(&case, id, thorough, light, |model| {
            println!("B\t{}\t-1", id);
            let _ = std::io::stdout().flush();
            run_sub(&case, model, AK::Count, id).ops
        });
        let mut h = crate::rng::FNV_INIT;
        crate::rng::fnv1a(&mut h, &case.bytes);
        let (mut n_ok, mut n_err, mut n_bad, mut faults) = (0u64, 0u64, 0u64, 0u64);
        for (sub, (model, ak)) in pl.iter().enumerate() {
            if let Some(o) = only_sub {
                if o != sub {
                    continue;
                }
            }
            {
                let mut l = out.lock();
                let _ = writeln!(l, "B\t{}\t{}", id, sub);
                let _ = l.flush();
            }
            let o = run_sub(&case, *model, *ak, id);
            if matches!(ak, AK::Fault(..)) {
                faults += 1;
            }
            let over = o.max_alloc > alloc_bound(case.bytes.len());
            let bad = o.res == "panic" || !o.post_panic.is_empty() || over;
            match o.res.as_str() {
                "ok" => n_ok += 1,
                "err" => n_err += 1,
                _ => {}
            }
            if bad {
                n_bad += 1;
                let mut l = out.lock();
                let trig = if file_model(&case).map(|fm| fm != *model).unwrap_or(false) { format!("{}@model-mismatch", case.trigger) } else { case.trigger.clone() };
                let _ = writeln!(l, "R\t{}\t{}\t{}\t{}\t{}\t{}\t{}\t{}\t{}\t{}\t{}\t{}\t{}", id, sub, case.fmt.name(), esc(&trig), if *model { 128 } else { 48 }, ak.name(), o.res, esc(&o.detail), esc(&o.post_panic), o.max_alloc, case.bytes.len(), esc(&o.raw), esc(&o.post_raw));
                let _ = l.flush();
            }
        }
        let mut l = out.lock();
        let _ = writeln!(l, "E\t{}\t{}\t{}\t{}\t{}\t{}\t{}\t{:016x}\t{}\t{}", id, case.fmt.name(), esc(&case.trigger), pl.len(), n_ok, n_err, n_bad, h, faults, case.bytes.len());
        let _ = l.flush();
    }
}

// ------------------------------------------------------------------------------------ parent
#[derive(Default)]
struct Agg {
    cases: u64,
    subruns: u64,
    ok: u64,
    err: u64,
    bad: u64,
    faults: u64,
    fault_inputs: u64,
    by_fmt: BTreeMap<String, u64>,
    triggers: HashSet<String>,
    inputs: HashSet<u64>,
    /// key -> (count, what, witness)
    findings: BTreeMap<String, (u64, String, J)>,
    /// (profile, id, sub, fmt, trigger)
    suspects: Vec<(String, u64, i64, String, String)>,
    aborts: u64,
    skipped_subruns: u64,
    max_alloc_seen: u64,
}

fn witness(seed: u64, profile: &str, id: u64, sub: i64, f: &[&str]) -> J {
    let case = gen_case(seed, id);
    let file = if case.bytes.len() <= 2048 { hex(&case.bytes) } else { format!("{}… ({} bytes, regenerate: vcheck C15 --worker {} 0 {} {} {})", hex(&case.bytes[..192]), case.bytes.len(), seed, id, id + 1, sub) };
    jobj! {"case"=>id,"sub"=>sub,"profile"=>profile,"format"=>case.fmt.name(),"trigger"=>case.trigger.as_str(),"input_len"=>case.bytes.len(),
    "model"=>f.get(5).copied().unwrap_or(""),"asset"=>f.get(6).copied().unwrap_or(""),"result"=>f.get(7).copied().unwrap_or(""),"detail"=>f.get(8).copied().unwrap_or(""),
    "post_load_panic"=>f.get(9).copied().unwrap_or(""),"largest_allocation"=>f.get(10).copied().unwrap_or(""),"panic_raw"=>f.get(12).copied().unwrap_or(""),"post_panic_raw"=>f.get(13).copied().unwrap_or(""),"input"=>file}
}

fn add_finding(agg: &mut Agg, key: String, what: String, w: J) {
    let e = agg.findings.entry(key).or_insert((0, what, w));
    e.0 += 1;
}

/// keys of one `R` line
fn keys_of(f: &[&str]) -> Vec<(String, String)> {
    // R id sub fmt trigger model asset res detail post max len raw postraw
    let (fmt, trig, asset, res, detail, post) = (f[3], f[4], f[6], f[7], f[8], f[9]);
    let _ = asset; // the asset kind is part of the witness, not of the key
    let t = trig.to_string();
    let mut v = vec![];
    if res == "panic" {
        v.push((format!("{}|panic|{}|{}", fmt, detail, t), format!("{} loader panicked: {}", fmt, detail)));
    }
    if !post.is_empty() {
        v.push((format!("{}|panic-after-load|{}|{}", fmt, post, t), format!("emulation after the {} load panicked: {}", fmt, post)));
    }
    let max: usize = f[10].parse().unwrap_or(0);
    let len: usize = f[11].parse().unwrap_or(0);
    if max > alloc_bound(len) {
        v.push((format!("{}|oversized-alloc|-|-|{}", fmt, t), format!("{} load requested {} bytes at once for a {}-byte input", fmt, max, len)));
    }
    v
}

struct WorkerEnd {
    /// Some((id, sub)) = the sub-run that was in flight when the worker died / went silent
    in_flight: Option<(u64, i64)>,
    hung: bool,
    refused_alloc: Option<usize>,
    status: String,
}

/// Runs one worker process over [start, end) and folds its lines into `agg`.
#[allow(clippy::too_many_arguments)]
fn drive_worker(exe: &std::path::Path, profile: &str, seed: u64, thorough: bool, start: u64, end: u64, only_sub: Option<usize>, limit: Duration, agg: &Mutex<Agg>) -> WorkerEnd {
    use std::process::{Command, Stdio};
    let mut cmd = Command::new(exe);
    cmd.arg("C15").arg("--worker").arg(seed.to_string()).arg(if thorough { "1" } else if profile == "checked" { "2" } else { "0" }).arg(start.to_string()).arg(end.to_string());
    if let Some(s) = only_sub {
        cmd.arg(s.to_string());
    }
    cmd.stdin(Stdio::null()).stdout(Stdio::piped()).stderr(Stdio::null());
    let mut child = match cmd.spawn() {
        Ok(c) => c,
        Err(e) => return WorkerEnd { in_flight: None, hung: false, refused_alloc: None, status: format!("spawn failed: {}", e) },
    };
    let stdout = child.stdout.take().unwrap();
    let (tx, rx) = std::sync::mpsc::channel::<String>();
    let reader = std::thread::spawn(move || {
        let br = std::io::BufReader::new(stdout);
        for line in br.split(b'\n') {
            match line {
                Ok(l) => {
                    if tx.send(String::from_utf8_lossy(&l).into_owned()).is_err() {
                        break;
                    }
                }
                Err(_) => break,
            }
        }
    });
    let mut in_flight: Option<(u64, i64)> = None;
    let mut refused = None;
    let mut hung = false;
    loop {
        match rx.recv_timeout(limit) {
            Ok(line) => {
                let f: Vec<&str> = line.split('\t').collect();
                match f[0] {
                    "B" if f.len() >= 3 => in_flight = Some((f[1].parse().unwrap_or(0), f[2].parse().unwrap_or(0))),
                    "R" if f.len() >= 14 => {
                        let id: u64 = f[1].parse().unwrap_or(0);
                        let sub: i64 = f[2].parse().unwrap_or(0);
                        let mut a = agg.lock().unwrap();
                        a.max_alloc_seen = a.max_alloc_seen.max(f[10].parse().unwrap_or(0));
                        for (k, what) in keys_of(&f) {
                            if !a.findings.contains_key(&k) {
                                let w = witness(seed, profile, id, sub, &f);
                                add_finding(&mut a, k, what, w);
                            } else {
                                a.findings.get_mut(&k).unwrap().0 += 1;
                            }
                        }
                    }
                    "E" if f.len() >= 11 => {
                        in_flight = None;
                        let mut a = agg.lock().unwrap();
                        a.cases += 1;
                        a.subruns += f[4].parse::<u64>().unwrap_or(0);
                        a.ok += f[5].parse::<u64>().unwrap_or(0);
                        a.err += f[6].parse::<u64>().unwrap_or(0);
                        a.bad += f[7].parse::<u64>().unwrap_or(0);
                        let fl: u64 = f[9].parse().unwrap_or(0);
                        a.faults += fl;
                        if fl > 0 {
                            a.fault_inputs += 1;
                        }
                        *a.by_fmt.entry(format!("{}:{}", profile, f[2])).or_insert(0) += 1;
                        a.triggers.insert(format!("{}:{}", f[2], f[3]));
                        a.inputs.insert(u64::from_str_radix(f[8], 16).unwrap_or(0));
                    }
                    "A" if f.len() == 1 => {}
                    _ => {
                        if let Some(rest) = line.strip_prefix("A ") {
                            refused = rest.trim().parse::<usize>().ok();
                        }
                    }
                }
            }
            Err(std::sync::mpsc::RecvTimeoutError::Timeout) => {
                hung = true;
                let _ = child.kill();
                break;
            }
            Err(std::sync::mpsc::RecvTimeoutError::Disconnected) => break,
        }
    }
    let status = child.wait().map(|s| format!("{:?}", s)).unwrap_or_default();
    let _ = reader.join();
    WorkerEnd { in_flight, hung, refused_alloc: refused, status }
}

#[allow(clippy::too_many_arguments)]
fn run_profile(ctx: &Ctx, exe: &std::path::Path, profile: &str, n_cases: u64, thorough: bool, limit: Duration, agg: &Mutex<Agg>) {
    use std::sync::atomic::AtomicU64;
    let chunk = 40u64;
    let next = AtomicU64::new(0);
    std::thread::scope(|s| {
        for _ in 0..ctx.jobs() {
            s.spawn(|| loop {
                let start = next.fetch_add(chunk, Ordering::Relaxed);
                if start >= n_cases {
                    break;
                }
                // a build in which everything hangs must not cost a watchdog period per input: the
                // suspects collected so far are enough to confirm, the rest of this phase is dropped
                // (the coverage floor then keeps the run from passing)
                if agg.lock().unwrap().suspects.len() > 400 {
                    break;
                }
                let end = (start + chunk).min(n_cases);
                let mut at = start;
                while at < end {
                    let we = drive_worker(exe, profile, ctx.seed, thorough, at, end, None, limit, agg);
                    match we.in_flight {
                        None => break, // finished the range (or could not start)
                        Some((id, sub)) => {
                            let case = gen_case(ctx.seed, id);
                            let mut a = agg.lock().unwrap();
                            if we.hung {
                                a.suspects.push((profile.to_string(), id, sub, case.fmt.name().to_string(), case.trigger.clone()));
                            } else {
                                a.aborts += 1;
                                let f: Vec<String> = vec!["R".into(), id.to_string(), sub.to_string(), case.fmt.name().into(), case.trigger.clone(), "?".into(), "?".into(), "abort".into(), we.status.clone(), "".into(), we.refused_alloc.unwrap_or(0).to_string(), case.bytes.len().to_string(), "".into(), "".into()];
                                let fr: Vec<&str> = f.iter().map(|x| x.as_str()).collect();
                                let (key, what) = match we.refused_alloc {
                                    Some(sz) => (format!("{}|oversized-alloc|-|-|{}", case.fmt.name(), case.trigger), format!("{} load requested {} bytes at once for a {}-byte input (refused above 2 GiB: process aborted)", case.fmt.name(), sz, case.bytes.len())),
                                    None => (format!("{}|abort|-|-|{}", case.fmt.name(), case.trigger), format!("worker process died during a {} load: {}", case.fmt.name(), we.status)),
                                };
                                let w = witness(ctx.seed, profile, id, sub, &fr);
                                add_finding(&mut a, key, what, w);
                            }
                            a.skipped_subruns += 1;
                            at = id + 1;
                        }
                    }
                }
            });
        }
    });
}

pub fn run(ctx: &Ctx) -> Evidence {
    let thorough = !ctx.quick();
    let ns = specs().len() as u64;
    let extra = ctx.scale(1200, 40_000);
    let n_cases = ns + extra;
    let release = std::env::current_exe().expect("current_exe");
    let checked = verif_root().join("harness/target/checked/vcheck");
    let mut ev = Evidence::new("every public load entry point (SNA, SZX, TAP + play + ROM LD-BYTES fast-load requests, SCR, ROM, gzip, VTX) on the complete list of structure-aware mutants of valid files, on havoc mutations and on random strings, both models, through the in-memory cursor, short-read assets and – fault enumeration – with every read/seek operation of the load (and subsequent play/fast-load) failing in turn; outcome must be Ok/Err, no panic (release and overflow-checked builds), no abort, no hang (parent watchdog over worker sub-processes), largest single allocation <= 1 MiB + 2064 x input length; then 3 frames of emulation. distinct = distinct input byte strings");
    ev.level = "fault_enumeration";
    // a few of the actual inputs of this run, written out (format, structural trigger, head of the bytes)
    for id in [0u64, 7, 133, 401, (ns as u64).saturating_sub(1), ns as u64 + 3, (n_cases as u64).saturating_sub(1)] {
        if id < n_cases as u64 {
            let c = gen_case(ctx.seed, id);
            ev.sample(jobj! {"input_id"=>id,"format"=>c.fmt.name(),"trigger"=>c.trigger.as_str(),"length"=>c.bytes.len(),"head"=>hex(&c.bytes[..c.bytes.len().min(48)])});
        }
    }
    let agg = Mutex::new(Agg::default());
    // watchdog: >= 400 x the slowest valid load (+3 frames), measured here in the release build
    let mut slowest = Duration::from_millis(1);
    for (i, f) in F::ALL.iter().enumerate() {
        let case = Case { fmt: *f, trigger: "valid".into(), bytes: base_of(*f, &mut Rng::new(ctx.seed ^ i as u64)) };
        for model in [false, true] {
            if file_model(&case).map(|fm| fm != model).unwrap_or(false) {
                continue;
            }
            let t = std::time::Instant::now();
            let o = run_sub(&case, model, AK::Mem, 0);
            slowest = slowest.max(t.elapsed());
            if o.res == "panic" {
                ctx.note(&format!("calibration: valid {} input panicked: {}", f.name(), o.detail));
            }
        }
    }
    let limit_rel = (slowest * 400).max(Duration::from_millis(2000));
    let limit_chk = limit_rel * 2;
    ev.add("slowest_valid_load_ms", slowest.as_secs_f64() * 1000.0);
    ev.add("watchdog_release_s", limit_rel.as_secs_f64());
    ev.add("watchdog_checked_s", limit_chk.as_secs_f64());
    let mut profiles: Vec<(&str, std::path::PathBuf, Duration)> = vec![("release", release, limit_rel)];
    if checked.exists() {
        profiles.push(("checked", checked, limit_chk));
    } else {
        ctx.inconclusive(&format!("overflow-checked worker binary {} is missing (build it with ./check C15 or `cargo build --profile checked --offline`)", checked.display()));
    }
    if let Some(rp) = &ctx.replay {
        // re-execute exactly one sub-run in both profiles
        let d = rp.get("details");
        let id = d.and_then(|d| d.get("case")).and_then(|x| x.as_i64()).unwrap_or(0) as u64;
        let sub = d.and_then(|d| d.get("sub")).and_then(|x| x.as_i64()).unwrap_or(0).max(0) as usize;
        for (name, exe, limit) in &profiles {
            let we = drive_worker(exe, name, ctx.seed, thorough, id, id + 1, Some(sub), *limit * 10, &agg);
            ctx.note(&format!("replay {} case {} sub {}: hung={} in_flight={:?} status={}", name, id, sub, we.hung, we.in_flight, we.status));
        }
    } else {
        for (name, exe, limit) in &profiles {
            let t = std::time::Instant::now();
            run_profile(ctx, exe, name, n_cases, thorough, *limit, &agg);
            ev.add(&format!("phase_{}_s", name), t.elapsed().as_secs_f64());
        }
    }
    // ---- hang suspects: re-run alone with a 10x limit; confirm at most 1 (quick) / 2 (thorough) per key
    let suspects = std::mem::take(&mut agg.lock().unwrap().suspects);
    let mut per_key: BTreeMap<String, Vec<(String, u64, i64)>> = BTreeMap::new();
    for (profile, id, sub, fmt, trig) in suspects {
        per_key.entry(format!("{}|hang|-|-|{}", fmt, trig)).or_default().push((profile, id, sub));
    }
    let confirm_n = if thorough { 2 } else { 1 };
    let mut suspects_total = 0u64;
    // re-runs happen after the main phase, one process per suspect, at most 6 at a time (machine mostly idle)
    let mut jobs_list: Vec<(String, String, u64, i64, usize)> = vec![];
    for (key, list) in per_key.iter_mut() {
        suspects_total += list.len() as u64;
        list.sort_by_key(|x| (x.0 != "release", x.1));
        for (profile, id, sub) in list.iter().take(confirm_n) {
            jobs_list.push((key.clone(), profile.clone(), *id, *sub, list.len()));
        }
    }
    let verdicts: Mutex<Vec<(String, bool, J)>> = Mutex::new(vec![]);
    let rerun_alone = |jobs_list: &Vec<(String, String, u64, i64, usize)>| {
        use std::sync::atomic::AtomicUsize as AU;
        let next = AU::new(0);
        std::thread::scope(|sc| {
            for _ in 0..6usize.min(jobs_list.len()) {
                sc.spawn(|| loop {
                    let i = next.fetch_add(1, Ordering::Relaxed);
                    if i >= jobs_list.len() {
                        break;
                    }
                    let (key, profile, id, sub, _) = &jobs_list[i];
                    let (exe, limit) = profiles.iter().find(|p| p.0 == profile).map(|p| (p.1.clone(), p.2)).unwrap();
                    let only = if *sub >= 0 { Some(*sub as usize) } else { None };
                    let we = drive_worker(&exe, profile, ctx.seed, thorough, *id, *id + 1, only, limit * 5, &agg);
                    let f: Vec<String> = vec!["R".into(), id.to_string(), sub.to_string(), "".into(), "".into(), "?".into(), "?".into(), "hang".into(), format!("no result within {:.0} s when re-run alone (first seen with {:.1} s under load)", limit.as_secs_f64() * 5.0, limit.as_secs_f64()), "".into(), "0".into(), "0".into(), "".into(), "".into()];
                    let fr: Vec<&str> = f.iter().map(|x| x.as_str()).collect();
                    let w = witness(ctx.seed, profile, *id, *sub, &fr);
                    verdicts.lock().unwrap().push((key.clone(), we.hung, w));
                });
            }
        });
    };
    rerun_alone(&jobs_list);
    // second pass: where the first re-runs all finished, the watchdog was about load, not about the
    // input – but that is only known for the sub-runs that were re-run. Re-run the remaining suspects
    // of such keys as well (inputs are deterministic: a re-run that finishes refutes the hang).
    const RERUN_CAP: usize = 48;
    let mut second: Vec<(String, String, u64, i64, usize)> = vec![];
    for (key, list) in per_key.iter() {
        let any_hung = verdicts.lock().unwrap().iter().any(|v| &v.0 == key && v.1);
        if !any_hung {
            for (profile, id, sub) in list.iter().skip(confirm_n).take(RERUN_CAP) {
                second.push((key.clone(), profile.clone(), *id, *sub, list.len()));
            }
        }
    }
    rerun_alone(&second);
    let mut confirmed_keys = 0u64;
    let mut slow_not_hung = 0u64;
    for (key, list) in per_key.iter() {
        let vs: Vec<(String, bool, J)> = verdicts.lock().unwrap().iter().filter(|v| &v.0 == key).cloned().collect();
        if let Some(v) = vs.iter().find(|v| v.1) {
            confirmed_keys += 1;
            let mut a = agg.lock().unwrap();
            let e = a.findings.entry(key.clone()).or_insert((0, format!("load does not terminate ({} suspect sub-runs with this signature, {} of them re-run alone)", list.len(), vs.len()), v.2.clone()));
            e.0 += list.len() as u64;
        } else {
            slow_not_hung += vs.len() as u64;
            if vs.len() < list.len() {
                ctx.inconclusive(&format!("watchdog fired for {} ({} sub-runs); the {} that were re-run alone finished, the rest were not re-run: machine overloaded?", key, list.len(), vs.len()));
            } else {
                ctx.note(&format!("watchdog fired for {} ({} sub-runs) under load; every one of them finished when re-run alone: not a hang", key, list.len()));
            }
        }
    }
    let a = agg.into_inner().unwrap();
    if ctx.replay.is_none() {
        // all witnesses in one file (the framework writes at most 40 replay files)
        let all = J::Arr(a.findings.iter().map(|(k, (n, what, w))| jobj! {"key"=>k.as_str(),"occurrences"=>*n,"what"=>what.as_str(),"details"=>w.clone()}).collect());
        let _ = std::fs::create_dir_all(verif_root().join("replays"));
        let _ = std::fs::write(verif_root().join("replays").join(format!("C15-{}-s{}-all-findings.json", if thorough { "thorough" } else { "quick" }, ctx.seed)), jobj! {"property"=>"C15","seed"=>ctx.seed,"findings"=>all}.pretty());
    }
    for (k, (n, what, w)) in a.findings.iter() {
        for _ in 0..(*n).min(1) {
            ctx.violation(k, what, w.clone());
        }
        let _ = n;
    }
    ev.evaluations = a.subruns;
    ev.distinct_nontrivial = a.inputs.len() as u64;
    ev.add_num("cases_finished(both profiles)", a.cases);
    ev.add_num("structured_mutants_per_profile", ns);
    ev.add_num("havoc_and_random_inputs_per_profile", extra);
    ev.add_num("subruns_ok", a.ok);
    ev.add_num("subruns_err", a.err);
    ev.add_num("subruns_with_findings", a.bad);
    ev.add_num("fault_injection_subruns", a.faults);
    ev.add_num("inputs_with_complete_fault_enumeration", a.fault_inputs);
    ev.add_num("distinct_triggers", a.triggers.len() as u64);
    ev.add_num("worker_aborts", a.aborts);
    ev.add_num("hang_suspects", suspects_total);
    ev.add_num("hang_keys_confirmed_alone", confirmed_keys);
    ev.add_num("watchdog_firings_not_reproduced", slow_not_hung);
    ev.add_num("subruns_lost_behind_a_killed_worker", a.skipped_subruns);
    ev.add_num("largest_allocation_reported", a.max_alloc_seen);
    ev.add("cases_by_profile_and_format", J::Obj(a.by_fmt.iter().map(|(k, v)| (k.clone(), J::Int(*v as i64))).collect()));
    ev.add("finding_occurrences", J::Obj(a.findings.iter().map(|(k, v)| (k.clone(), J::Int(v.0 as i64))).collect()));
    if ctx.replay.is_none() {
        let np = profiles.len() as u64;
        ctx.require("cases finished", a.cases + a.skipped_subruns, n_cases * np * 95 / 100);
        for f in F::ALL {
            for (p, _, _) in &profiles {
                let have = a.by_fmt.get(&format!("{}:{}", p, f.name())).copied().unwrap_or(0);
                ctx.require(&format!("{} cases in the {} build", f.name(), p), have, 20);
            }
        }
        ctx.require("fault-injection sub-runs", a.faults, 1000);
        ctx.require("sub-runs that returned Ok", a.ok, 100);
        ctx.require("sub-runs that returned Err", a.err, 1000);
    }
    ev.assumptions.push("allocation bound 1 MiB + 2 x 1032 x input length (maximal deflate expansion, doubled for amortised buffer growth)".into());
    ev.assumptions.push("fault enumeration is complete (every operation index up to 400, which exceeds every observed count) for each selected input: every third input in quick (every sixth in the checked build; one failure kind per index), every input x 3 failure kinds in thorough; havoc/random inputs are exploration".into());
    ev
}
