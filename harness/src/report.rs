//! Verdict bookkeeping: violations, known findings, evidence, replay files.
use crate::json::J;
use std::collections::BTreeMap;
use std::path::PathBuf;
use std::sync::Mutex;
use std::time::Instant;

#[derive(Clone, Copy, PartialEq, Eq, Debug)]
pub enum Tier {
    Quick,
    Thorough,
}

pub fn verif_root() -> PathBuf {
    if let Ok(p) = std::env::var("VERIF_ROOT") {
        return PathBuf::from(p);
    }
    PathBuf::from(env!("CARGO_MANIFEST_DIR")).parent().unwrap().to_path_buf()
}

pub fn repo_root() -> PathBuf {
    if let Ok(p) = std::env::var("VERIF_REPO") {
        return PathBuf::from(p);
    }
    PathBuf::from(env!("CARGO_MANIFEST_DIR")).parent().unwrap().parent().unwrap().join("repo")
}

#[derive(Clone, Debug)]
pub struct Known {
    pub property: String,
    pub key: String,
    pub what: String,
}

struct State {
    /// key -> (count, first details)
    violations: BTreeMap<String, (u64, String, J)>,
    known_hits: BTreeMap<String, (u64, String)>,
    inconclusive: Vec<String>,
    notes: Vec<String>,
}

pub struct Ctx {
    pub id: String,
    pub tier: Tier,
    pub seed: u64,
    pub start: Instant,
    pub replay: Option<J>,
    known: Vec<Known>,
    state: Mutex<State>,
}

pub struct Evidence {
    pub level: &'static str,
    pub evaluations: u64,
    pub distinct_nontrivial: u64,
    pub rule: String,
    pub samples: Vec<J>,
    pub exhaustive: Option<bool>,
    pub extra: Vec<(String, J)>,
    pub assumptions: Vec<String>,
}

impl Evidence {
    pub fn new(rule: &str) -> Self {
        Evidence {
            level: "exploration",
            evaluations: 0,
            distinct_nontrivial: 0,
            rule: rule.to_string(),
            samples: vec![],
            exhaustive: None,
            extra: vec![],
            assumptions: vec![],
        }
    }
    pub fn add(&mut self, k: &str, v: impl Into<J>) {
        self.extra.push((k.to_string(), v.into()));
    }
    /// accumulate a numeric counter under `k`
    pub fn add_num(&mut self, k: &str, v: u64) {
        if let Some(e) = self.extra.iter_mut().find(|(n, _)| n == k) {
            if let J::Int(i) = &mut e.1 {
                *i += v as i64;
                return;
            }
        }
        self.extra.push((k.to_string(), J::Int(v as i64)));
    }
    pub fn sample(&mut self, v: J) {
        if self.samples.len() < 8 {
            self.samples.push(v);
        }
    }
}

pub fn load_known() -> Vec<Known> {
    let p = verif_root().join("known_findings.json");
    let mut out = vec![];
    if let Ok(t) = std::fs::read_to_string(&p) {
        match J::parse(&t) {
            Ok(j) => {
                if let Some(a) = j.get("findings").and_then(|x| x.as_arr()) {
                    for f in a {
                        out.push(Known {
                            property: f.get("property").and_then(|x| x.as_str()).unwrap_or("").to_string(),
                            key: f.get("key").and_then(|x| x.as_str()).unwrap_or("").to_string(),
                            what: f.get("what").and_then(|x| x.as_str()).unwrap_or("").to_string(),
                        });
                    }
                }
            }
            Err(e) => eprintln!("warning: known_findings.json unparsable: {}", e),
        }
    }
    out
}

impl Ctx {
    pub fn new(id: &str, tier: Tier, seed: u64, replay: Option<J>) -> Ctx {
        Ctx {
            id: id.to_string(),
            tier,
            seed,
            start: Instant::now(),
            replay,
            known: load_known(),
            state: Mutex::new(State {
                violations: BTreeMap::new(),
                known_hits: BTreeMap::new(),
                inconclusive: vec![],
                notes: vec![],
            }),
        }
    }
    pub fn quick(&self) -> bool {
        self.tier == Tier::Quick
    }
    /// pick a workload size by tier (VERIF_SCALE multiplies, for experiments)
    pub fn scale(&self, quick: u64, thorough: u64) -> u64 {
        let base = if self.quick() { quick } else { thorough };
        match std::env::var("VERIF_SCALE").ok().and_then(|s| s.parse::<f64>().ok()) {
            Some(f) => ((base as f64 * f) as u64).max(1),
            None => base,
        }
    }
    pub fn jobs(&self) -> usize {
        std::env::var("VERIF_JOBS").ok().and_then(|s| s.parse().ok()).unwrap_or_else(|| {
            std::thread::available_parallelism().map(|n| n.get()).unwrap_or(8).min(16)
        })
    }
    pub fn is_known(&self, key: &str) -> Option<&Known> {
        self.known.iter().find(|k| k.property == self.id && k.key == key)
    }
    /// Report a violation. `key` is the narrow signature used for known-finding matching and
    /// de-duplication; `what` a one line description; `details` the witness.
    pub fn violation(&self, key: &str, what: &str, details: J) {
        let mut st = self.state.lock().unwrap();
        if self.is_known(key).is_some() {
            let e = st.known_hits.entry(key.to_string()).or_insert((0, what.to_string()));
            e.0 += 1;
            return;
        }
        let e = st.violations.entry(key.to_string()).or_insert((0, what.to_string(), details));
        e.0 += 1;
    }
    pub fn violation_count(&self) -> u64 {
        self.state.lock().unwrap().violations.values().map(|v| v.0).sum()
    }
    pub fn distinct_violations(&self) -> usize {
        self.state.lock().unwrap().violations.len()
    }
    pub fn inconclusive(&self, why: &str) {
        self.state.lock().unwrap().inconclusive.push(why.to_string());
    }
    pub fn note(&self, s: &str) {
        self.state.lock().unwrap().notes.push(s.to_string());
    }
    /// coverage floor: if `have < need` the run is inconclusive
    pub fn require(&self, what: &str, have: u64, need: u64) {
        if have < need {
            self.inconclusive(&format!("coverage floor not reached: {} = {} < {}", what, have, need));
        }
    }

    /// Write evidence, print verdict lines, return the process exit code.
    pub fn finish(&self, ev: Evidence) -> i32 {
        let st = self.state.lock().unwrap();
        let root = verif_root();
        let wall = self.start.elapsed().as_secs_f64();
        let tier = if self.quick() { "quick" } else { "thorough" };
        // replay files + VIOLATION lines
        let mut nviol = 0u64;
        let _ = std::fs::create_dir_all(root.join("replays"));
        let mut idx = 0;
        for (key, (count, what, details)) in st.violations.iter() {
            nviol += count;
            idx += 1;
            if idx > 40 {
                continue;
            }
            let fname = format!("{}-{}-s{}-{}.json", self.id, tier, self.seed, idx);
            let path = root.join("replays").join(fname);
            let doc = crate::jobj! {
                "property" => self.id.as_str(),
                "tier" => tier,
                "seed" => self.seed,
                "key" => key.as_str(),
                "what" => what.as_str(),
                "occurrences" => *count,
                "details" => details.clone(),
            };
            let _ = std::fs::write(&path, doc.pretty());
            println!("VIOLATION property={} replay={}", self.id, path.display());
            println!("  key={} x{}: {}", key, count, what);
        }
        for (key, (count, what)) in st.known_hits.iter() {
            let k = self.is_known(key).unwrap();
            println!("KNOWN-FINDING: property={} {} [key={} seen x{}: {}]", self.id, k.what, key, count, what);
        }
        for n in st.notes.iter() {
            println!("note: {}", n);
        }
        let mut cov = vec![
            ("evaluations".to_string(), J::Int(ev.evaluations as i64)),
            ("distinct_nontrivial".to_string(), J::Int(ev.distinct_nontrivial as i64)),
            ("rule".to_string(), J::Str(ev.rule.clone())),
            ("samples".to_string(), J::Arr(ev.samples.clone())),
        ];
        if let Some(x) = ev.exhaustive {
            cov.push(("exhaustive".to_string(), J::Bool(x)));
        }
        for (k, v) in ev.extra.iter() {
            cov.push((k.clone(), v.clone()));
        }
        cov.push((
            "known_findings_seen".to_string(),
            J::Arr(st.known_hits.iter().map(|(k, (c, _))| crate::jobj! {"key" => k.as_str(), "count" => *c}).collect()),
        ));
        if !st.inconclusive.is_empty() {
            cov.push(("inconclusive".to_string(), J::Arr(st.inconclusive.iter().map(|s| J::Str(s.clone())).collect())));
        }
        let doc = J::Obj(vec![
            ("property_id".to_string(), J::Str(self.id.clone())),
            ("tier".to_string(), J::Str(tier.to_string())),
            ("seed".to_string(), J::Int(self.seed as i64)),
            ("level".to_string(), J::Str(ev.level.to_string())),
            ("coverage".to_string(), J::Obj(cov)),
            ("assumptions".to_string(), J::Arr(ev.assumptions.iter().map(|s| J::Str(s.clone())).collect())),
            ("wall_s".to_string(), J::Num((wall * 1000.0).round() / 1000.0)),
            ("violations".to_string(), J::Int(nviol as i64)),
        ]);
        if self.replay.is_none() {
            let _ = std::fs::create_dir_all(root.join("evidence"));
            let p = root.join("evidence").join(format!("{}.json", self.id));
            if let Err(e) = std::fs::write(&p, doc.pretty()) {
                eprintln!("cannot write evidence {}: {}", p.display(), e);
            }
        }
        println!(
            "{} {} seed={} evaluations={} distinct_nontrivial={} violations={} known={} wall={:.1}s",
            self.id, tier, self.seed, ev.evaluations, ev.distinct_nontrivial, nviol, st.known_hits.len(), wall
        );
        if nviol > 0 {
            println!("RESULT {}: VIOLATED", self.id);
            return 1;
        }
        if !st.inconclusive.is_empty() {
            for r in st.inconclusive.iter() {
                println!("INCONCLUSIVE property={} {}", self.id, r);
            }
            println!("RESULT {}: INCONCLUSIVE", self.id);
            return 2;
        }
        println!("RESULT {}: HELD on everything observed", self.id);
        0
    }
}

/// Run `n` shards on a pool of worker threads and collect the results in shard order.
pub fn par_map<T: Send, F: Fn(usize) -> T + Sync>(jobs: usize, n: usize, f: F) -> Vec<T> {
    use std::sync::atomic::{AtomicUsize, Ordering};
    let next = AtomicUsize::new(0);
    let out: Mutex<Vec<Option<T>>> = Mutex::new((0..n).map(|_| None).collect());
    std::thread::scope(|s| {
        for _ in 0..jobs.min(n).max(1) {
            s.spawn(|| loop {
                let i = next.fetch_add(1, Ordering::Relaxed);
                if i >= n {
                    break;
                }
                let r = f(i);
                out.lock().unwrap()[i] = Some(r);
            });
        }
    });
    out.into_inner().unwrap().into_iter().map(|x| x.unwrap()).collect()
}
