//! C03 – each instruction takes the documented T-states in the documented bus cycles.
//! The canonical bus-cycle list of every real `emulate` call (M1/Rd/Wr/Dl(addr)/Ack/In/Out) must
//! equal the reference model's list; a second independently typed table of total T-states per
//! opcode cross-checks the reference itself.
use crate::report::{Ctx, Evidence};
use crate::z80diff::Class;
use crate::z80work::*;

pub fn run(ctx: &Ctx) -> Evidence {
    let plan = Plan {
        sweeps: 0,
        per_encoding: ctx.scale(8_000, 400_000),
        sequences: ctx.scale(1_000_000, 40_000_000),
        irq_sequences: ctx.scale(1_500_000, 60_000_000),
        directed_rounds: ctx.scale(20, 400),
    };
    let st = run_plan(ctx, Class::Timing, &plan);
    let mut ev = Evidence::new("the C01/C02 case streams (all encodings x random states incl. both outcomes of every condition, B/BC in {0,1,2} for repeat forms, interrupt entry in IM0/1/2 and NMI, halted), comparing the full canonical bus-cycle list (kind, length, address of every delay T-state, data) of every step with the reference model. distinct = (page, opcode, taken/repeat, interrupt kind) variants whose cycle list was compared");
    fill_evidence(&mut ev, &st);
    qualify_reference(ctx, &mut ev);
    if ctx.replay.is_none() {
        ctx.require("encodings_hit", st.encodings.len() as u64, 1780);
        ctx.require("distinct_encoding_variants", st.variants.len() as u64, 1900);
        ctx.require("interrupts_accepted", st.int_accepts, 500);
    }
    ev.assumptions.push("interrupt acknowledge T-states presented without an address are accepted as such; presented as address-carrying delay cycles they must carry the CPU's PC (the return address pushed next); their position relative to the pushes is significant".into());
    ev
}
