//! Literal-only `-lh5-` encoder and VTX file writer, written from the LHA (ar002 `huf.c`) and VTX
//! format descriptions. Used by C20 to synthesise files whose decoded contents are known.
//!
//! An lh5 stream is a sequence of blocks: 16-bit count of codes, the "temporary" code-length tree
//! (5-bit count; count 0 = one 5-bit symbol with a zero-length code), the character/length tree
//! (9-bit count; count 0 = one 9-bit symbol; otherwise code lengths written with the temporary
//! tree, symbol `len+2`), the offset tree (4-bit count; count 0 = one 4-bit symbol), then the
//! codes, MSB first. We never emit matches, so every code is a literal 0..=255.
//!
//! Three block flavours (all decode to the same bytes):
//!  * `Flat`   – temp tree = single symbol 10 (length 8), 256 literals with canonical 8-bit codes
//!               (code == byte value);
//!  * `Tree`   – temp tree with two 1-bit codes (symbol 0 = "one zero length", symbol 10), same
//!               8-bit literal codes;
//!  * `Single` – all bytes of the block are equal: character tree count 0, zero bits per literal.
use crate::rng::Rng;

pub struct BitW {
    pub out: Vec<u8>,
    acc: u64,
    n: u32,
}
impl BitW {
    pub fn new() -> Self {
        BitW { out: vec![], acc: 0, n: 0 }
    }
    pub fn put(&mut self, bits: u32, val: u32) {
        debug_assert!(bits <= 24);
        self.acc = (self.acc << bits) | (val as u64 & ((1u64 << bits) - 1));
        self.n += bits;
        while self.n >= 8 {
            self.out.push((self.acc >> (self.n - 8)) as u8);
            self.n -= 8;
        }
    }
    pub fn finish(mut self) -> Vec<u8> {
        if self.n > 0 {
            let pad = 8 - self.n;
            self.put(pad, 0);
        }
        // bit readers look ahead; a few bytes of slack after the last code
        self.out.extend_from_slice(&[0, 0, 0, 0]);
        self.out
    }
}

fn block(w: &mut BitW, data: &[u8], flavour: u8) {
    assert!(!data.is_empty() && data.len() <= 0xFFFF);
    w.put(16, data.len() as u32);
    let single = data.iter().all(|b| *b == data[0]);
    if flavour == 2 && single {
        w.put(5, 0); // temp tree: single symbol ...
        w.put(5, 0); // ... (unused)
        w.put(9, 0); // char tree: single symbol
        w.put(9, data[0] as u32);
        w.put(4, 0);
        w.put(4, 0);
        return; // zero bits per literal
    }
    if flavour == 1 {
        // temp tree: 11 symbols, lengths: sym0=1, sym1=0, sym2=0, [skip field 0], sym3..9=0, sym10=1
        w.put(5, 11);
        w.put(3, 1);
        w.put(3, 0);
        w.put(3, 0);
        w.put(2, 0);
        for _ in 3..10 {
            w.put(3, 0);
        }
        w.put(3, 1);
        // char tree: 256 symbols of length 8 -> temp symbol 10 -> code '1'
        w.put(9, 256);
        for _ in 0..256 {
            w.put(1, 1);
        }
    } else {
        w.put(5, 0);
        w.put(5, 10); // every temp lookup yields symbol 10 = length 8, no bits consumed
        w.put(9, 256);
    }
    w.put(4, 0); // offset tree: single symbol 0 (never used)
    w.put(4, 0);
    for b in data {
        w.put(8, *b as u32);
    }
}

/// Encodes `data` with literal codes only; block sizes and flavours chosen by `rng`.
pub fn lh5_literal(data: &[u8], rng: &mut Rng) -> Vec<u8> {
    let mut w = BitW::new();
    let mut pos = 0;
    while pos < data.len() {
        let left = data.len() - pos;
        let want = match rng.below(4) {
            0 => 1 + rng.below(16) as usize,
            1 => 1 + rng.below(1000) as usize,
            2 => 0xFFFF,
            _ => left,
        };
        let mut n = want.min(left).min(0xFFFF);
        let flavour = rng.below(3) as u8;
        if flavour == 2 {
            // take the run of equal bytes if there is one (otherwise falls back to Flat)
            let run = data[pos..].iter().take_while(|b| **b == data[pos]).count();
            if run >= 2 {
                n = n.min(run);
            }
        }
        block(&mut w, &data[pos..pos + n], flavour);
        pos += n;
    }
    w.finish()
}

pub struct VtxHeader {
    pub ym: bool,
    pub stereo: u8,
    pub loop_frame: u16,
    pub frequency: u32,
    pub player_frequency: u8,
    pub year: u16,
    pub strings: [String; 5],
}

/// VTX container: "ay"/"ym", stereo u8, loop u16, chip frequency u32, player frequency u8,
/// year u16, unpacked size u32 (all little endian), five NUL-terminated strings (title, author,
/// from, tracker, comment), lh5 data of the register-major dump.
pub fn vtx_file(h: &VtxHeader, unpacked_len: u32, packed: &[u8]) -> Vec<u8> {
    let mut f = vec![];
    f.extend_from_slice(if h.ym { b"ym" } else { b"ay" });
    f.push(h.stereo);
    f.extend_from_slice(&h.loop_frame.to_le_bytes());
    f.extend_from_slice(&h.frequency.to_le_bytes());
    f.push(h.player_frequency);
    f.extend_from_slice(&h.year.to_le_bytes());
    f.extend_from_slice(&unpacked_len.to_le_bytes());
    for s in h.strings.iter() {
        f.extend_from_slice(s.as_bytes());
        f.push(0);
    }
    f.extend_from_slice(packed);
    f
}

/// Header as parsed by the harness (independent of `Vtx::load`); returns the header and the
/// offset of the packed data.
pub fn parse_vtx_header(f: &[u8]) -> Option<(VtxHeader, u32, usize)> {
    if f.len() < 16 {
        return None;
    }
    let ym = match &f[0..2] {
        b"ay" => false,
        b"ym" => true,
        _ => return None,
    };
    let stereo = f[2];
    let loop_frame = u16::from_le_bytes([f[3], f[4]]);
    let frequency = u32::from_le_bytes([f[5], f[6], f[7], f[8]]);
    let player_frequency = f[9];
    let year = u16::from_le_bytes([f[10], f[11]]);
    let size = u32::from_le_bytes([f[12], f[13], f[14], f[15]]);
    let mut pos = 16;
    let mut strings: [String; 5] = Default::default();
    for s in strings.iter_mut() {
        let end = pos + f[pos..].iter().position(|b| *b == 0)?;
        *s = String::from_utf8_lossy(&f[pos..end]).into_owned();
        pos = end + 1;
    }
    Some((VtxHeader { ym, stereo, loop_frame, frequency, player_frequency, year, strings }, size, pos))
}
