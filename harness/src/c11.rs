//! C11 – a playing tape presents each TAP block as the standard loader waveform.
//!
//! Component monitor (hook `rustzx_core::verif::Tap`): a generated TAP image is played by the real
//! pulse generator, driven with `process_clocks(s)` for step partitions s in 1..16 (all 1, all 16,
//! uniform, small, machine-like, adversarial "leave the countdown at 0/1 and then step 16").
//! After every call `current_bit()` is sampled; a level change is logged as an edge at the
//! cumulative T-state count *after* that call (the first moment a CPU could see it). The edge log is
//! judged by `spec_tape::WaveParser`, written from the statement:
//!   * every pulse must fall in [nominal, nominal+32] of 2168/667/735/855/1710 (disjoint windows),
//!   * per block: pilot^N sync1 sync2, two equal pulses per bit, MSB first, decoded bytes equal to
//!     all bytes of the block (flag and checksum included), N == 8063 for flag 00 and >= 3223
//!     otherwise, one fewer only where the first pulse can have merged with preceding silence,
//!   * pause between blocks 0.9 s .. 1.1 s (+ a possibly merged pilot pulse), blocks in tape order,
//!   * the deck stops by itself after the last block, not before its data ended and not later
//!     than 1.1 s after its last pulse (the final pause has no closing edge to measure).
//! Don't-cares: absolute polarity; a level change at the instant the deck stops. Zero-length TAP
//! blocks are outside the domain (they have no flag byte, the statement speaks of "the flag byte").
//!
//! System monitor: the real ROM LD-BYTES (entered at 0556h) loads from the playing tape in real
//! time, fast loading off, each request issued while the tape is silent between blocks; the
//! outcome (IX, DE, carry, RAM) must equal the `ld_bytes` model and what the same request gives on a
//! twin machine that uses fast loading. This also validates the model used by C10.
//!
//! CPU-time monitor (`cpu_wave_case`): one block played on the full machine while the CPU loops
//! through instructions with internal cycles on contended addresses; EAR sampled by emulated INs
//! and stamped in CPU T-states; every pulse and the pilot/data trains bounded from both sides
//! against [nominal, nominal+32] ("whatever instructions the CPU is executing").
use crate::host::{Machine, RegFile};
use crate::json::{hex, J};
use crate::report::{par_map, Ctx, Evidence};
use crate::rng::Rng;
use crate::spec_tape::*;
use rustzx_core::host::Tape;
use rustzx_core::verif::TapeImpl;
use std::collections::HashSet;
use std::rc::Rc;

fn blocks_json(blocks: &[Vec<u8>]) -> J {
    J::Arr(blocks.iter().map(|b| J::from(hex(b))).collect())
}

/// Random tape for the waveform monitors: 1..max_blocks blocks, every block at least one byte.
pub fn gen_wave_tape(rng: &mut Rng, max_blocks: u64, all_bytes: bool) -> Vec<Vec<u8>> {
    let n = 1 + rng.below(max_blocks) as usize;
    let mut blocks = vec![];
    for i in 0..n {
        let flag = match rng.below(6) {
            0 | 1 => 0x00,
            2 | 3 => 0xFF,
            4 => *rng.pick(&[0x01u8, 0x80, 0x7F, 0xFE, 0x55, 0xAA]),
            _ => rng.u8(),
        };
        let len = match rng.below(12) {
            0 => 0usize, // flag + checksum only
            1 => *rng.pick(&[125usize, 126, 127, 128]), // total 127..130
            2 => *rng.pick(&[253usize, 254, 255, 256]), // total 255..258
            3 => 17,
            4 => 998,
            5 => 1 + rng.below(4) as usize,
            _ => rng.below(300) as usize,
        };
        let mut data = match rng.below(5) {
            0 => vec![*rng.pick(&[0x00u8, 0xFF, 0xAA, 0x55, 0x01, 0x80]); len],
            _ => rng.bytes(len),
        };
        if all_bytes && i == 0 {
            // every byte value occurs on the tape
            let mut ramp: Vec<u8> = (0..=255u8).collect();
            rng.shuffle(&mut ramp);
            data.extend_from_slice(&ramp);
        }
        let mut b = mk_block(flag, &data, rng.chance(5, 6));
        if rng.chance(1, 16) {
            // one-byte block: flag only (TAP allows it)
            b.truncate(1);
        } else if rng.chance(1, 16) {
            b.truncate(2);
        }
        blocks.push(b);
    }
    blocks
}

struct CompStats {
    wave: WaveStats,
    calls: u64,
    tapes: u64,
    fingerprints: HashSet<(u8, usize, u8)>,
    modes: [u64; 6],
    sample: Option<J>,
}

/// play one tape to its end under one step mode; returns false after a violation
fn play_component(ctx: &Ctx, case: &J, blocks: &Rc<Vec<Vec<u8>>>, mode: StepMode, rng: Rng, st: &mut CompStats) -> bool {
    let mut tap = mem_tap(blocks);
    tap.play();
    let ideal = ideal_pulses(blocks);
    let mut stepper = Stepper::new(mode, rng);
    let mut parser = WaveParser::new(blocks.clone(), 0, 0);
    let mut t = 0u64;
    let mut level = tap.current_bit();
    let mut edge_idx = 0usize;
    let budget: u64 = blocks.iter().map(|b| nominal_block_time(b)).sum::<u64>() + 40 * ideal.len() as u64 + 2 * SECOND;
    let mut calls = 0u64;
    let mut ok = true;
    let mut finished = false;
    let fail = |key: &str, msg: &str, t: u64, parser: &WaveParser| {
        ctx.violation(
            &format!("c11-{}", key),
            msg,
            jobj! {"case"=>case.clone(), "mode"=>format!("{:?}", mode), "at_T"=>t, "blocks"=>blocks_json(blocks),
            "parser"=>format!("block {} phase {:?} pilots {} bytes_done {}", parser.block, parser.phase, parser.pilots, parser.bytes_done)},
        );
    };
    while t <= budget {
        let s = stepper.next();
        if let Err(e) = tap.process_clocks(s) {
            fail("process-clocks-error", &format!("process_clocks failed on a well-formed tape: {:?}", e), t, &parser);
            ok = false;
            break;
        }
        t += s as u64;
        calls += 1;
        if tap.can_fast_load() {
            match parser.deck_stopped(t) {
                Ok(()) => {
                    parser.note_final_block();
                    finished = true;
                }
                Err(e) => {
                    fail(&e.key, &e.msg, t, &parser);
                    ok = false;
                }
            }
            break;
        }
        let b = tap.current_bit();
        if b != level {
            level = b;
            if let Err(e) = parser.edge(t) {
                fail(&e.key, &e.msg, t, &parser);
                ok = false;
                break;
            }
            stepper.pulse_started(ideal.get(edge_idx).copied());
            edge_idx += 1;
        }
        if calls & 0x3FF == 0 {
            if let Err(e) = parser.tick(t) {
                fail(&e.key, &e.msg, t, &parser);
                ok = false;
                break;
            }
        }
    }
    if ok && !finished {
        fail("no-stop-at-end", "tape did not come to its end within its nominal duration plus 40 T per pulse plus 2 s", t, &parser);
        ok = false;
    }
    st.calls += calls;
    st.wave.merge(&parser.stats);
    st.modes[STEP_MODES.iter().position(|m| *m == mode).unwrap()] += 1;
    if ok {
        st.tapes += 1;
        for b in blocks.iter() {
            st.fingerprints.insert((mode as u8, b.len(), b[0]));
        }
    }
    ok
}

// ------------------------------------------------------------------------------------------------
// System level: real ROM, real time
// ------------------------------------------------------------------------------------------------

struct SysStats {
    requests: u64,
    blocks_loaded_ok: u64,
    carry_set: u64,
    fingerprints: HashSet<(usize, u16, bool, bool)>,
    inconclusive: u64,
    sample: Option<J>,
}

fn run_until_counted(m: &mut Machine, pcs: &[u16], max_frames: usize) -> (RunEnd, u64) {
    m.dbg().mode = crate::host::DbgMode::Set(pcs.to_vec());
    m.dbg().last_hit = None;
    m.emu.set_speed(rustzx_core::EmulationMode::FrameCount(1));
    let mut frames = 0u64;
    while (frames as usize) < max_frames {
        match m.emu.emulate_frames(std::time::Duration::from_secs(1000)) {
            Ok(r) => {
                if r.stop_reason == rustzx_core::EmulationStopReason::Breakpoint {
                    return (RunEnd::Hit(m.dbg().last_hit.unwrap_or(0)), frames);
                }
                frames += 1;
            }
            Err(e) => return (RunEnd::Error(format!("{:?}", e)), frames),
        }
    }
    (RunEnd::Timeout, frames)
}

/// one real-time tape: returns number of requests compared
fn system_case(ctx: &Ctx, case_id: u64, rng: &mut Rng, st: &mut SysStats) {
    let is128 = rng.chance(1, 3);
    // short blocks keep the real-time cost down; one in four is a proper 17-byte header
    let nblocks = 1 + rng.below(3) as usize;
    let mut blocks: Vec<Vec<u8>> = vec![];
    for _ in 0..nblocks {
        let flag = if rng.chance(1, 4) { 0 } else { *rng.pick(&[0xFFu8, 0xFF, 0x01, 0xA5]) };
        let len = if flag == 0 { 17 } else { *rng.pick(&[0usize, 1, 2, 30, 126, 127, 128, 200, 254, 255, 256, 300]) };
        let data = if rng.chance(1, 5) { vec![*rng.pick(&[0u8, 0xFF]); len] } else { rng.bytes(len) };
        blocks.push(mk_block(flag, &data, rng.chance(4, 5)));
    }
    let mut fill = Rng::fork(ctx.seed ^ 0xC11_5, case_id);
    // the playing machine has the fast-load *setting* on in half of the cases: a playing deck must
    // still deliver every block on EAR (fast loading is for a stopped deck)
    let rt_fast_setting = rng.bool();
    let mut rt = tape_machine(is128, rt_fast_setting, &mut fill);
    let mut fill2 = Rng::fork(ctx.seed ^ 0xC11_5, case_id);
    let mut fl = tape_machine(is128, true, &mut fill2);
    let img = tap_image(&blocks);
    rt.emu.load_tape(Tape::Tap(crate::host::mem_asset(img.clone()))).expect("load_tape");
    fl.emu.load_tape(Tape::Tap(crate::host::mem_asset(img))).expect("load_tape");
    // code placement: the ROM routine runs from ROM; what varies is the stack / data contention
    rt.set_clock(rng.below(rt.frame_len() as u64) as usize);
    rt.emu.play_tape();
    let case = |extra: J| jobj! {"case"=>case_id, "seed_stream"=>"C11 system", "is128"=>is128, "blocks"=>blocks_json(&blocks), "info"=>extra};
    for (k, b) in blocks.iter().enumerate() {
        let mut pokes: Vec<(u16, Vec<u8>)> = vec![];
        let req = gen_request(rng, Some(b), &mut |a, d| pokes.push((a, d.to_vec())), true);
        for (a, d) in pokes.iter() {
            rt.poke_bytes(*a, d);
            fl.poke_bytes(*a, d);
        }
        let pre = ram_image(&rt);
        let pre_fl = ram_image(&fl);
        if pre != pre_fl {
            ctx.inconclusive("C11 system: twin machines diverged before a request (harness problem)");
            st.inconclusive += 1;
            return;
        }
        let model = ld_bytes(b, req.a, req.load, req.ix, req.de, &|a| if a >= 0x4000 { pre[a as usize - 0x4000] } else { rt.peek(a) });
        // real time: pilot + data + slack, in frames
        let frames = (nominal_block_time(b) + 40 * (8100 + 16 * b.len() as u64)) / 69888 + 60;
        issue_request(&mut rt, &req);
        let clock_before = rt.clock() as u64;
        let (end_rt, frames_rt) = run_until_counted(&mut rt, &RET_POINTS, frames as usize);
        let elapsed_rt = (frames_rt * rt.frame_len() as u64 + rt.clock() as u64).saturating_sub(clock_before);
        issue_request(&mut fl, &req);
        let end_fl = run_until(&mut fl, &RET_POINTS, 50);
        st.requests += 1;
        let info = jobj! {"block_index"=>k, "request"=>req.to_json(), "model"=>format!("{:?}", (model.ix, model.de, model.carry, model.consumed))};
        if !returned(&end_fl) {
            ctx.violation("c11-sys-fastload-no-return", "fast-load twin did not return from LD-BYTES although a block was left", case(info));
            return;
        }
        if !returned(&end_rt) {
            ctx.violation(
                "c11-sys-realtime-no-return",
                &format!("ROM LD-BYTES did not return within the block's duration when loading from the playing tape ({:?})", end_rt),
                case(info),
            );
            return;
        }
        // a block that was loaded to its end has been on EAR for its whole duration
        if model.carry && req.load && model.consumed >= b.len().saturating_sub(1) {
            let on_ear = nominal_block_time(b) - SECOND;
            if elapsed_rt * 100 < on_ear * 95 {
                ctx.violation(
                    "c11-sys-block-not-on-ear",
                    &format!("the playing deck (fast-load setting {}) served a {}-byte block in {} T although pilot, sync and data last {} T on EAR", if rt_fast_setting { "on" } else { "off" }, b.len(), elapsed_rt, on_ear),
                    case(info),
                );
                return;
            }
        }
        let o_rt = observe_at_ret(&mut rt);
        let o_fl = observe_at_ret(&mut fl);
        let want = LdObserved { ix: model.ix, de: model.de, carry: model.carry, sp: req.sp };
        let post_rt = ram_image(&rt);
        let post_fl = ram_image(&fl);
        let d_rt = diff_ram(&pre, &post_rt, &model.writes, req.sp);
        let d_fl = diff_ram(&pre, &post_fl, &model.writes, req.sp);
        if o_rt != want || d_rt.is_some() {
            let fast_agrees_with_rom = o_fl == o_rt && diff_ram(&post_rt, &post_fl, &[], req.sp).is_none();
            if fast_agrees_with_rom {
                // ROM and fast loader agree with each other but not with the model: the model
                // (our transcription) is the odd one out -> harness problem, not a finding
                ctx.inconclusive(&format!("ld_bytes model disagrees with both the real ROM and the fast loader (case {} block {})", case_id, k));
                st.inconclusive += 1;
            } else {
                ctx.violation(
                    "c11-sys-realtime-load-differs",
                    &format!("real-time ROM load gave {:?} (ram diff {:?}), expected {:?}", o_rt, d_rt, want),
                    case(info),
                );
            }
            return;
        }
        if o_fl != want || d_fl.is_some() {
            ctx.violation(
                "c11-sys-fastload-differs-from-realtime",
                &format!("fast load gave {:?} (ram diff {:?}), real-time ROM load and model give {:?}", o_fl, d_fl, want),
                case(info),
            );
            return;
        }
        // the stack scratch differs (the real loader CALLs, the trap does not): re-align the twin
        for i in 0..post_rt.len() {
            if post_rt[i] != post_fl[i] {
                fl.poke(0x4000 + i as u16, post_rt[i]);
            }
        }
        st.fingerprints.insert((b.len(), req.de, req.load, model.carry));
        if model.carry {
            st.carry_set += 1;
        }
        if model.carry && req.load {
            st.blocks_loaded_ok += 1;
        }
        if st.sample.is_none() {
            st.sample = Some(case(jobj! {"request"=>req.to_json(), "result"=>format!("{:?}", o_rt)}));
        }
        // park the CPU and let the rest of the block (if the request ended early) play out, so
        // that the next request is issued between blocks as the statement requires
        if k + 1 < blocks.len() {
            // (time passes through the emulated IN instructions of `wait_for_silence`; interrupts are
            // disabled since LD-BYTES executed DI)
            if !wait_for_silence(&mut rt, 6000, nominal_block_time(b) + 40 * (8100 + 16 * b.len() as u64)) {
                ctx.violation("c11-sys-no-pause", "no silence found on EAR after a block (no pause between blocks)", case(jobj! {"block_index"=>k}));
                return;
            }
        }
    }
}

/// EAR at the port level: twin machines with the same tape execute the same instruction stream
/// and sample bit 6 of an even port, one always through 0xBFFE (a single half-row selected, the
/// way the ROM loader polls), the other through ports with other high bytes (all rows, no row,
/// ...) and other even low bytes. Both must see the same level at every sample: the tape input does
/// not depend on which even address or which half-rows the reading instruction uses.
fn ear_port_case(ctx: &Ctx, case_id: u64, rng: &mut Rng, st: &mut (u64, u64, u64)) {
    let is128 = rng.chance(1, 3);
    let flag = *rng.pick(&[0xFFu8, 0xA5, 0x80]);
    let n0 = 40 + rng.below(60) as usize;
    let blocks = vec![mk_block(flag, &rng.bytes(n0), true), mk_block(0xFF, &rng.bytes(8), true)];
    let img = tap_image(&blocks);
    let mut fa = Rng::fork(ctx.seed ^ 0xC11_EA, case_id);
    let mut fb = Rng::fork(ctx.seed ^ 0xC11_EA, case_id);
    let mut a = tape_machine(is128, false, &mut fa);
    let mut b = tape_machine(is128, false, &mut fb);
    for m in [&mut a, &mut b] {
        m.emu.load_tape(Tape::Tap(crate::host::mem_asset(img.clone()))).expect("load_tape");
        m.poke_bytes(0x8100, &[0x18, 0xFE]);
        let mut rf = RegFile::default();
        rf.pc = 0x8100;
        rf.sp = 0xBF00;
        m.set_regs(&rf);
    }
    let his: [u8; 10] = [0xFF, 0xFF, 0x00, 0xFE, 0x80, 0xBF, 0x3F, 0xAA, rng.u8() | 0x80, rng.u8() & 0x3F];
    let lows: [u8; 4] = [0xFE, 0xFE, 0xFA, 0xBE];
    let mut seen = [false; 2];
    let mut edges = 0u64;
    let mut prev = None;
    // phases: idle (never played), playing from a random position, stopped, playing again
    for phase in 0..4 {
        match phase {
            1 | 3 => { a.emu.play_tape(); b.emu.play_tape(); }
            2 => { a.emu.stop_tape(); b.emu.stop_tape(); }
            _ => {}
        }
        if phase == 1 {
            let skip = rng.below(130) as usize;
            a.run_frames(skip);
            b.run_frames(skip);
        }
        let samples = if phase == 1 || phase == 3 { 1500 } else { 60 };
        for _ in 0..samples {
            let gap = rng.below(60);
            for _ in 0..gap {
                a.step();
                b.step();
            }
            let hi = *rng.pick(&his);
            let lo = *rng.pick(&lows);
            let pa = 0xBFFEu16;
            let pb = ((hi as u16) << 8) | lo as u16;
            let (va, vb) = (a.inp(pa), b.inp(pb));
            if a.clock() != b.clock() {
                ctx.inconclusive("C11 ear-port: twin machines lost clock alignment (harness problem)");
                return;
            }
            st.0 += 1;
            let la = va & 0x40 != 0;
            seen[la as usize] = true;
            if prev.is_some() && prev != Some(la) {
                edges += 1;
            }
            prev = Some(la);
            if (vb & 0x40 != 0) != la {
                ctx.violation(
                    "c11-ear-port-differs",
                    &format!("bit 6 read through port {:04x} is {} while the twin machine reading {:04x} at the same instant sees {} (tape {}, phase {})", pb, vb >> 6 & 1, pa, va >> 6 & 1, if phase == 0 { "inserted, never played" } else if phase == 2 { "stopped" } else { "playing" }, phase),
                    jobj! {"case"=>case_id,"stream"=>"C11 ear-port","is128"=>is128,"port"=>pb,"phase"=>phase,"blocks"=>blocks_json(&blocks)},
                );
                return;
            }
        }
    }
    st.1 += edges;
    if seen[0] && seen[1] {
        st.2 += 1;
    }
}


// ------------------------------------------------------------------------------------------------
// The waveform as the CPU sees it, while the ULA keeps stalling the CPU
// ------------------------------------------------------------------------------------------------
struct CpuWaveStats {
    samples: u64,
    pulses: u64,
    trains: u64,
    max_gap: u64,
    by_kind: [u64; 4],
}

const CPU_WAVE_KINDS: [&str; 4] = ["code+data+stack+IR contended", "data contended", "code contended", "nothing contended"];

/// One data block is played while the CPU runs a loop made of instructions with internal
/// (no-MREQ) cycles – INC (HL), BIT n,(HL), RLC (HL), RRD, ADD IY,BC, EX (SP),HL, JR, DJNZ,
/// INC (IX+d), LD A,I – whose code, operands, stack and IR sit in contended memory (three kinds) or
/// not (control). After every 1..2 instructions EAR is sampled through an emulated IN from 0xBFFE
/// and stamped with the CPU time (frames * frame length + frame clock) at the end of that IN; an
/// edge therefore lies between two stamps (minus up to 18 T for the place of the sample inside
/// the IN). Every pulse between two edges gets a lower and an upper bound for its length in CPU
/// T-states; the statement allows [nominal, nominal + 32] "whatever instructions the CPU is
/// executing", so a lower bound above nominal + 32 or an upper bound below nominal is a violation.
/// The same is done for the whole pilot train and the whole data train, where the sampling
/// uncertainty enters once instead of once per pulse.
fn cpu_wave_case(ctx: &Ctx, case_id: u64, rng: &mut Rng, st: &mut CpuWaveStats) {
    let is128 = rng.chance(1, 3);
    let kind = (case_id % 4) as usize;
    let flag = *rng.pick(&[0xFFu8, 0xA5, 0x01]);
    let n = 2 + rng.below(10) as usize;
    let blocks = vec![mk_block(flag, &rng.bytes(n), true)];
    let img = tap_image(&blocks);
    let mut fill = Rng::fork(ctx.seed ^ 0xC11_C0, case_id);
    let mut m = tape_machine(is128, rng.bool(), &mut fill);
    m.emu.load_tape(Tape::Tap(crate::host::mem_asset(img))).expect("load_tape");
    let code: u16 = if kind == 0 || kind == 2 { *rng.pick(&[0x4100u16, 0x6000, 0x7E00]) } else { 0x9000 };
    let data: u16 = if kind == 0 || kind == 1 { *rng.pick(&[0x5000u16, 0x5AFF, 0x7FF0]) } else { 0xA000 };
    let stack: u16 = if kind == 0 { 0x5F00 } else { 0xBF00 };
    let ireg: u8 = if kind == 0 { 0x40 + rng.below(0x40) as u8 } else { 0x3F };
    let menu: [&[u8]; 11] = [&[0x34], &[0xCB, 0x7E], &[0xCB, 0x06], &[0xED, 0x67], &[0xFD, 0x09], &[0xE3, 0xE3], &[0x18, 0x00], &[0x10, 0x00], &[0xDD, 0x34, 0x00], &[0xED, 0x57], &[0x23, 0x2B]];
    let mut prog: Vec<u8> = vec![];
    let mut picks = vec![];
    for _ in 0..(4 + rng.below(12)) {
        let k = rng.below(menu.len() as u64) as usize;
        picks.push(k);
        prog.extend_from_slice(menu[k]);
    }
    prog.extend_from_slice(&[0xC3, code as u8, (code >> 8) as u8]);
    m.poke_bytes(code, &prog);
    m.poke_bytes(stack, &[data as u8, (data >> 8) as u8]);
    let mut rf = RegFile::default();
    rf.pc = code;
    rf.sp = stack;
    rf.hl = data;
    rf.ix = data;
    rf.i = ireg;
    rf.im = 1;
    m.set_regs(&rf);
    m.set_clock(rng.below(m.frame_len() as u64) as usize);
    m.emu.play_tape();
    let burst = 1 + rng.below(2);
    let fl = m.frame_len() as u64;
    let skip = rng.below(60);
    let wit = |extra: J| jobj! {"case"=>case_id, "stream"=>"C11 cpu-wave", "is128"=>is128, "kind"=>CPU_WAVE_KINDS[kind], "code"=>code, "data"=>data, "stack"=>stack, "i"=>ireg,
        "program_hex"=>hex(&prog), "burst"=>burst, "frames_skipped"=>skip, "blocks"=>blocks_json(&blocks), "info"=>extra};
    // free running start (the tape plays, nobody looks)
    let c0 = m.clock() as u64;
    m.run_frames(skip as usize);
    let mut wraps = skip;
    let mut prev_clock = m.clock() as u64;
    let pilot_n = PILOT_DATA_MIN as u64;
    let b = &blocks[0];
    let ones: u64 = b.iter().map(|x| x.count_ones() as u64).sum();
    let data_nominal = SYNC1 + SYNC2 + 2 * (ones * BIT1 + (b.len() as u64 * 8 - ones) * BIT0);
    let budget = c0 + pilot_n * (PILOT + 40) + data_nominal + 40 * (2 + 16 * b.len() as u64) + 300_000;
    let mut level: Option<bool> = None;
    let mut last_t = 0u64;
    // (stamp before, stamp at) of every level change
    let mut edges: Vec<(u64, u64)> = vec![];
    let mut now = wraps * fl + prev_clock;
    while now < budget {
        for _ in 0..burst {
            m.step();
        }
        let v = m.inp(0xBFFE) & 0x40 != 0;
        let c = m.clock() as u64;
        if c < prev_clock {
            wraps += 1;
        }
        prev_clock = c;
        now = wraps * fl + c;
        st.samples += 1;
        if let Some(l) = level {
            st.max_gap = st.max_gap.max(now - last_t);
            if l != v {
                edges.push((last_t, now));
            }
        }
        level = Some(v);
        last_t = now;
    }
    const J_IN: u64 = 18;
    let end = m.regs();
    if end.pc < code || end.pc as usize >= code as usize + prog.len() || end.iff1 {
        ctx.inconclusive(&format!("C11 cpu-wave: the sampling program left its loop (case {}, pc {:04x}) (harness problem)", case_id, end.pc));
        return;
    }
    if edges.len() < 40 {
        ctx.violation("c11-cpu-wave:no-waveform", &format!("only {} level changes seen on EAR while a block was playing", edges.len()), wit(J::Null));
        return;
    }
    // pulse k lies between edge k and edge k+1
    let lb = |k: usize| edges[k + 1].0.saturating_sub(edges[k].1 + J_IN);
    let ub = |k: usize| edges[k + 1].1 - edges[k].0 + J_IN;
    let npulses = edges.len() - 1;
    // first pulse that can only be a sync pulse
    let s = match (0..npulses).find(|&k| ub(k) < 1500) {
        Some(s) => s,
        None => {
            ctx.violation("c11-cpu-wave:no-sync", "no pulse shorter than 1500 T followed the pilot tone", wit(jobj! {"edges"=>edges.len()}));
            return;
        }
    };
    let mut nominal: Vec<u64> = vec![PILOT; s];
    nominal.push(SYNC1);
    nominal.push(SYNC2);
    for byte in b.iter() {
        for bit in (0..8).rev() {
            let l = if byte >> bit & 1 == 1 { BIT1 } else { BIT0 };
            nominal.push(l);
            nominal.push(l);
        }
    }
    if npulses + 1 < nominal.len() {
        ctx.violation("c11-cpu-wave:data-cut-short", &format!("{} pulses seen after the pilot tone, the block has {}", npulses - s, nominal.len() - s), wit(J::Null));
        return;
    }
    // the last data pulse may have no closing edge (the pause follows): judge what is closed
    let judged = nominal.len().min(npulses);
    for k in 0..judged {
        let (lo, hi) = (lb(k), ub(k));
        st.pulses += 1;
        if lo > nominal[k] + 32 {
            ctx.violation(
                "c11-cpu-wave:pulse-too-long",
                &format!("pulse {} ({} T nominal) lasted at least {} CPU T-states (edges seen in ({}, {}] and ({}, {}])", k, nominal[k], lo, edges[k].0, edges[k].1, edges[k + 1].0, edges[k + 1].1),
                wit(jobj! {"pulse"=>k, "sync_at"=>s}),
            );
            return;
        }
        if hi < nominal[k] {
            ctx.violation(
                "c11-cpu-wave:pulse-too-short",
                &format!("pulse {} ({} T nominal) lasted at most {} CPU T-states (edges seen in ({}, {}] and ({}, {}])", k, nominal[k], hi, edges[k].0, edges[k].1, edges[k + 1].0, edges[k + 1].1),
                wit(jobj! {"pulse"=>k, "sync_at"=>s}),
            );
            return;
        }
    }
    // trains: pilot pulses 0..s, data pulses s..judged
    for (name, from, to) in [("pilot", 0usize, s), ("data", s, judged)] {
        if to <= from {
            continue;
        }
        let nom: u64 = nominal[from..to].iter().sum();
        let cnt = (to - from) as u64;
        let lo = edges[to].0.saturating_sub(edges[from].1 + J_IN);
        let hi = edges[to].1 - edges[from].0 + J_IN;
        st.trains += 1;
        if lo > nom + 32 * cnt {
            ctx.violation(
                &format!("c11-cpu-wave:{}-train-too-long", name),
                &format!("{} {} pulses of together {} T nominal took at least {} CPU T-states (allowed: up to {} T)", cnt, name, nom, lo, nom + 32 * cnt),
                wit(jobj! {"train"=>name, "sync_at"=>s}),
            );
            return;
        }
        if hi < nom {
            ctx.violation(
                &format!("c11-cpu-wave:{}-train-too-short", name),
                &format!("{} {} pulses of together {} T nominal took at most {} CPU T-states", cnt, name, nom, hi),
                wit(jobj! {"train"=>name, "sync_at"=>s}),
            );
            return;
        }
    }
    st.by_kind[kind] += 1;
    let _ = picks;
}

pub fn run(ctx: &Ctx) -> Evidence {
    // ---------------- component part
    let n_tapes = ctx.scale(256, 8000) as usize;
    let only = replay_case(ctx);
    let comp = par_map(ctx.jobs(), n_tapes, |i| {
        let mut st = CompStats { wave: WaveStats::new(), calls: 0, tapes: 0, fingerprints: HashSet::new(), modes: [0; 6], sample: None };
        if !selected(&only, "C11 component", i as u64) {
            return st;
        }
        let mut rng = Rng::fork(ctx.seed ^ 0xC11, i as u64);
        // the slow partitions (all 1, small) get short tapes
        let mode = STEP_MODES[i % STEP_MODES.len()];
        let slow = matches!(mode, StepMode::All1 | StepMode::Small);
        let max_blocks = if slow { 2 } else if ctx.quick() { 3 } else { 6 };
        let blocks = Rc::new(gen_wave_tape(&mut rng, max_blocks, i % 4 == 0));
        let case = jobj! {"stream"=>"C11 component", "tape_index"=>i, "seed"=>ctx.seed};
        let srng = Rng::fork(ctx.seed ^ 0xC11_57E9, i as u64);
        play_component(ctx, &case, &blocks, mode, srng, &mut st);
        if st.sample.is_none() {
            st.sample = Some(jobj! {"tape_index"=>i, "mode"=>format!("{:?}", mode), "block_lengths"=>J::Arr(blocks.iter().map(|b| J::from(b.len())).collect()),
                "flags"=>J::Arr(blocks.iter().map(|b| J::from(b[0])).collect())});
        }
        st
    });
    // ---------------- component part, long blocks: one block of 32769..49000 bytes (a typical game's
    // code block, 4 minutes of tape; mostly not a multiple of the deck's 128-byte window) followed by
    // a short one, played to the end in 16-T steps
    let n_long = ctx.scale(2, 12) as usize;
    let long = par_map(ctx.jobs(), n_long, |i| {
        let mut st = CompStats { wave: WaveStats::new(), calls: 0, tapes: 0, fingerprints: HashSet::new(), modes: [0; 6], sample: None };
        if !selected(&only, "C11 component-long", i as u64) {
            return st;
        }
        let mut rng = Rng::fork(ctx.seed ^ 0xC11_10, i as u64);
        let n = *rng.pick(&[32769usize, 33000, 40000, 48000, 49000]) + rng.below(120) as usize;
        let blocks = Rc::new(vec![mk_block(0xFF, &rng.bytes(n - 2), true), mk_block(*rng.pick(&[0x00u8, 0xFF]), &rng.bytes(17), true)]);
        let case = jobj! {"stream"=>"C11 component-long", "tape_index"=>i, "seed"=>ctx.seed};
        let srng = Rng::fork(ctx.seed ^ 0xC11_57E9, 1_000_000 + i as u64);
        play_component(ctx, &case, &blocks, StepMode::All16, srng, &mut st);
        st.modes = [0; 6];
        st
    });
    // ---------------- system part
    let n_sys = ctx.scale(32, 400) as usize;
    let sys = par_map(ctx.jobs(), n_sys, |i| {
        let mut st = SysStats { requests: 0, blocks_loaded_ok: 0, carry_set: 0, fingerprints: HashSet::new(), inconclusive: 0, sample: None };
        if !selected(&only, "C11 system", i as u64) {
            return st;
        }
        let mut rng = Rng::fork(ctx.seed ^ 0xC11_5757, i as u64);
        system_case(ctx, i as u64, &mut rng, &mut st);
        st
    });

    // ---------------- EAR at the port level
    let n_ear = ctx.scale(48, 600) as usize;
    let ear = par_map(ctx.jobs(), n_ear, |i| {
        let mut st = (0u64, 0u64, 0u64);
        if !selected(&only, "C11 ear-port", i as u64) {
            return st;
        }
        let mut rng = Rng::fork(ctx.seed ^ 0xC11_EA5, i as u64);
        ear_port_case(ctx, i as u64, &mut rng, &mut st);
        st
    });

    // ---------------- the waveform in CPU time under contention
    let n_cw = ctx.scale(32, 480) as usize;
    let cw = par_map(ctx.jobs(), n_cw, |i| {
        let mut st = CpuWaveStats { samples: 0, pulses: 0, trains: 0, max_gap: 0, by_kind: [0; 4] };
        if !selected(&only, "C11 cpu-wave", i as u64) {
            return st;
        }
        let mut rng = Rng::fork(ctx.seed ^ 0xC11_C9A, i as u64);
        cpu_wave_case(ctx, i as u64, &mut rng, &mut st);
        st
    });

    let mut ev = Evidence::new(
        "component: generated TAP images played by the real Tap pulse generator under six step partitions (1..16 T per process_clocks call); \
         every pulse classified into [nominal, nominal+32] windows and every block parsed (pilot count, sync, two equal pulses per bit, MSB first, \
         bytes equal to the tape, pause 0.9..1.1 s, order, stop at the end). system: real ROM LD-BYTES loading in real time from the playing tape, \
         compared with the ld_bytes model and with a fast-loading twin machine. ear-port: twin machines sampling bit 6 through 0xBFFE and through even ports with other high/low bytes at the same instants (idle, playing, stopped, playing again). cpu-wave: one block played while the CPU loops through instructions with internal cycles whose code/operands/stack/IR are contended (3 kinds + control); EAR sampled by an emulated IN every 1..2 instructions and stamped in CPU T-states; every pulse, the pilot train and the data train bounded from both sides and compared with [nominal, nominal+32]. distinct = (partition, block length, flag) triples decoded + \
         (block length, DE, LOAD/VERIFY, outcome) request shapes",
    );
    let mut wave = WaveStats::new();
    let mut fps = HashSet::new();
    let mut modes = [0u64; 6];
    let mut tapes = 0;
    for r in comp {
        wave.merge(&r.wave);
        ev.add_num("process_clocks_calls", r.calls);
        tapes += r.tapes;
        fps.extend(r.fingerprints);
        for i in 0..6 {
            modes[i] += r.modes[i];
        }
        if let Some(s) = r.sample {
            ev.sample(s);
        }
    }
    let mut long_tapes = 0u64;
    for r in long {
        wave.merge(&r.wave);
        ev.add_num("process_clocks_calls", r.calls);
        long_tapes += r.tapes;
    }
    ev.add("long_block_tapes_played_to_end", long_tapes);
    let mut sys_fps = HashSet::new();
    let (mut reqs, mut okl, mut cs) = (0, 0, 0);
    for r in sys {
        reqs += r.requests;
        okl += r.blocks_loaded_ok;
        cs += r.carry_set;
        sys_fps.extend(r.fingerprints);
        if let Some(s) = r.sample {
            ev.sample(s);
        }
    }
    ev.evaluations = wave.total_pulses() + reqs;
    ev.distinct_nontrivial = fps.len() as u64 + sys_fps.len() as u64;
    ev.add("tapes_played_to_end", tapes as u64);
    ev.add("pulses_by_class", J::Arr((0..6).map(|i| jobj! {"class"=>CLS_NAMES[i], "count"=>wave.pulses[i]}).collect()));
    ev.add(
        "excess_over_nominal_T",
        J::Arr((0..5).map(|i| jobj! {"class"=>CLS_NAMES[i], "min"=>wave.min_excess[i].min(9999), "max"=>wave.max_excess[i].max(-9999)}).collect()),
    );
    ev.add("pause_T_min", wave.pause_min.min(99_999_999));
    ev.add("pause_T_max", wave.pause_max);
    ev.add("bytes_decoded", wave.bytes);
    ev.add("distinct_byte_values_decoded", wave.distinct_bytes());
    ev.add("blocks_decoded", wave.blocks);
    ev.add("header_blocks_decoded", wave.header_blocks);
    ev.add("first_pulse_merged", wave.merged_first);
    ev.add("tapes_per_partition", J::Arr((0..6).map(|i| jobj! {"mode"=>format!("{:?}", STEP_MODES[i]), "tapes"=>modes[i]}).collect()));
    ev.add("system_requests_compared", reqs as u64);
    ev.add("system_successful_loads", okl as u64);
    ev.add("system_carry_set", cs as u64);
    let (mut es, mut ee, mut eb) = (0u64, 0u64, 0u64);
    for r in ear {
        es += r.0;
        ee += r.1;
        eb += r.2;
    }
    ev.evaluations += es;
    ev.add("ear_port_samples_compared", es);
    ev.add("ear_port_level_changes_seen", ee);
    ev.add("ear_port_cases_with_both_levels", eb);
    let mut cws = CpuWaveStats { samples: 0, pulses: 0, trains: 0, max_gap: 0, by_kind: [0; 4] };
    for r in cw {
        cws.samples += r.samples;
        cws.pulses += r.pulses;
        cws.trains += r.trains;
        cws.max_gap = cws.max_gap.max(r.max_gap);
        for k in 0..4 {
            cws.by_kind[k] += r.by_kind[k];
        }
    }
    ev.evaluations += cws.pulses;
    ev.add("cpu_wave_ear_samples", cws.samples);
    ev.add("cpu_wave_pulses_bounded_in_cpu_time", cws.pulses);
    ev.add("cpu_wave_trains_bounded", cws.trains);
    ev.add("cpu_wave_largest_sampling_gap_T", cws.max_gap);
    ev.add("cpu_wave_cases_held_by_kind", J::Arr((0..4).map(|k| jobj! {"kind"=>CPU_WAVE_KINDS[k], "cases"=>cws.by_kind[k]}).collect()));
    ev.assumptions.push("zero-length TAP blocks are outside the domain of C11 (no flag byte)".into());
    ev.assumptions.push("edge time = end of the process_clocks call after which current_bit() differs".into());
    if only.is_some() {
        return ev;
    }
    // coverage floors
    ctx.require("tapes played to their end", tapes as u64, (n_tapes as u64 * 9) / 10);
    ctx.require("distinct byte values decoded", wave.distinct_bytes(), 256);
    ctx.require("pulses classified", wave.total_pulses(), 100_000);
    ctx.require("blocks decoded", wave.blocks, n_tapes as u64);
    ctx.require("header (flag 00) blocks decoded", wave.header_blocks, 4);
    for i in 0..5 {
        ctx.require(&format!("{} pulses", CLS_NAMES[i]), wave.pulses[i], 50);
    }
    for i in 0..6 {
        ctx.require(&format!("tapes under partition {:?}", STEP_MODES[i]), modes[i], 4);
    }
    ctx.require("cpu-wave pulses bounded in CPU time", cws.pulses, n_cw as u64 * 500);
    ctx.require("long-block tapes played to their end", long_tapes, n_long as u64);
    ctx.require("ear-port cases that saw both tape levels", eb, n_ear as u64 / 2);
    ctx.require("system-level requests compared", reqs as u64, (n_sys as u64 * 3) / 2 / 2);
    ctx.require("system-level successful real-time loads", okl as u64, n_sys as u64 / 8);
    ev
}
