//! C12 – play, stop and rewind behave like a cassette deck for every command history.
//!
//! Shape: command histories against a reference deck. The real pulse generator (`Tap`, through the
//! hook re-export; and the whole `Emulator` through `play_tape/stop_tape/rewind_tape` with EAR read
//! by emulated `IN`) is driven by scripted histories over {play, stop, rewind, advance}; the command
//! points are aimed at the pilot tone, the sync pulses, the data, the pause and after the end, with
//! back-to-back duplicates (stop-stop-play, play-play). After every step the level is sampled.
//!
//! Reference deck (from the statement): a playing flag and a position. `stop` freezes, `play`
//! resumes, `rewind` and running off the end put the position back to the start (the latter also
//! stops). Oracle:
//!  (1) while the reference deck is stopped the sampled level never changes as time passes
//!      (a level re-initialisation at the very instant of a rewind or of the automatic stop is a
//!      don't-care: it carries no timing information);
//!  (2) time is accounted only while the reference deck plays ("playing time"); the edges in playing
//!      time since the last start of tape (fresh tape / rewind / restart after the end) form a
//!      *segment* that must parse, with the C11 parser and tolerances, as: silence (at most one
//!      pause long, possibly containing one lone level change), then the tape's blocks from the
//!      first, each once, in order, each with its full pilot. A segment may be cut anywhere by the
//!      observer (rewind, end of history) but the deck itself may only end it after the last
//!      block's pause. So a resume that loses, repeats or distorts anything – even one pulse cut
//!      short – is a violation, as is anything that is not block 1 with a clean pilot after a
//!      rewind / restart;
//!  (3) when enough playing time is given the whole tape is delivered and the deck stops by itself
//!      within 1.1 s of the last pulse (component level: `can_fast_load()` tells; emulator level:
//!      inferred from the silence).
//! Violation keys name the *history feature* that preceded the failure (repeated stop, rewind
//! while playing, …) so that each defect mechanism has its own signature; failures that no such
//! feature explains are keyed by the situation and the parser's symptom.
use crate::host::{mem_asset, Machine};
use crate::json::{hex, J};
use crate::report::{par_map, Ctx, Evidence};
use crate::rng::Rng;
use crate::spec_tape::*;
use rustzx_core::host::Tape;
use rustzx_core::verif::TapeImpl;
use std::collections::HashSet;
use std::rc::Rc;

// ------------------------------------------------------------------------------------------------
// devices under observation
// ------------------------------------------------------------------------------------------------
trait Dev {
    fn play(&mut self);
    fn stop(&mut self);
    fn rewind(&mut self) -> Result<(), String>;
    /// let one observation step pass; returns the T-states that elapsed
    fn step(&mut self, st: &mut Stepper) -> Result<u64, String>;
    fn level(&mut self) -> bool;
    /// Some(stopped?) when the device can tell
    fn stopped(&mut self) -> Option<bool>;
    fn slack(&self) -> u64;
    fn name(&self) -> &'static str;
}

struct TapDev {
    tap: MemTap,
}
impl Dev for TapDev {
    fn play(&mut self) {
        self.tap.play()
    }
    fn stop(&mut self) {
        self.tap.stop()
    }
    fn rewind(&mut self) -> Result<(), String> {
        self.tap.rewind().map_err(|e| format!("{:?}", e))
    }
    #[inline]
    fn step(&mut self, st: &mut Stepper) -> Result<u64, String> {
        let s = st.next();
        self.tap.process_clocks(s).map_err(|e| format!("{:?}", e))?;
        Ok(s as u64)
    }
    #[inline]
    fn level(&mut self) -> bool {
        self.tap.current_bit()
    }
    #[inline]
    fn stopped(&mut self) -> Option<bool> {
        Some(self.tap.can_fast_load())
    }
    fn slack(&self) -> u64 {
        0
    }
    fn name(&self) -> &'static str {
        "Tap"
    }
}

/// Whole emulator: time passes 12 T at a time through emulated `IN A,(C)` from port FEFEh, whose
/// bit 6 is the observation. Edge times are therefore uncertain by one sampling period (slack).
struct EmuDev {
    m: Machine,
    clk: Clock,
    last: bool,
}
impl Dev for EmuDev {
    fn play(&mut self) {
        self.m.emu.play_tape()
    }
    fn stop(&mut self) {
        self.m.emu.stop_tape()
    }
    fn rewind(&mut self) -> Result<(), String> {
        self.m.emu.rewind_tape().map_err(|e| format!("{:?}", e))?;
        // re-sample (costs 12 T of emulated time, which `step` will report)
        Ok(())
    }
    fn step(&mut self, _st: &mut Stepper) -> Result<u64, String> {
        let before = self.clk.total;
        self.last = self.m.inp(0xFEFE) & 0x40 != 0;
        Ok(self.clk.update(&self.m) - before)
    }
    fn level(&mut self) -> bool {
        self.last
    }
    fn stopped(&mut self) -> Option<bool> {
        None
    }
    fn slack(&self) -> u64 {
        16
    }
    fn name(&self) -> &'static str {
        "Emulator"
    }
}

// ------------------------------------------------------------------------------------------------
// reference deck + monitor
// ------------------------------------------------------------------------------------------------
#[derive(Clone, Copy, PartialEq, Eq, Debug)]
enum StartCause {
    Fresh,
    EndOfTape,
    RewindWhilePlaying,
    RewindWhileStoppedAtStart,
    RewindWhileStoppedMidTape,
}

struct Failure {
    key: String,
    what: String,
}

struct Mon<D: Dev> {
    dev: D,
    blocks: Rc<Vec<Vec<u8>>>,
    stepper: Stepper,
    /// playing time
    t: u64,
    level: bool,
    playing: bool,
    parser: WaveParser,
    /// nothing of the tape has been played since the position was last put to the start
    at_start: bool,
    cause: StartCause,
    /// stop commands since the deck last played
    stops: u32,
    /// a stop was issued while playing at some point of the history
    ever_stopped_playing: bool,
    hazards: Vec<&'static str>,
    tag: &'static str,
    log: Vec<String>,
    steps: u64,
    wave: WaveStats,
    segments_complete: u64,
    resumes_checked: u64,
    restarts_checked: u64,
    stopped_steps: u64,
    pending_resume: bool,
    pending_restart: bool,
    /// emulator level: the next sample re-initialises the level without being judged
    resync: bool,
    situations: HashSet<(&'static str, &'static str)>,
}

impl<D: Dev> Mon<D> {
    fn new(dev: D, blocks: Rc<Vec<Vec<u8>>>, stepper: Stepper) -> Self {
        let slack = dev.slack();
        let mut m = Mon {
            dev,
            blocks: blocks.clone(),
            stepper,
            t: 0,
            level: false,
            playing: false,
            parser: WaveParser::new(blocks, slack, 0),
            at_start: true,
            cause: StartCause::Fresh,
            stops: 0,
            ever_stopped_playing: false,
            hazards: vec![],
            tag: "first-play",
            log: vec![],
            steps: 0,
            wave: WaveStats::new(),
            segments_complete: 0,
            resumes_checked: 0,
            restarts_checked: 0,
            stopped_steps: 0,
            pending_resume: false,
            pending_restart: false,
            resync: false,
            situations: HashSet::new(),
        };
        m.level = m.dev.level();
        m
    }
    fn new_segment(&mut self) {
        self.wave.merge(&self.parser.stats);
        self.parser = WaveParser::new(self.blocks.clone(), self.dev.slack(), self.t);
        self.at_start = true;
        self.hazards.clear();
        self.pending_resume = false;
    }
    fn fail(&self, e: PErr) -> Failure {
        let key = match self.hazards.first() {
            Some(h) => format!("c12-{}", h),
            None => format!("c12-{}:{}", self.tag, e.key),
        };
        Failure { key, what: format!("{} [{} level, situation {}{}]", e.msg, self.dev.name(), self.tag, if self.hazards.is_empty() { String::new() } else { format!(", after {}", self.hazards.join("+")) }) }
    }
    fn position(&self) -> &'static str {
        if !self.playing && self.at_start {
            "start"
        } else {
            self.parser.position(self.t)
        }
    }
    fn cmd_play(&mut self) -> Result<(), Failure> {
        self.settle()?;
        let pos = self.position();
        self.log.push(format!("play   @{} ({}, {})", self.t, if self.playing { "playing" } else { "stopped" }, pos));
        self.situations.insert(("play", pos));
        self.dev.play();
        if self.playing {
            // redundant play: must change nothing; the situation tag of the segment is kept
            return Ok(());
        }
        self.playing = true;
        if self.at_start {
            self.pending_restart = true;
            match self.cause {
                StartCause::RewindWhileStoppedMidTape => self.hazards.push("play-after-rewind-while-stopped-mid-tape"),
                StartCause::EndOfTape if self.ever_stopped_playing => self.hazards.push("play-after-end-of-tape-following-earlier-stop"),
                _ => {}
            }
            self.tag = match self.cause {
                StartCause::Fresh => "first-play",
                StartCause::EndOfTape => "restart-after-end-of-tape",
                _ => "play-after-rewind",
            };
        } else {
            self.pending_resume = true;
            if self.stops >= 2 {
                self.hazards.push("resume-after-repeated-stop");
            }
            self.tag = "resume-after-stop";
        }
        self.stops = 0;
        Ok(())
    }
    fn cmd_stop(&mut self) -> Result<(), Failure> {
        self.settle()?;
        let pos = self.position();
        self.log.push(format!("stop   @{} ({}, {})", self.t, if self.playing { "playing" } else { "stopped" }, pos));
        self.situations.insert(("stop", pos));
        self.dev.stop();
        if self.playing {
            self.playing = false;
            self.stops = 1;
            self.ever_stopped_playing = true;
        } else {
            self.stops += 1;
        }
        Ok(())
    }
    fn cmd_rewind(&mut self) -> Result<(), Failure> {
        self.settle()?;
        let pos = self.position();
        self.log.push(format!("rewind @{} ({}, {})", self.t, if self.playing { "playing" } else { "stopped" }, pos));
        self.situations.insert(("rewind", pos));
        if let Err(e) = self.dev.rewind() {
            return Err(Failure { key: "c12-rewind-error".into(), what: format!("rewind failed: {}", e) });
        }
        let was_at_start = self.at_start;
        self.new_segment();
        if self.playing {
            self.cause = StartCause::RewindWhilePlaying;
            self.pending_restart = true;
            if !was_at_start {
                self.hazards.push("rewind-while-playing");
            }
            self.tag = "rewind-while-playing";
        } else if !was_at_start {
            self.cause = StartCause::RewindWhileStoppedMidTape;
        } else if self.cause == StartCause::Fresh {
            self.cause = StartCause::RewindWhileStoppedAtStart;
        }
        // level re-initialisation at the instant of the rewind: don't care
        if self.dev.slack() == 0 {
            self.level = self.dev.level();
        } else {
            self.resync = true;
        }
        Ok(())
    }
    /// the deck ran off the end (observed or inferred)
    fn auto_stopped(&mut self) {
        self.parser.note_final_block();
        self.segments_complete += 1;
        self.log.push(format!("(deck stopped at end of tape @{})", self.t));
        self.playing = false;
        self.new_segment();
        self.cause = StartCause::EndOfTape;
        self.stops = 0;
        if self.dev.slack() == 0 {
            self.level = self.dev.level();
        } else {
            self.resync = true;
        }
    }
    /// one observation step; returns the T-states that passed
    #[inline]
    fn step(&mut self) -> Result<u64, Failure> {
        let dt = match self.dev.step(&mut self.stepper) {
            Ok(d) => d,
            Err(e) => return Err(Failure { key: "c12-emulation-error".into(), what: format!("error while time passes on a well-formed tape: {}", e) }),
        };
        self.steps += 1;
        if self.resync {
            self.resync = false;
            self.level = self.dev.level();
        }
        if !self.playing {
            self.stopped_steps += 1;
            let l = self.dev.level();
            if l != self.level {
                self.level = l;
                return Err(Failure { key: "c12-level-changes-while-stopped".into(), what: format!("EAR level changed while the deck is stopped [{} level]", self.dev.name()) });
            }
            return Ok(dt);
        }
        self.t += dt;
        if self.t > self.parser.seg_start {
            self.at_start = false;
        }
        match self.dev.stopped() {
            Some(true) => {
                if let Err(e) = self.parser.deck_stopped(self.t) {
                    return Err(self.fail(e));
                }
                self.auto_stopped();
                return Ok(dt);
            }
            Some(false) => {}
            None => {
                if self.parser.tape_complete() && self.t - self.parser.last_edge.unwrap_or(0) > PAUSE_MAX + 64 + self.dev.slack() {
                    // inferred: a level change later than this would be flagged as changing while stopped
                    self.auto_stopped();
                    return Ok(dt);
                }
            }
        }
        let l = self.dev.level();
        if l != self.level {
            self.level = l;
            if let Err(e) = self.parser.edge(self.t) {
                return Err(self.fail(e));
            }
            if self.pending_resume && self.parser.edges > 0 {
                self.pending_resume = false;
                self.resumes_checked += 1;
            }
            if self.pending_restart && self.parser.phase == Phase::Sync2 {
                self.pending_restart = false;
                self.restarts_checked += 1;
            }
        } else if self.steps & 0xFF == 0 {
            if let Err(e) = self.parser.tick(self.t) {
                return Err(self.fail(e));
            }
        }
        Ok(dt)
    }
    /// let `n` T-states pass (playing or stopped)
    fn advance(&mut self, n: u64) -> Result<(), Failure> {
        self.log.push(format!("advance {}", n));
        let mut left = n as i64;
        while left > 0 {
            left -= self.step()?.max(1) as i64;
        }
        if self.playing {
            if let Err(e) = self.parser.tick(self.t) {
                return Err(self.fail(e));
            }
        }
        Ok(())
    }
    /// Emulator level only: the end of the tape is inferred from silence, and a pause is only
    /// "about" a second, so between 0.9 s and 1.1 s after the last pulse the reference cannot know
    /// whether the deck has already stopped. Commands are not issued inside that window: time is let
    /// pass until the stop has been inferred.
    fn settle(&mut self) -> Result<(), Failure> {
        if self.dev.slack() == 0 {
            return Ok(());
        }
        while self.playing && self.parser.tape_complete() && self.t - self.parser.last_edge.unwrap_or(0) + 4 * self.dev.slack() >= PAUSE_MIN {
            self.step()?;
        }
        Ok(())
    }
    /// advance until the reference position is `target` (or the deck stops, or `budget` T pass)
    fn advance_to(&mut self, target: &'static str, budget: u64) -> Result<bool, Failure> {
        self.log.push(format!("advance-to {}", target));
        let t0 = self.t;
        while self.playing && self.t - t0 < budget {
            if self.parser.position(self.t) == target {
                return Ok(true);
            }
            self.step()?;
        }
        Ok(false)
    }
    /// play on until the deck stops at the end of the tape
    fn advance_to_end(&mut self) -> Result<(), Failure> {
        self.log.push("advance-to-end".into());
        let budget: u64 = self.blocks.iter().map(|b| nominal_block_time(b) + 40 * (8100 + 16 * b.len() as u64)).sum::<u64>() + 3 * SECOND;
        let t0 = self.t;
        while self.playing {
            self.step()?;
            if self.t - t0 > budget {
                let e = PErr { key: "no-stop-at-end".into(), msg: format!("tape not finished after {} T of playing (nominal duration + margins)", budget) };
                return Err(self.fail(e));
            }
        }
        Ok(())
    }
}

// ------------------------------------------------------------------------------------------------
// histories
// ------------------------------------------------------------------------------------------------
#[derive(Default)]
struct Stats {
    histories: u64,
    histories_clean: u64,
    commands: u64,
    steps: u64,
    stopped_steps: u64,
    segments_complete: u64,
    resumes: u64,
    restarts: u64,
    wave: Option<WaveStats>,
    situations: HashSet<(&'static str, &'static str)>,
    patterns: HashSet<&'static str>,
    sample: Option<J>,
}

fn gen_tape(rng: &mut Rng, max_blocks: u64) -> Vec<Vec<u8>> {
    let n = 1 + rng.below(max_blocks) as usize;
    (0..n)
        .map(|_| {
            let flag = if rng.chance(1, 6) { 0 } else { *rng.pick(&[0xFFu8, 0xFF, 0x80, 0x01, 0x5A]) };
            // mostly short blocks (short histories); one in five spans several 128-byte read buffers
            let len = if rng.chance(1, 5) { *rng.pick(&[127usize, 129, 200, 300, 450]) } else { *rng.pick(&[0usize, 1, 2, 5, 17, 30, 40]) };
            mk_block(flag, &rng.bytes(len), rng.bool())
        })
        .collect()
}

const PHASES: [&str; 4] = ["pilot", "sync", "data", "pause"];

/// runs one history; returns Err on the first violation (already reported)
fn history<D: Dev>(ctx: &Ctx, mon: &mut Mon<D>, rng: &mut Rng, st: &mut Stats, hist: &J, max_patterns: u64) -> bool {
    let report = |mon: &Mon<D>, f: Failure| {
        let n = mon.log.len();
        ctx.violation(
            &f.key,
            &f.what,
            jobj! {"history"=>hist.clone(), "device"=>mon.dev.name(), "blocks"=>J::Arr(mon.blocks.iter().map(|b| J::from(hex(b))).collect()),
                "step_mode"=>format!("{:?}", mon.stepper.mode), "playing_time_T"=>mon.t,
                "parser"=>format!("block {} phase {:?} pilots {} bytes_done {}", mon.parser.block, mon.parser.phase, mon.parser.pilots, mon.parser.bytes_done),
                "commands"=>J::Arr(mon.log[n.saturating_sub(40)..].iter().map(|s| J::from(s.as_str())).collect())},
        );
    };
    macro_rules! tryv {
        ($e:expr) => {
            match $e {
                Ok(v) => v,
                Err(f) => {
                    report(mon, f);
                    return false;
                }
            }
        };
    }
    let whole_tape: u64 = mon.blocks.iter().map(|b| nominal_block_time(b) + 40 * (8100 + 16 * b.len() as u64)).sum();
    // how the history starts
    match rng.below(8) {
        0 => {
            // stopped deck: time passes, nothing may happen
            tryv!(mon.advance(1 + rng.below(300_000)));
            st.patterns.insert("idle-before-play");
        }
        1 => {
            tryv!(mon.cmd_rewind());
            st.patterns.insert("rewind-before-play");
        }
        2 => {
            tryv!(mon.cmd_stop());
            st.patterns.insert("stop-before-play");
        }
        _ => {}
    }
    tryv!(mon.cmd_play());
    let n_pat = 1 + rng.below(max_patterns);
    for _ in 0..n_pat {
        // aim at a phase of the waveform, then a little further
        if mon.playing {
            let target = *rng.pick(&PHASES);
            tryv!(mon.advance_to(target, whole_tape + 2 * SECOND));
            if mon.playing {
                let extra = match rng.below(4) {
                    0 => 0,
                    1 => rng.below(64),
                    2 => rng.below(3000),
                    _ => rng.below(if target == "pause" { 3_000_000 } else { 400_000 }),
                };
                tryv!(mon.advance(extra));
            }
        }
        let idle = |r: &mut Rng| match r.below(4) {
            0 => 0,
            1 => 1 + r.below(100),
            2 => 1 + r.below(20_000),
            _ => 1 + r.below(4_000_000),
        };
        let pat = rng.below(14);
        match pat {
            12 | 13 => {
                // two rewinds with tape running in between and no play command of the host's
                st.patterns.insert("rewind-advance-rewind-play");
                tryv!(mon.cmd_rewind());
                tryv!(mon.advance(1 + idle(rng)));
                if rng.bool() {
                    tryv!(mon.cmd_stop());
                    tryv!(mon.advance(idle(rng)));
                }
                tryv!(mon.cmd_rewind());
                tryv!(mon.cmd_play());
            }
            0..=2 => {
                st.patterns.insert("stop-play");
                tryv!(mon.cmd_stop());
                tryv!(mon.advance(idle(rng)));
                tryv!(mon.cmd_play());
            }
            3 => {
                st.patterns.insert("stop-stop-play");
                tryv!(mon.cmd_stop());
                tryv!(mon.advance(idle(rng)));
                tryv!(mon.cmd_stop());
                tryv!(mon.advance(idle(rng)));
                tryv!(mon.cmd_play());
            }
            4 => {
                st.patterns.insert("play-play");
                tryv!(mon.cmd_play());
                tryv!(mon.advance(idle(rng)));
                tryv!(mon.cmd_play());
            }
            5 => {
                st.patterns.insert("stop-play-play");
                tryv!(mon.cmd_stop());
                tryv!(mon.advance(idle(rng)));
                tryv!(mon.cmd_play());
                tryv!(mon.cmd_play());
            }
            6 => {
                st.patterns.insert("rewind-while-playing");
                tryv!(mon.cmd_rewind());
            }
            7 => {
                st.patterns.insert("stop-rewind-play");
                tryv!(mon.cmd_stop());
                tryv!(mon.advance(idle(rng)));
                tryv!(mon.cmd_rewind());
                tryv!(mon.advance(idle(rng)));
                tryv!(mon.cmd_play());
            }
            8 | 9 => {
                st.patterns.insert("run-off-the-end-then-play");
                tryv!(mon.advance_to_end());
                tryv!(mon.advance(idle(rng)));
                if rng.chance(1, 4) {
                    st.patterns.insert("run-off-the-end-rewind-play");
                    tryv!(mon.cmd_rewind());
                }
                tryv!(mon.cmd_play());
            }
            10 => {
                st.patterns.insert("run-off-the-end-stop-play");
                tryv!(mon.advance_to_end());
                tryv!(mon.cmd_stop());
                tryv!(mon.advance(idle(rng)));
                tryv!(mon.cmd_play());
            }
            _ => {
                st.patterns.insert("stop-idle");
                tryv!(mon.cmd_stop());
                tryv!(mon.advance(idle(rng)));
                tryv!(mon.cmd_stop());
                tryv!(mon.cmd_play());
                tryv!(mon.cmd_stop());
                tryv!(mon.advance(idle(rng)));
                tryv!(mon.cmd_play());
            }
        }
        if mon.playing {
            tryv!(mon.advance(1 + rng.below(50_000)));
        }
    }
    // enough time: the whole (rest of the) tape must come, then the deck must stop
    if rng.chance(2, 3) {
        if !mon.playing {
            tryv!(mon.cmd_play());
        }
        tryv!(mon.advance_to_end());
        // and it stays silent afterwards
        tryv!(mon.advance(1 + rng.below(100_000)));
    }
    true
}

fn collect<D: Dev>(mon: &mut Mon<D>, st: &mut Stats, clean: bool) {
    mon.wave.merge(&mon.parser.stats);
    st.histories += 1;
    st.histories_clean += clean as u64;
    st.commands += mon.log.iter().filter(|l| !l.starts_with("advance") && !l.starts_with('(')).count() as u64;
    st.steps += mon.steps;
    st.stopped_steps += mon.stopped_steps;
    st.segments_complete += mon.segments_complete;
    st.resumes += mon.resumes_checked;
    st.restarts += mon.restarts_checked;
    st.situations.extend(mon.situations.iter().copied());
    match st.wave.as_mut() {
        Some(w) => w.merge(&mon.wave),
        None => st.wave = Some(mon.wave.clone()),
    }
}

pub fn run(ctx: &Ctx) -> Evidence {
    let n_hist = ctx.scale(1600, 60_000) as usize;
    let n_emu = ctx.scale(32, 400) as usize;
    let shards = 64usize;
    let per = (n_hist + shards - 1) / shards;
    let only = replay_case(ctx);
    let res = par_map(ctx.jobs(), shards, |sh| {
        let mut st = Stats::default();
        for i in 0..per {
            let hid = (sh * per + i) as u64;
            if !selected(&only, "C12 component", hid) {
                continue;
            }
            let mut rng = Rng::fork(ctx.seed ^ 0xC12, hid);
            let blocks = Rc::new(gen_tape(&mut rng, 3));
            let mode = *rng.pick(&[StepMode::Uniform, StepMode::MachineLike, StepMode::All16, StepMode::Adversarial, StepMode::Uniform, StepMode::Small]);
            let stepper = Stepper::new(mode, Rng::fork(ctx.seed ^ 0xC12_57, hid));
            let mut mon = Mon::new(TapDev { tap: mem_tap(&blocks) }, blocks.clone(), stepper);
            let hist = jobj! {"stream"=>"C12 component", "history"=>hid, "seed"=>ctx.seed};
            let clean = history(ctx, &mut mon, &mut rng, &mut st, &hist, 5);
            collect(&mut mon, &mut st, clean);
            if st.sample.is_none() && clean {
                st.sample = Some(jobj! {"history"=>hid, "block_lengths"=>J::Arr(blocks.iter().map(|b| J::from(b.len())).collect()),
                    "commands"=>J::Arr(mon.log.iter().take(30).map(|s| J::from(s.as_str())).collect())});
            }
        }
        st
    });
    let emu = par_map(ctx.jobs(), n_emu, |i| {
        let mut st = Stats::default();
        if !selected(&only, "C12 emulator", i as u64) {
            return st;
        }
        let mut rng = Rng::fork(ctx.seed ^ 0xC12_E, i as u64);
        let blocks = Rc::new(gen_tape(&mut rng, 2));
        let is128 = rng.chance(1, 3);
        let mut fill = Rng::fork(ctx.seed ^ 0xC12_F, i as u64);
        let mut m = tape_machine(is128, false, &mut fill);
        m.emu.load_tape(Tape::Tap(mem_asset(tap_image(&blocks)))).expect("load_tape");
        let clk = Clock::new(&m);
        let stepper = Stepper::new(StepMode::All16, Rng::new(1));
        let mut mon = Mon::new(EmuDev { m, clk, last: false }, blocks.clone(), stepper);
        let mut dummy = Stepper::new(StepMode::All16, Rng::new(1));
        let _ = mon.dev.step(&mut dummy);
        mon.level = mon.dev.level();
        let hist = jobj! {"stream"=>"C12 emulator", "history"=>i, "seed"=>ctx.seed, "is128"=>is128};
        let clean = history(ctx, &mut mon, &mut rng, &mut st, &hist, 2);
        collect(&mut mon, &mut st, clean);
        st
    });
    let mut ev = Evidence::new(
        "scripted histories over {play, stop, rewind, advance} aimed at pilot/sync/data/pause/after-the-end with duplicates, against the real Tap \
         pulse generator (steps 1..16 T) and against Emulator::play_tape/stop_tape/rewind_tape with EAR sampled by emulated IN; level frozen while \
         stopped; edges in playing time since the last start of tape must parse as silence + the tape's blocks from the first with full pilots \
         (C11 tolerances), the deck stops itself only after the last block. distinct = (command, waveform position) situations exercised",
    );
    let mut total = Stats::default();
    for (r, is_emu) in res.into_iter().map(|r| (r, false)).chain(emu.into_iter().map(|r| (r, true))) {
        total.histories += r.histories;
        total.histories_clean += r.histories_clean;
        total.commands += r.commands;
        total.steps += r.steps;
        total.stopped_steps += r.stopped_steps;
        total.segments_complete += r.segments_complete;
        total.resumes += r.resumes;
        total.restarts += r.restarts;
        total.situations.extend(r.situations);
        total.patterns.extend(r.patterns);
        if is_emu {
            ev.add_num("emulator_level_histories", r.histories);
            ev.add_num("emulator_level_histories_clean", r.histories_clean);
            ev.add_num("emulator_level_resumes_checked", r.resumes);
            ev.add_num("emulator_level_restarts_checked", r.restarts);
        }
        if let Some(w) = r.wave {
            match total.wave.as_mut() {
                Some(t) => t.merge(&w),
                None => total.wave = Some(w),
            }
        }
        if let Some(s) = r.sample {
            ev.sample(s);
        }
    }
    let wave = total.wave.unwrap_or_else(WaveStats::new);
    ev.evaluations = total.commands;
    ev.distinct_nontrivial = total.situations.len() as u64;
    ev.add("histories", total.histories);
    ev.add("histories_without_violation", total.histories_clean);
    ev.add("observation_steps", total.steps);
    ev.add("observation_steps_while_stopped", total.stopped_steps);
    ev.add("pulses_classified", wave.total_pulses());
    ev.add("blocks_decoded", wave.blocks);
    ev.add("tapes_played_to_their_end", total.segments_complete);
    ev.add("resumes_followed_to_the_next_edge", total.resumes);
    ev.add("restarts_followed_through_a_full_pilot", total.restarts);
    let mut sit: Vec<String> = total.situations.iter().map(|(c, p)| format!("{}@{}", c, p)).collect();
    sit.sort();
    ev.add("situations", J::Arr(sit.iter().map(|s| J::from(s.as_str())).collect()));
    let mut pats: Vec<&str> = total.patterns.iter().copied().collect();
    pats.sort();
    ev.add("patterns", J::Arr(pats.iter().map(|s| J::from(*s)).collect()));
    ev.assumptions.push("a level change at the instant of a rewind command or of the automatic stop is a don't-care".into());
    ev.assumptions.push("zero-length TAP blocks are outside the domain".into());
    ev.assumptions.push("emulator level: edge times are uncertain by one IN sampling period (windows widened by 16 T); end of tape inferred from 1.1 s of silence".into());
    if only.is_some() {
        return ev;
    }
    // coverage floors
    ctx.require("histories", total.histories, n_hist as u64);
    ctx.require("histories that ran to their end without violation", total.histories_clean, n_hist as u64 / 4);
    ctx.require("distinct (command, position) situations (of 18)", total.situations.len() as u64, 14);
    ctx.require("command patterns exercised", total.patterns.len() as u64, 12);
    ctx.require("tapes played to their end", total.segments_complete, n_hist as u64 / 4);
    ctx.require("resumes followed to the next edge", total.resumes, n_hist as u64 / 4);
    ctx.require("restarts followed through a full pilot", total.restarts, n_hist as u64 / 8);
    ctx.require("observation steps while stopped", total.stopped_steps, 10_000);
    ctx.require("pulses classified", wave.total_pulses(), 100_000);
    ev
}
