//! C18 – the AY chip turns any register history into the sound its registers define.
//!
//! Observed: the sample stream of the public `aym::AymPrecise` (`AymBackend::{new, write_register,
//! next_sample}`; DC filter off unless stated) and, for the port part, emulated IN/OUT on the
//! 128K machine. All oracles are signal properties typed from the AY-3-8910 data sheet / the
//! statement; no table of the implementation is copied (DAC levels are *learnt* per chip/rate from
//! constant outputs and only required to be strictly increasing).
//!
//! Sub-monitors (clock 1 773 400 and 2 000 000 Hz; rates 8000…384000):
//!  * tone      – one channel tone-only at volume 15 (other channels: random periods, volume 0,
//!                R1/3/5 with garbage in the 4 unused bits): frequency == f_clk/(16·TP) within
//!                0.5 % (mean-crossing estimate over ≥ 8 periods / ≥ 2000 samples below 0.2·rate,
//!                spectral peak test up to 0.45·rate). Judged for TP ≥ 2 only: a period of one is
//!                at the Nyquist limit of any model that clocks the tone counters at f_clk/8, so
//!                for TP ∈ {0,1} only "0 acts as 1" (identical streams) and boundedness are judged.
//!  * envelope  – tone/noise off, channel in envelope mode, AY DAC. Ideal model from the data
//!                sheet: one ramp = 256·EP/f_clk = 16 levels of 16·EP/f_clk each; first ramp up iff
//!                ATTACK; CONTINUE=0 → then 0; HOLD → stay at the ramp's last level (ALTERNATE:
//!                the opposite one); otherwise repeat (ALTERNATE: reversing direction). The
//!                staircase is decoded against the learnt volume levels ("follows the envelope"),
//!                the model is aligned on the first observed level change (the duration of the
//!                very first level is thereby left free within ±1 level) and every plateau sample
//!                must then agree with the model within ±(1 envelope step = half a level + 1.5
//!                samples). Register writes other than R13 must not restart the pattern, a second
//!                R13 write must. Periods too short for a staircase (< 24 samples per level):
//!                repeating shapes must show the spectral line f_clk/(256·EP) (saw) resp.
//!                f_clk/(512·EP) (triangle), holding shapes must settle on level 0 / level 15.
//!  * noise     – one channel noise-only: every run of the two-level signal is a whole multiple
//!                of the quantum 16·NP/f_clk (judged where the quantum is ≥ 3 samples), the
//!                shortest run is one quantum, the mean run length is proportional to NP
//!                (against NP=31, ±15 %), NP=0 ≡ NP=1 (identical streams).
//!  * volume    – DC level and tone RMS strictly increasing in volume 1…15, volume 0 silent.
//!  * mixer     – all 64 R7 values × 3 channels: both off → constant level 15; tone only → line
//!                at the tone frequency, mean ½; noise only → no line, mean ½; both → AND (mean ¼,
//!                line present).
//!  * panning   – each channel alone in each of the 7 modes: first letter left, second centre,
//!                third right (left: R/L ≤ 1 %; centre: |L−R| ≤ 1 %), Mono centre.
//!  * bounded   – random register-write histories (all 16 addresses, any byte) interleaved with
//!                sample generation, AY and YM, DC filter on/off: finite and |s| ≤ 4.0 (3 channels
//!                × full scale, equal-power pan, filter overshoot), no panic.
//!  * ports     – 128K machine, random OUT (select, any alias of 0xFFFD) / OUT (data, any alias of
//!                0xBFFD) / IN sequences: read-back == last value written to register `sel mod 16`,
//!                or that value masked to the register's implemented bits.
//!
//! Known-defect routing: for sample rates below f_clk/64 the resampler of AymPrecise diverges
//! (wrong pitch, samples growing without bound). A *probe* (tone pitch + bound) is run first for
//! every (clock, rate) with rate·64 < f_clk; if it fails the violation is reported under the narrow
//! key `ay-resampler-low-rate` and the remaining signal monitors are not run at that rate (their
//! measurements would be meaningless); if the probe is clean the rate is treated like any other.
//! Bound violations of the random-history monitor at such rates use the same key. Everything else
//! is an ordinary violation.
use crate::host::{catch, Cfg, Machine};
use crate::json::J;
use crate::report::{par_map, Ctx, Evidence};
use crate::rng::{fnv1a, Rng, FNV_INIT};
use crate::spec_sig::*;
use aym::{AyMode, AymBackend, AymPrecise, SoundChip};
use std::collections::HashSet;

const BOUND: f64 = 4.0;
const KEY_LOW: &str = "ay-resampler-low-rate";

fn mode_of(i: u8) -> AyMode {
    match i % 7 {
        0 => AyMode::Mono,
        1 => AyMode::ABC,
        2 => AyMode::ACB,
        3 => AyMode::BAC,
        4 => AyMode::BCA,
        5 => AyMode::CAB,
        _ => AyMode::CBA,
    }
}
const MODE_NAMES: [&str; 7] = ["Mono", "ABC", "ACB", "BAC", "BCA", "CAB", "CBA"];

fn chip(clock: usize, rate: usize, ym: bool, mode: u8) -> AymPrecise {
    AymPrecise::new(if ym { SoundChip::YM } else { SoundChip::AY }, mode_of(mode), clock, rate)
}

fn gen(ay: &mut AymPrecise, n: usize) -> (Vec<f64>, Vec<f64>) {
    let mut l = Vec::with_capacity(n);
    let mut r = Vec::with_capacity(n);
    for _ in 0..n {
        let s = ay.next_sample();
        l.push(s.left);
        r.push(s.right);
    }
    (l, r)
}

fn all_bounded(l: &[f64], r: &[f64]) -> Option<(usize, f64)> {
    for i in 0..l.len() {
        for v in [l[i], r[i]] {
            if !v.is_finite() || v.abs() > BOUND {
                return Some((i, v));
            }
        }
    }
    None
}

/// Is `f` (cycles/sample) the dominant spectral line of x? Uses the whole slice; the caller
/// provides ≥ ~400 periods so that ±2 % neighbours are resolved.
fn line_present(x: &[f64], f: f64, min_share: f64) -> (bool, f64) {
    let tot = windowed_power(x);
    if tot <= 0.0 {
        return (false, 0.0);
    }
    let s = tone_power(x, f) / tot;
    let lo = tone_power(x, f * 0.98) / tot;
    let hi = tone_power(x, f * 1.02) / tot;
    (s >= min_share && s > 8.0 * lo.max(hi), s)
}

/// Measures the tone frequency; returns Ok(measured) if within 0.5 % of `f` (cycles/sample).
fn check_pitch(x: &[f64], f: f64) -> Result<f64, String> {
    if f <= 0.2 {
        match freq_by_crossings(x) {
            Some((fm, _)) if (fm / f - 1.0).abs() <= 0.005 => Ok(fm),
            Some((fm, p)) => Err(format!("measured {:.6} cycles/sample over {} periods, expected {:.6}", fm, p, f)),
            None => Err("no periodic signal found".into()),
        }
    } else {
        let n = ((400.0 / f) as usize).clamp(4096, x.len());
        let (ok, share) = line_present(&x[..n], f, 0.5);
        if ok { Ok(f) } else { Err(format!("no dominant spectral line at {:.6} cycles/sample (share {:.3})", f, share)) }
    }
}

fn tone_len(f: f64) -> usize {
    if f <= 0.2 { ((8.5 / f) as usize).max(2000) + 96 } else { ((400.0 / f) as usize).max(4096) + 96 }
}

/// Learnt DAC levels: channel A, tone+noise off, fixed volume v, Mono → left output.
fn learn_levels(clock: usize, rate: usize, ym: bool) -> [f64; 16] {
    let mut lv = [0.0; 16];
    for v in 0..16u8 {
        let mut ay = chip(clock, rate, ym, 0);
        ay.write_register(7, 0x3F);
        ay.write_register(8, v);
        let (l, _) = gen(&mut ay, 96);
        lv[v as usize] = l[95];
    }
    lv
}

#[derive(Clone, Debug)]
enum Unit {
    Tone { clock: usize, rate: usize, ym: bool, ch: u8, tps: Vec<u16> },
    Env { clock: usize, rate: usize, shape: u8, ep: u16 },
    Noise { clock: usize, rate: usize, ch: u8 },
    Volume { clock: usize, rate: usize, ym: bool },
    Mixer { clock: usize, rate: usize, ch: u8 },
    Pan { clock: usize, rate: usize, ym: bool },
    Bounded { clock: usize, rate: usize, id: u64, samples: usize },
    Ports { id: u64, ops: usize },
    PortsSound { id: u64 },
    EnvLate { clock: usize, rate: usize, shape: u8, ep: u16 },
}

#[derive(Default)]
struct Stats {
    evals: u64,
    tone: u64,
    tone_eq01: u64,
    env_stair: u64,
    env_fast: u64,
    env_shapes_stair: HashSet<u8>,
    env_plateau_samples: u64,
    env_restarts: u64,
    noise_nps: HashSet<(usize, u8)>,
    noise_runs: u64,
    volume: u64,
    mixer: u64,
    pan: u64,
    bounded_samples: u64,
    bounded_writes: u64,
    port_reads: u64,
    port_sound: u64,
    env_late: u64,
    port_regs: HashSet<u8>,
    samples: u64,
    distinct: HashSet<u64>,
    sample: Vec<J>,
}

fn fp(st: &mut Stats, kind: u8, clock: usize, rate: usize, a: u64, b: u64) {
    let mut h = FNV_INIT;
    fnv1a(&mut h, &[kind]);
    fnv1a(&mut h, &(clock as u64).to_le_bytes());
    fnv1a(&mut h, &(rate as u64).to_le_bytes());
    fnv1a(&mut h, &a.to_le_bytes());
    fnv1a(&mut h, &b.to_le_bytes());
    st.distinct.insert(h);
}

// ------------------------------------------------------------------------------------ tone
fn setup_tone(ay: &mut AymPrecise, rng: &mut Rng, ch: u8, tp: u16, garbage: u8) {
    // other channels: random periods, volume 0
    for c in 0..3u8 {
        let p = if c == ch { tp } else { rng.u16() & 0x0FFF };
        ay.write_register(c * 2, p as u8);
        ay.write_register(c * 2 + 1, (p >> 8) as u8 | if c == ch { garbage & 0xF0 } else { 0 });
        ay.write_register(8 + c, if c == ch { 15 } else { 0 });
    }
    ay.write_register(7, 0x3F & !(1 << ch));
}

fn tone_unit(ctx: &Ctx, rng: &mut Rng, st: &mut Stats, clock: usize, rate: usize, ym: bool, ch: u8, tps: &[u16]) {
    for &tp in tps {
        let garbage = rng.u8();
        let f = clock as f64 / (16.0 * tp.max(1) as f64) / rate as f64;
        if tp < 2 {
            // 0 acts as 1: identical streams
            let mut a = chip(clock, rate, ym, 0);
            let mut b = chip(clock, rate, ym, 0);
            let mut r2 = rng.clone();
            setup_tone(&mut a, rng, ch, 0, garbage);
            setup_tone(&mut b, &mut r2, ch, 1, garbage);
            let (la, ra) = gen(&mut a, 3000);
            let (lb, _) = gen(&mut b, 3000);
            st.samples += 6000;
            st.evals += 1;
            st.tone_eq01 += 1;
            if let Some((i, v)) = all_bounded(&la, &ra) {
                ctx.violation("tone-period-1-unbounded", &format!("tone period 0: sample {} = {:e}", i, v), jobj! {"clock"=>clock,"rate"=>rate,"channel"=>ch});
            }
            if la.iter().zip(lb.iter()).any(|(x, y)| (x - y).abs() > 1e-9) {
                ctx.violation("tone-period-0-not-1", "tone period 0 does not behave like period 1 (streams differ)", jobj! {"clock"=>clock,"rate"=>rate,"channel"=>ch,"ym"=>ym});
            }
            continue;
        }
        if f >= 0.45 {
            continue;
        }
        let mut ay = chip(clock, rate, ym, 0);
        setup_tone(&mut ay, rng, ch, tp, garbage);
        let n = tone_len(f);
        let (l, r) = gen(&mut ay, n);
        st.samples += n as u64;
        st.evals += 1;
        st.tone += 1;
        fp(st, 1, clock, rate, ch as u64, tp as u64);
        let wit = |what: String| jobj! {"monitor"=>"tone","clock"=>clock,"rate"=>rate,"ym"=>ym,"channel"=>ch,"tone_period"=>tp,"r_high_garbage"=>garbage & 0xF0,
            "expected_hz"=>f * rate as f64,"observed"=>what};
        if let Some((i, v)) = all_bounded(&l, &r) {
            ctx.violation("tone-unbounded", &format!("tone TP={} at {} Hz: sample {} = {:e}", tp, rate, i, v), wit(format!("{:e}", v)));
            continue;
        }
        // register history: change the period on the running chip, the pitch must follow
        if rng.chance(1, 2) {
            let tp2 = 2 + (rng.u16() & 0x0FFF).min(4093);
            let f2 = clock as f64 / (16.0 * tp2 as f64) / rate as f64;
            if f2 < 0.45 {
                if rng.bool() {
                    ay.write_register(ch * 2 + 1, (tp2 >> 8) as u8);
                    ay.write_register(ch * 2, tp2 as u8);
                } else {
                    ay.write_register(ch * 2, tp2 as u8);
                    ay.write_register(ch * 2 + 1, (tp2 >> 8) as u8);
                }
                // let the running half-period of the old tone (at most) and the filter run out
                let skip = (0.5 / f) as usize + 96;
                let n2 = tone_len(f2) + skip;
                let (l2, _) = gen(&mut ay, n2);
                st.samples += n2 as u64;
                st.evals += 1;
                st.tone += 1;
                fp(st, 9, clock, rate, tp as u64, tp2 as u64);
                if let Err(e) = check_pitch(&l2[skip..], f2) {
                    ctx.violation("tone-pitch-after-period-change", &format!("tone channel {} TP {}→{} at {} Hz: {}", ch, tp, tp2, rate, e),
                        jobj! {"monitor"=>"tone","clock"=>clock,"rate"=>rate,"ym"=>ym,"channel"=>ch,"tone_period_before"=>tp,"tone_period_after"=>tp2,"observed"=>e.clone()});
                }
            }
        }
        match check_pitch(&l[64..], f) {
            Ok(fm) => {
                if st.sample.len() < 2 {
                    st.sample.push(jobj! {"monitor"=>"tone","clock"=>clock,"rate"=>rate,"channel"=>ch,"tone_period"=>tp,"expected_hz"=>f*rate as f64,"measured_hz"=>fm*rate as f64});
                }
            }
            Err(e) => {
                // which mechanism? a masked period gives the pitch of tp & 0xFF etc. – key by the ratio class
                let key = if tp > 255 { "tone-pitch-wrong-high-period" } else { "tone-pitch-wrong" };
                ctx.violation(key, &format!("tone channel {} TP={} at {} Hz/{} Hz clock: {}", ch, tp, rate, clock, e), wit(e.clone()));
            }
        }
    }
}

// ------------------------------------------------------------------------------------ envelope
/// Ideal AY level (0..15) at time `u` (in level durations since the pattern start) for `shape`.
fn env_model(shape: u8, u: f64) -> u8 {
    if u < 0.0 {
        return if shape & 4 != 0 { 0 } else { 15 };
    }
    let (cont, att, alt, hold) = (shape & 8 != 0, shape & 4 != 0, shape & 2 != 0, shape & 1 != 0);
    let seg = (u / 16.0).floor() as u64;
    let pos = (u - seg as f64 * 16.0).floor().clamp(0.0, 15.0) as u8;
    let ramp = |up: bool| if up { pos } else { 15 - pos };
    if seg == 0 {
        return ramp(att);
    }
    if !cont {
        return 0;
    }
    if hold {
        let last = if att { 15 } else { 0 };
        return if alt { 15 - last } else { last };
    }
    if alt {
        ramp(att ^ (seg % 2 == 1))
    } else {
        ramp(att)
    }
}

fn classify(x: &[f64], lv: &[f64; 16], tol: f64) -> Vec<Option<u8>> {
    x.iter()
        .map(|v| {
            let mut best = (f64::INFINITY, 0u8);
            for (i, l) in lv.iter().enumerate() {
                let d = (v - l).abs();
                if d < best.0 {
                    best = (d, i as u8);
                }
            }
            if best.0 <= tol { Some(best.1) } else { None }
        })
        .collect()
}

/// Checks one stretch of envelope output (starting right after an R13 write) against the model.
/// Returns Err(description) on disagreement, Ok(number of plateau samples judged).
fn judge_staircase(x: &[f64], lv: &[f64; 16], shape: u8, d: f64) -> Result<(u64, HashSet<u8>), String> {
    let gap = (1..16).map(|i| lv[i] - lv[i - 1]).fold(f64::INFINITY, f64::min);
    let mut cls = classify(x, lv, gap * 0.3);
    // the first samples still show the level before the R13 write (filter latency ≈ 12.5 samples)
    for c in cls.iter_mut().take(20) {
        *c = None;
    }
    let rs = runs(&cls, 8);
    if rs.len() < 2 {
        return Err(format!("no staircase found ({} plateaus)", rs.len()));
    }
    // first level change: between the first plateau and the next plateau with a different level
    let first = rs[0];
    let Some(second) = rs.iter().find(|r| r.0 != first.0) else {
        return Err(format!("output stays at level {} – the envelope does not move", first.0));
    };
    // the last plateau of the first level before `second`
    let last_of_first = rs.iter().take_while(|r| r.1 < second.1).filter(|r| r.0 == first.0).last().unwrap();
    let c1 = (last_of_first.2 as f64 + second.1 as f64) / 2.0;
    let off = c1 - d; // model's first change is at u = 1
    if (off - 12.5).abs() > d + 4.0 {
        return Err(format!("first level lasts {:.1} samples, expected about {:.1} (±1 level)", c1 - 12.5, d));
    }
    let tol_u = 0.5 + 1.5 / d;
    let mut judged = 0u64;
    let mut seen = HashSet::new();
    for (c, a, b) in rs.iter() {
        if b - a < 5 {
            continue;
        }
        for n in (a + 2)..=(b - 2) {
            let u = (n as f64 - off) / d;
            if u < 0.0 {
                continue;
            }
            let ok = [-tol_u, -tol_u / 2.0, 0.0, tol_u / 2.0, tol_u].iter().any(|du| env_model(shape, u + du) == *c);
            if !ok {
                return Err(format!("sample {} ({:.2} levels / {:.2} ramps after the pattern start) is at level {}, the shape defines level {}", n, u, u / 16.0, c, env_model(shape, u)));
            }
            judged += 1;
            seen.insert(*c);
        }
    }
    Ok((judged, seen))
}

/// Precise envelope step period: the times of the level changes inside the first ~40 levels must be
/// spaced by whole multiples of d = 16*EP/f_clk samples ("steps with period 256*EP/f_clk"); the
/// half-level tolerance of the staircase check cannot see a period that is off by a fraction of a
/// percent, this check can. Returns Err(description) or Ok(number of level changes used).
fn judge_step_period(x: &[f64], lv: &[f64; 16], d: f64) -> Result<usize, String> {
    let gap = (1..16).map(|i| lv[i] - lv[i - 1]).fold(f64::INFINITY, f64::min);
    let mut cls = classify(x, lv, gap * 0.3);
    for c in cls.iter_mut().take(20) {
        *c = None;
    }
    let rs = runs(&cls, 8);
    // boundaries between consecutive plateaus of different level, taken only where the gap between
    // them is a short filter transition
    // (position estimate, uncertainty): the level change lies somewhere inside the transition
    // between the two plateaus, whose width depends on the levels involved (the lowest levels are
    // only a few thousandths apart and their plateaus are recognised later)
    let mut b: Vec<(f64, f64)> = vec![];
    for w in rs.windows(2) {
        if w[0].0 != w[1].0 && w[1].1 - w[0].2 < 40 {
            b.push(((w[0].2 as f64 + w[1].1 as f64) / 2.0, (w[1].1 as f64 - w[0].2 as f64) / 2.0 + 0.5));
        }
    }
    if b.len() < 6 {
        return Ok(0);
    }
    let (first, u_first) = b[0];
    let mut used = 0;
    for (t, u_t) in b.iter().skip(1) {
        let span = t - first;
        if span > 40.0 * d {
            break;
        }
        let k = (span / d).round();
        let err = (span - k * d).abs();
        // the uncertainty of the two boundary estimates (at least +-1.5 samples each), plus 0.03 % for
        // rounding inside the chip
        if k >= 1.0 && err > u_first.max(1.5) + u_t.max(1.5) + 0.0003 * span {
            return Err(format!("level changes are not spaced by multiples of 16*EP/f_clk = {:.3} samples: a span of {:.1} samples is {:.2} samples away from {} steps (period off by {:.3} %)", d, span, err, k, 100.0 * err / span));
        }
        used += 1;
    }
    Ok(used)
}

fn env_unit(ctx: &Ctx, rng: &mut Rng, st: &mut Stats, clock: usize, rate: usize, shape: u8, ep: u16) {
    let ch = rng.below(3) as u8;
    let d = 16.0 * ep.max(1) as f64 / clock as f64 * rate as f64; // samples per AY level
    let lv = learn_levels(clock, rate, false);
    if (1..16).any(|i| !(lv[i] > lv[i - 1])) {
        return; // the volume ladder itself is broken: reported by the volume monitor, nothing to decode against
    }
    let hi_nib = rng.u8() & 0xF0;
    let mut ay = chip(clock, rate, false, 0);
    ay.write_register(7, 0x3F);
    ay.write_register(8 + ch, 0x10 | (rng.u8() & 0x0F)); // volume bits must be ignored in envelope mode
    ay.write_register(11, ep as u8);
    ay.write_register(12, (ep >> 8) as u8);
    let wit = |what: &str| jobj! {"monitor"=>"envelope","clock"=>clock,"rate"=>rate,"shape"=>shape,"r13_written"=>shape | hi_nib,"envelope_period"=>ep,"channel"=>ch,
        "samples_per_level"=>d,"observed"=>what,"learnt_levels"=>J::Arr(lv.iter().map(|x|J::from(*x)).collect())};
    let key = |what: &str| format!("envelope-{}", what);
    st.evals += 1;
    fp(st, 2, clock, rate, shape as u64, ep as u64);
    // pre-roll so that the R13 write does not coincide with chip start
    let pre = rng.below(200) as usize;
    let _ = gen(&mut ay, pre);
    ay.write_register(13, shape | hi_nib);
    if d >= 24.0 {
        let ramps = 3.6;
        let n = ((ramps * 16.0 * d) as usize + 64).min(400_000);
        // split the run; in between rewrite registers that must NOT restart the envelope
        let n1 = n / 3 + rng.below((n / 3) as u64) as usize;
        let (mut l, mut r) = gen(&mut ay, n1);
        match judge_step_period(&l, &lv, d) {
            Ok(k) => st.env_plateau_samples += k as u64,
            Err(e) => {
                ctx.violation(&key("step-period"), &format!("envelope shape {} EP={} at {} Hz: {}", shape, ep, rate, e), wit(&e));
                return;
            }
        }
        ay.write_register(11, ep as u8);
        ay.write_register(12, (ep >> 8) as u8);
        ay.write_register(8 + ch, 0x10);
        ay.write_register(7, 0x3F);
        ay.write_register(6, rng.u8());
        let (l2, r2) = gen(&mut ay, n - n1);
        l.extend(l2);
        r.extend(r2);
        st.samples += n as u64;
        if let Some((i, v)) = all_bounded(&l, &r) {
            ctx.violation(&key("unbounded"), &format!("envelope shape {} EP={}: sample {} = {:e}", shape, ep, i, v), wit("unbounded"));
            return;
        }
        match judge_staircase(&l, &lv, shape, d) {
            Ok((j, seen)) => {
                st.env_stair += 1;
                st.env_plateau_samples += j;
                if n as f64 >= 17.0 * d {
                    st.env_shapes_stair.insert(shape);
                    if seen.len() < 16 {
                        ctx.violation(&key("levels-missing"), &format!("envelope shape {} EP={}: only {} of the 16 levels appear in a full ramp", shape, ep, seen.len()), wit("levels missing"));
                    }
                }
                if st.sample.len() < 4 {
                    st.sample.push(jobj! {"monitor"=>"envelope","clock"=>clock,"rate"=>rate,"shape"=>shape,"envelope_period"=>ep,"plateau_samples_judged"=>j});
                }
            }
            Err(e) => {
                ctx.violation(&key(&format!("shape-{:02}", shape)), &format!("envelope shape {} EP={} at {} Hz: {}", shape, ep, rate, e), wit(&e));
                return;
            }
        }
        // restart: a second R13 write restarts the pattern from its beginning
        if n as f64 >= 20.0 * d {
            ay.write_register(13, shape | hi_nib);
            let n3 = ((1.3 * 16.0 * d) as usize + 64).min(200_000);
            let (l3, _) = gen(&mut ay, n3);
            st.samples += n3 as u64;
            match judge_staircase(&l3, &lv, shape, d) {
                Ok((j, _)) => {
                    st.env_restarts += 1;
                    st.env_plateau_samples += j;
                }
                Err(e) => ctx.violation(&key("no-restart-on-r13"), &format!("envelope shape {} EP={}: after a second R13 write: {}", shape, ep, e), wit(&e)),
            }
        }
    } else {
        let (cont, hold) = (shape & 8 != 0, shape & 1 != 0);
        if cont && !hold {
            let alt = shape & 2 != 0;
            let f = clock as f64 / ((if alt { 512.0 } else { 256.0 }) * ep.max(1) as f64) / rate as f64;
            if f >= 0.45 {
                return;
            }
            let n = ((400.0 / f) as usize).clamp(4096, 300_000) + 64;
            let (l, r) = gen(&mut ay, n);
            st.samples += n as u64;
            if let Some((i, v)) = all_bounded(&l, &r) {
                ctx.violation(&key("unbounded"), &format!("envelope shape {} EP={}: sample {} = {:e}", shape, ep, i, v), wit("unbounded"));
                return;
            }
            let (ok, share) = line_present(&l[64..], f, 0.1);
            st.env_fast += 1;
            if !ok {
                ctx.violation(&key("period"), &format!("envelope shape {} EP={} at {} Hz: no spectral line at {:.2} Hz (share {:.3})", shape, ep, rate, f * rate as f64, share), wit("line missing"));
            }
        } else {
            let n = (40.0 * d) as usize + 200;
            let (l, _) = gen(&mut ay, n);
            st.samples += n as u64;
            let want = env_model(shape, 1000.0);
            let tail = &l[n - 100..];
            let gap = (1..16).map(|i| lv[i] - lv[i - 1]).fold(f64::INFINITY, f64::min);
            st.env_fast += 1;
            if tail.iter().any(|v| (v - lv[want as usize]).abs() > gap * 0.3) {
                ctx.violation(&key(&format!("shape-{:02}", shape)), &format!("envelope shape {} EP={}: does not settle on level {} (output {:.5})", shape, ep, want, tail[99]), wit("hold level"));
            }
        }
    }
}

// ------------------------------------------------------------------------------------ noise
/// `prior`: the chip has already been making noise with another period for that many samples when
/// R6 is rewritten (the running divider may be anywhere, also beyond the new period)
fn noise_stream(clock: usize, rate: usize, ch: u8, np_written: u8, n: usize, prior: Option<(u8, usize)>) -> (Vec<f64>, Vec<f64>) {
    let mut ay = chip(clock, rate, false, 0);
    if let Some((p, k)) = prior {
        ay.write_register(6, p);
        ay.write_register(8 + ch, 15);
        ay.write_register(7, 0x3F & !(8 << ch));
        let _ = gen(&mut ay, k);
    }
    ay.write_register(6, np_written);
    ay.write_register(8 + ch, 15);
    ay.write_register(7, 0x3F & !(8 << ch));
    gen(&mut ay, n)
}

fn run_lengths(x: &[f64]) -> Vec<f64> {
    let (lo, hi) = min_max(x);
    let c = crossings(x, (lo + hi) / 2.0, (hi - lo) * 0.15);
    c.windows(2).map(|w| w[1].0 - w[0].0).collect()
}

fn noise_unit(ctx: &Ctx, rng: &mut Rng, st: &mut Stats, clock: usize, rate: usize, ch: u8) {
    let q = |np: u8| 16.0 * np.max(1) as f64 / clock as f64 * rate as f64;
    // reference mean run length at NP = 31
    let mut mean31 = None;
    for np in (0..32u8).rev() {
        let garbage = rng.u8() & 0xE0;
        let qq = q(np);
        let n = ((1500.0 * qq) as usize).clamp(6000, 400_000) + 64;
        // half of the streams start on a chip that was already running with another noise period
        let prior = if rng.bool() && np != 0 { Some((*rng.pick(&[31u8, 31, 24, 16, 1, 0]), 40 + rng.below(3000) as usize)) } else { None };
        let (l, r) = noise_stream(clock, rate, ch, np | garbage, n, prior);
        st.samples += n as u64;
        let wit = |what: String| jobj! {"monitor"=>"noise","clock"=>clock,"rate"=>rate,"channel"=>ch,"noise_period"=>np,"r6_written"=>np|garbage,"quantum_samples"=>qq,"observed"=>what,
            "earlier_period_and_samples"=>format!("{:?}", prior)};
        if let Some((i, v)) = all_bounded(&l, &r) {
            ctx.violation("noise-unbounded", &format!("noise NP={}: sample {} = {:e}", np, i, v), wit(format!("{:e}", v)));
            continue;
        }
        if np == 0 {
            let (l1, _) = noise_stream(clock, rate, ch, 1 | garbage, n, None);
            st.evals += 1;
            if l.iter().zip(l1.iter()).any(|(a, b)| (a - b).abs() > 1e-9) {
                ctx.violation("noise-period-0-not-1", "noise period 0 does not behave like period 1 (streams differ)", wit("streams differ".into()));
            }
            continue;
        }
        if qq < 3.0 {
            continue;
        }
        let rl = run_lengths(&l[64..]);
        st.evals += 1;
        fp(st, 3, clock, rate, ch as u64, np as u64);
        if rl.len() < 200 {
            ctx.violation("noise-too-few-transitions", &format!("noise NP={} at {} Hz: only {} level changes in {} samples", np, rate, rl.len(), n), wit(format!("{} runs", rl.len())));
            continue;
        }
        st.noise_nps.insert((rate, np));
        st.noise_runs += rl.len() as u64;
        let bad: Vec<f64> = rl.iter().copied().filter(|r| { let k = (r / qq).round(); k < 1.0 || (r / qq - k).abs() > 0.3 }).collect();
        let minrun = rl.iter().copied().fold(f64::INFINITY, f64::min);
        let mean = rl.iter().sum::<f64>() / rl.len() as f64;
        if bad.len() * 100 > rl.len() {
            ctx.violation("noise-clock-quantum", &format!("noise NP={} at {} Hz: {} of {} runs are not multiples of 16·NP/f_clk = {:.2} samples (e.g. {:.2})", np, rate, bad.len(), rl.len(), qq, bad[0]), wit(format!("bad run {:.3}", bad[0])));
            continue;
        }
        if (minrun / qq - 1.0).abs() > 0.3 {
            ctx.violation("noise-clock-quantum", &format!("noise NP={} at {} Hz: shortest run {:.2} samples, one noise clock is {:.2}", np, rate, minrun, qq), wit(format!("min run {:.3}", minrun)));
            continue;
        }
        if np == 31 {
            mean31 = Some(mean);
        } else if let Some(m31) = mean31 {
            let ratio = (mean / m31) / (np as f64 / 31.0);
            if !(0.85..=1.15).contains(&ratio) {
                ctx.violation("noise-period-scaling", &format!("noise NP={} at {} Hz: mean run {:.2} vs {:.2} at NP=31 – not proportional to NP", np, rate, mean, m31), wit(format!("ratio {:.3}", ratio)));
            }
        }
        if st.sample.len() < 6 && np == 7 {
            st.sample.push(jobj! {"monitor"=>"noise","clock"=>clock,"rate"=>rate,"noise_period"=>np,"runs"=>rl.len(),"quantum_samples"=>qq,"shortest_run"=>minrun,"mean_run"=>mean});
        }
    }
}

// ------------------------------------------------------------------------------------ volume
fn volume_unit(ctx: &Ctx, st: &mut Stats, clock: usize, rate: usize, ym: bool) {
    let lv = learn_levels(clock, rate, ym);
    st.evals += 1;
    st.volume += 1;
    fp(st, 4, clock, rate, ym as u64, 0);
    let w = || jobj! {"monitor"=>"volume","clock"=>clock,"rate"=>rate,"ym"=>ym,"dc_levels"=>J::Arr(lv.iter().map(|x|J::from(*x)).collect())};
    if lv[0].abs() > 1e-9 {
        ctx.violation("volume-0-not-silent", &format!("volume 0 gives level {:e}", lv[0]), w());
    }
    for v in 1..16 {
        if !(lv[v] > lv[v - 1]) || !lv[v].is_finite() {
            ctx.violation("volume-not-increasing", &format!("DC level of volume {} ({:.6}) does not exceed that of volume {} ({:.6})", v, lv[v], v - 1, lv[v - 1]), w());
            return;
        }
    }
    // the same with a tone: RMS strictly increasing
    let mut prev = -1.0;
    for v in 0..16u8 {
        let mut ay = chip(clock, rate, ym, 0);
        ay.write_register(0, 200);
        ay.write_register(7, 0x3E);
        ay.write_register(8, v);
        let (l, _) = gen(&mut ay, 4096 + 64);
        st.samples += 4160;
        let rms = ac_rms(&l[64..]);
        if v == 0 && rms > 1e-9 {
            ctx.violation("volume-0-not-silent", &format!("tone at volume 0 has RMS {:e}", rms), w());
        }
        if v > 0 && !(rms > prev) {
            ctx.violation("volume-not-increasing", &format!("tone RMS at volume {} ({:.6}) does not exceed volume {} ({:.6})", v, rms, v - 1, prev), w());
            return;
        }
        prev = rms;
    }
    // the amplitude registers implement five bits: with bit 4 clear the channel plays its 4-bit
    // volume whatever bits 5..7 of the written byte are (an envelope that has decayed to zero is
    // running meanwhile, so a channel wrongly handed to the envelope falls silent)
    for (v, g) in [(15u8, 0x20u8), (9, 0x40), (3, 0x80), (12, 0xE0), (1, 0xA0), (6, 0x60)] {
        let play = |val: u8| {
            let mut ay = chip(clock, rate, ym, 0);
            ay.write_register(0, 200);
            ay.write_register(7, 0x3E);
            ay.write_register(11, 1);
            ay.write_register(12, 0);
            ay.write_register(13, 0);
            ay.write_register(8, val);
            let (l, _) = gen(&mut ay, 4096 + 64);
            ac_rms(&l[64..])
        };
        let (clean, dirty) = (play(v), play(v | g));
        st.samples += 2 * 4160;
        st.evals += 1;
        if !((clean - dirty).abs() <= 1e-9 * clean.abs().max(1.0)) {
            ctx.violation(
                "volume-depends-on-unimplemented-bits",
                &format!("amplitude register written with {:02x} (bit 4 clear) gives tone RMS {:.6}, written with {:02x} it gives {:.6}", v | g, dirty, v, clean),
                w(),
            );
            return;
        }
    }
}

// ------------------------------------------------------------------------------------ mixer
fn mixer_unit(ctx: &Ctx, rng: &mut Rng, st: &mut Stats, clock: usize, rate: usize, ch: u8) {
    let lv = learn_levels(clock, rate, false);
    let full = lv[15];
    for mask in 0..64u8 {
        let tp = 150 + rng.below(100) as u16;
        let np = 2 + rng.below(4) as u8;
        let mut ay = chip(clock, rate, false, 0);
        for c in 0..3u8 {
            ay.write_register(c * 2, if c == ch { tp as u8 } else { rng.u8() });
            ay.write_register(8 + c, if c == ch { 15 } else { 0 });
        }
        ay.write_register(6, np);
        ay.write_register(7, mask | (rng.u8() & 0xC0)); // bits 6,7 are the I/O port directions: no effect on sound
        let f = clock as f64 / (16.0 * tp as f64) / rate as f64;
        let n = ((400.0 / f) as usize).max(16384) + 64;
        let (l, _) = gen(&mut ay, n);
        st.samples += n as u64;
        st.evals += 1;
        st.mixer += 1;
        fp(st, 5, clock, rate, ch as u64, mask as u64);
        let x = &l[64..];
        let tone_on = mask & (1 << ch) == 0;
        let noise_on = mask & (8 << ch) == 0;
        let m = mean(x) / full;
        let ac = ac_rms(x) / full;
        let (_, share) = line_present(x, f, 0.0);
        let ok = match (tone_on, noise_on) {
            (false, false) => ac < 1e-6 && (m - 1.0).abs() < 1e-3,
            // tone presence = spectral line; tone-only vs tone AND noise = mean level ½ vs ¼
            (true, false) => share >= 0.6 && (m - 0.5).abs() < 0.03,
            (false, true) => share <= 0.03 && ac > 0.1 && (m - 0.5).abs() < 0.06,
            (true, true) => share >= 0.08 && (m - 0.25).abs() < 0.06,
        };
        if !ok {
            let which = if tone_on != (share > 0.08) { "tone" } else { "noise" };
            ctx.violation(&format!("mixer-{}-gating", which), &format!("R7={:02x} channel {}: expected tone {} noise {}, observed mean {:.3}·full, AC {:.3}·full, tone-line share {:.3}", mask, ch, tone_on, noise_on, m, ac, share),
                jobj! {"monitor"=>"mixer","clock"=>clock,"rate"=>rate,"channel"=>ch,"r7"=>mask,"tone_period"=>tp,"noise_period"=>np,"mean_rel"=>m,"ac_rel"=>ac,"tone_line_share"=>share});
        }
    }
}

// ------------------------------------------------------------------------------------ panning
fn pan_unit(ctx: &Ctx, st: &mut Stats, clock: usize, rate: usize, ym: bool) {
    for mode in 0..7u8 {
        for ch in 0..3u8 {
            let mut ay = chip(clock, rate, ym, mode);
            ay.write_register(ch * 2, 120);
            ay.write_register(8 + ch, 15);
            ay.write_register(7, 0x3F & !(1 << ch));
            let (l, r) = gen(&mut ay, 4096 + 64);
            st.samples += 4160;
            st.evals += 1;
            st.pan += 1;
            fp(st, 6, clock, rate, mode as u64, ch as u64 | (ym as u64) << 4);
            let (el, er) = (ac_rms(&l[64..]), ac_rms(&r[64..]));
            // position of the channel letter in the mode name: 0 left, 1 centre, 2 right
            let pos = if mode == 0 { 1 } else { MODE_NAMES[mode as usize].find((b'A' + ch) as char).unwrap() };
            let big = el.max(er);
            let ok = big > 0.05
                && match pos {
                    0 => er <= 0.01 * el,
                    2 => el <= 0.01 * er,
                    _ => (el - er).abs() <= 0.01 * big,
                };
            if !ok {
                ctx.violation(&format!("pan-{}", MODE_NAMES[mode as usize]), &format!("mode {} channel {}: left RMS {:.4}, right RMS {:.4}, expected {}", MODE_NAMES[mode as usize], (b'A' + ch) as char, el, er, ["left", "centre", "right"][pos]),
                    jobj! {"monitor"=>"pan","clock"=>clock,"rate"=>rate,"ym"=>ym,"mode"=>MODE_NAMES[mode as usize],"channel"=>ch,"left_rms"=>el,"right_rms"=>er});
            }
        }
    }
}

// ------------------------------------------------------------------------------------ bounded
fn bounded_unit(ctx: &Ctx, seed: u64, st: &mut Stats, clock: usize, rate: usize, id: u64, total: usize) {
    let mut rng = Rng::fork(seed ^ 0xB0DD, id);
    let ym = rng.bool();
    let mode = rng.below(7) as u8;
    let dc = rng.bool();
    let mut log: Vec<J> = vec![];
    let mut done = 0usize;
    let mut writes = 0u64;
    let res = catch(|| {
        let mut ay = chip(clock, rate, ym, mode);
        if dc {
            ay.enable_dc_filter();
        }
        let mut first_bad: Option<(usize, f64)> = None;
        while done < total && first_bad.is_none() {
            let k = rng.below(16);
            for _ in 0..k {
                let reg = if rng.chance(1, 12) { rng.u8() } else { rng.below(16) as u8 };
                let val = match rng.below(4) {
                    0 => rng.ibyte(),
                    1 if (8..11).contains(&reg) => 0x0F | (rng.u8() & 0x10),
                    _ => rng.u8(),
                };
                ay.write_register(reg, val);
                writes += 1;
                if log.len() < 4000 {
                    log.push(J::Arr(vec![J::from(done), J::from(reg), J::from(val)]));
                }
            }
            let m = match rng.below(4) {
                0 => 1 + rng.below(4) as usize,
                1 | 2 => 1 + rng.below(100) as usize,
                _ => 1 + rng.below(3000) as usize,
            };
            for _ in 0..m {
                let s = ay.next_sample();
                for v in [s.left, s.right] {
                    if (!v.is_finite() || v.abs() > BOUND) && first_bad.is_none() {
                        first_bad = Some((done, v));
                    }
                }
                done += 1;
            }
        }
        first_bad
    });
    st.bounded_samples += done as u64;
    st.bounded_writes += writes;
    st.samples += done as u64;
    st.evals += 1;
    fp(st, 7, clock, rate, id, 0);
    let wit = |log: &Vec<J>| jobj! {"monitor"=>"bounded","clock"=>clock,"rate"=>rate,"ym"=>ym,"mode"=>MODE_NAMES[mode as usize],"dc_filter"=>dc,"history_id"=>id,
        "writes_sampleindex_reg_val"=>J::Arr(log.clone())};
    match res {
        Ok(None) => {}
        Ok(Some((i, v))) => {
            if rate * 64 < clock {
                ctx.violation(KEY_LOW, &format!("random register history at {} Hz (< f_clk/64 = {:.0}): sample {} = {:e} exceeds {}", rate, clock as f64 / 64.0, i, v, BOUND), wit(&log));
            } else {
                ctx.violation("sample-unbounded", &format!("random register history at {} Hz: sample {} = {:e} (bound {})", rate, i, v, BOUND), wit(&log));
            }
        }
        Err(p) => ctx.violation("ay-panic", &format!("AymPrecise panicked on a register history: {}", p), wit(&log)),
    }
}

// ------------------------------------------------------------------------------------ ports
/// implemented bits per register (data sheet): fine tune 8, coarse 4, noise 5, mixer 8, amplitude 5,
/// envelope period 8+8, shape 4, I/O ports 8
const REG_MASK: [u8; 16] = [0xFF, 0x0F, 0xFF, 0x0F, 0xFF, 0x0F, 0x1F, 0xFF, 0x1F, 0x1F, 0x1F, 0xFF, 0xFF, 0x0F, 0xFF, 0xFF];

fn ports_unit(ctx: &Ctx, seed: u64, st: &mut Stats, id: u64, ops: usize) {
    let mut rng = Rng::fork(seed ^ 0x9087, id);
    let mut cfg = Cfg::m128();
    cfg.rate = *rng.pick(&[44100usize, 48000, 32000]);
    cfg.ay_mode = rng.below(3) as u8;
    let mut log: Vec<String> = vec![];
    let mut reads = 0u64;
    let mut regs_seen = HashSet::new();
    let res = catch(|| {
        let mut m = Machine::new(cfg);
        m.poke_bytes(0x9000, &[0x18, 0xFE]);
        let mut rf = m.regs();
        rf.pc = 0x9000;
        rf.iff1 = false;
        rf.iff2 = false;
        rf.sp = 0xFF00;
        m.set_regs(&rf);
        let mut model: [Option<u8>; 16] = [None; 16];
        let mut sel: Option<u8> = None;
        // any alias: A15=1, A14 as required, A1=0; keep A0=1 so the ULA is not addressed
        let alias = |rng: &mut Rng, base: u16| -> u16 {
            if rng.chance(1, 3) { base } else { (rng.u16() & 0x3FFC) | (base & 0xC000) | 0x0001 }
        };
        for _ in 0..ops {
            match rng.below(5) {
                0 | 1 => {
                    let v = if rng.chance(1, 3) { rng.u8() } else { rng.below(16) as u8 };
                    let p = alias(&mut rng, 0xFFFD);
                    m.out(p, v);
                    sel = Some(v);
                    if log.len() < 400 { log.push(format!("out {:04x},{:02x}", p, v)); }
                }
                2 => {
                    let v = rng.u8();
                    let p = alias(&mut rng, 0xBFFD);
                    m.out(p, v);
                    if let Some(s) = sel {
                        model[(s & 15) as usize] = Some(v);
                    }
                    if log.len() < 400 { log.push(format!("out {:04x},{:02x}", p, v)); }
                }
                _ => {
                    let p = alias(&mut rng, 0xFFFD);
                    let got = m.inp(p);
                    if log.len() < 400 { log.push(format!("in {:04x} -> {:02x}", p, got)); }
                    if let (Some(s), true) = (sel, true) {
                        let r = (s & 15) as usize;
                        if let Some(w) = model[r] {
                            reads += 1;
                            regs_seen.insert(r as u8);
                            if got != w && got != (w & REG_MASK[r]) {
                                return Some((s, w, got));
                            }
                        }
                    }
                }
            }
            if rng.chance(1, 50) {
                m.run_frames(1);
                let _ = m.drain_audio();
            }
        }
        None
    });
    st.port_reads += reads;
    st.port_regs.extend(regs_seen);
    st.evals += 1;
    fp(st, 8, 0, 0, id, 0);
    let wit = || jobj! {"monitor"=>"ports","history_id"=>id,"rate"=>cfg.rate,"log"=>J::Arr(log.iter().map(|s|J::from(s.as_str())).collect())};
    match res {
        Ok(None) => {}
        Ok(Some((s, w, got))) => {
            let key = if s > 15 { "ay-port-register-wrap" } else { "ay-port-readback" };
            ctx.violation(key, &format!("selected register {:#04x}: read {:02x}, last written {:02x} (masked {:02x})", s, got, w, w & REG_MASK[(s & 15) as usize]), wit());
        }
        Err(p) => ctx.violation("ay-port-panic", &format!("AY port access panicked: {}", p), wit()),
    }
}

/// The envelope generator runs whether or not a channel listens to it. Twin chips get the same
/// writes; on one the channel is in envelope mode from the start, on the other it is switched to
/// envelope mode only after a gap (up to 1.3 s, no R11-R13 writes meanwhile). From then on both
/// must produce the same samples.
fn env_late_unit(ctx: &Ctx, rng: &mut Rng, st: &mut Stats, clock: usize, rate: usize, shape: u8, ep: u16) {
    let ch = rng.below(3) as u8;
    let gap = (rate as f64 * (0.05 + 1.25 * rng.below(1000) as f64 / 1000.0)) as usize;
    let tail = (rate / 4).max(4000);
    let mk = |late: bool| {
        let mut ay = chip(clock, rate, false, 0);
        ay.write_register(7, 0x3F);
        ay.write_register(8 + ch, if late { 0x00 } else { 0x10 });
        ay.write_register(11, ep as u8);
        ay.write_register(12, (ep >> 8) as u8);
        ay.write_register(13, shape);
        let _ = gen(&mut ay, gap);
        ay.write_register(8 + ch, 0x10);
        let (l, _) = gen(&mut ay, tail);
        l
    };
    let (a, b) = (mk(false), mk(true));
    st.evals += 1;
    st.samples += 2 * (gap + tail) as u64;
    st.env_late += 1;
    fp(st, 10, clock, rate, shape as u64, ep as u64);
    // the first samples after the switch carry the filter transient of the level jump on the late chip
    if let Some(i) = (96..tail).find(|i| (a[*i] - b[*i]).abs() > 1e-6) {
        ctx.violation(
            "envelope-depends-on-listeners",
            &format!("envelope shape {} EP={} at {} Hz: {} samples after R13 the channel was switched to envelope mode; {} samples later it plays {:.5} where a channel that had been in envelope mode all along plays {:.5}", shape, ep, rate, gap, i, b[i], a[i]),
            jobj! {"monitor"=>"envelope-late-enable","clock"=>clock,"rate"=>rate,"shape"=>shape,"envelope_period"=>ep,"channel"=>ch,"gap_samples"=>gap,"first_difference_after"=>i},
        );
    }
}

/// Port-level sound: the registers written through 0xFFFD/0xBFFD must reach the chip for every
/// write, also when a write repeats the byte a register already holds – R13 restarts the envelope
/// on every write. A one-shot decaying envelope is started, left to run out, and started again by
/// rewriting the same shape; each start must be audible (tone energy = mean |x[i+1]-x[i]| of the
/// frame after the write) and the played-out state silent. The tone pitch is measured through the
/// machine's audio as well.
fn ports_sound_unit(ctx: &Ctx, seed: u64, st: &mut Stats, id: u64) {
    let mut rng = Rng::fork(seed ^ 0x50D, id);
    let mut cfg = if id % 4 == 3 { Cfg::m48() } else { Cfg::m128() };
    cfg.ay = true;
    cfg.rate = 44100;
    cfg.ay_mode = rng.below(3) as u8;
    cfg.beeper = rng.bool();
    let shape = *rng.pick(&[0u8, 1, 2, 3, 9]);
    let ep: u16 = 250 + rng.below(300) as u16; // 16 steps of 16·EP/f_clk: 36..80 ms
    let tp: u16 = 60 + rng.below(200) as u16;
    let mut log: Vec<String> = vec![];
    // a quarter of the machines are constructed muted and get their sound switched on at run time
    let muted_at_start = id % 4 == 1;
    let res = catch(|| {
        let mut m = Machine::new(Cfg { sound: !muted_at_start, ..cfg });
        if muted_at_start {
            m.emu.set_sound(true);
            log.push("constructed with sound off; host: set_sound(true)".into());
        }
        m.poke_bytes(0x9000, &[0x18, 0xFE]);
        let mut rf = m.regs();
        rf.pc = 0x9000;
        rf.iff1 = false;
        rf.iff2 = false;
        rf.sp = 0xBF00;
        m.set_regs(&rf);
        m.run_frames(1);
        m.drain_audio();
        let mut wr = |m: &mut Machine, log: &mut Vec<String>, r: u8, v: u8, select: bool| {
            if select {
                m.out(0xFFFD, r);
            }
            m.out(0xBFFD, v);
            log.push(format!("{}R{}={:02x}", if select { "" } else { "(no select) " }, r, v));
        };
        let energy = |m: &mut Machine| -> (f64, Vec<f64>) {
            m.run_frames(1);
            let v: Vec<f64> = m.drain_audio().iter().map(|s| (s.0 + s.1) as f64).collect();
            if v.len() < 2 {
                return (0.0, v);
            }
            (v.windows(2).map(|w| (w[1] - w[0]).abs()).sum::<f64>() / (v.len() - 1) as f64, v)
        };
        // fresh chip: the very first writes, zero values included
        let ch = rng.below(3) as u8;
        wr(&mut m, &mut log, 6, 0, true);
        wr(&mut m, &mut log, 7, !(1u8 << ch) & 0x3F, true);
        wr(&mut m, &mut log, 2 * ch, tp as u8, true);
        wr(&mut m, &mut log, 2 * ch + 1, (tp >> 8) as u8, true);
        wr(&mut m, &mut log, 8 + ch, 0x10, true);
        wr(&mut m, &mut log, 11, ep as u8, true);
        wr(&mut m, &mut log, 12, (ep >> 8) as u8, true);
        wr(&mut m, &mut log, 13, shape, true);
        let (e1, _) = energy(&mut m);
        // (the chip advances with the samples the host takes: one frame per call, drained)
        for _ in 0..7 {
            let _ = energy(&mut m);
        }
        let (e2, _) = energy(&mut m);
        // harmless rewrites of other registers with the values they hold
        if rng.bool() {
            wr(&mut m, &mut log, 11, ep as u8, true);
            wr(&mut m, &mut log, 7, !(1u8 << ch) & 0x3F, true);
        }
        let reselect = rng.bool();
        if !reselect {
            m.out(0xFFFD, 13);
        }
        wr(&mut m, &mut log, 13, shape, reselect);
        let (e3, _) = energy(&mut m);
        // (the chip advances with the samples the host takes: one frame per call, drained)
        for _ in 0..7 {
            let _ = energy(&mut m);
        }
        // the host switches the AY off for a while; register writes made meanwhile are not lost:
        // the shape written while it was off is what plays when it is switched on again
        m.emu.set_ay_enabled(false);
        log.push("host: set_ay_enabled(false)".into());
        wr(&mut m, &mut log, 13, shape, true);
        for _ in 0..2 {
            let _ = energy(&mut m);
        }
        m.emu.set_ay_enabled(true);
        log.push("host: set_ay_enabled(true)".into());
        let (e4, _) = energy(&mut m);
        for _ in 0..7 {
            let _ = energy(&mut m);
        }
        // pitch: fixed volume, same tone period rewritten
        wr(&mut m, &mut log, 8 + ch, 0x0F, true);
        wr(&mut m, &mut log, 2 * ch, tp as u8, true);
        m.run_frames(1);
        m.drain_audio();
        let mut x: Vec<f64> = vec![];
        for _ in 0..12 {
            m.run_frames(1);
            x.extend(m.drain_audio().iter().map(|s| (s.0 + s.1) as f64));
        }
        (e1, e2, e3, e4, x)
    });
    st.evals += 1;
    st.port_sound += 1;
    fp(st, 9, 0, 0, id, shape as u64);
    let wit = || jobj! {"monitor"=>"ports-sound","case"=>id,"is128"=>cfg.is128,"shape"=>shape,"ep"=>ep,"tone_period"=>tp,"log"=>J::Arr(log.iter().map(|s|J::from(s.as_str())).collect())};
    match res {
        Err(p) => ctx.violation("ay-port-panic", &format!("AY port access panicked: {}", p), wit()),
        Ok((e1, e2, e3, e4, x)) => {
            if std::env::var("VERIF_C18_DEBUG").is_ok() {
                eprintln!("ports-sound id={} 128={} mode={} beeper={} shape={} ep={} tp={} e1={:.3e} e2={:.3e} e3={:.3e} log={:?}", id, cfg.is128, cfg.ay_mode, cfg.beeper, shape, ep, tp, e1, e2, e3, log);
            }
            if e1 < 1e-4 {
                ctx.violation("ay-port-envelope-first-start-silent", &format!("envelope shape {} (EP {}) started through the ports on a fresh chip is silent (tone energy {:.2e})", shape, ep, e1), wit());
            } else if e2 > e1 * 0.05 {
                ctx.violation("ay-port-envelope-not-finished", &format!("one-shot envelope shape {} (EP {}, 16 steps = {:.0} ms) is still sounding 8 frames later (energy {:.2e} vs {:.2e} at the start)", shape, ep, 256.0 * ep as f64 / 1773.4, e2, e1), wit());
            } else if e3 < e1 * 0.3 {
                ctx.violation("ay-port-envelope-not-restarted", &format!("writing R13={} again (same shape) through the ports did not restart the envelope: tone energy {:.2e} after the rewrite vs {:.2e} after the first write", shape, e3, e1), wit());
            }
            if e1 >= 1e-4 && e4 < e1 * 0.3 {
                ctx.violation("ay-port-envelope-written-while-switched-off", &format!("R13={} written while the host had the AY switched off did not take effect when it was switched on again: tone energy {:.2e} vs {:.2e} after the first write", shape, e4, e1), wit());
            }
            let f = 1_773_400.0 / (16.0 * tp as f64) / 44100.0;
            if x.len() < 8000 {
                ctx.violation("ay-port-no-audio", &format!("12 frames delivered only {} samples", x.len()), wit());
            } else if let Err(e) = check_pitch(&x[..x.len().min(tone_len(f))], f) {
                ctx.violation("ay-port-tone-pitch", &format!("tone period {} written through the ports: {}", tp, e), wit());
            }
            if st.sample.len() < 1 {
                st.sample.push(jobj! {"monitor"=>"ports-sound","shape"=>shape,"ep"=>ep,"energy_first_start"=>e1,"energy_played_out"=>e2,"energy_after_rewrite"=>e3});
            }
        }
    }
}

// ------------------------------------------------------------------------------------ driver
/// Low-rate probe: tone pitch + boundedness for (clock, rate) with rate·64 < clock.
fn low_rate_probe(ctx: &Ctx, clock: usize, rate: usize) -> bool {
    let tp = 300u16;
    let f = clock as f64 / (16.0 * tp as f64) / rate as f64;
    let mut ay = chip(clock, rate, false, 0);
    ay.write_register(0, tp as u8);
    ay.write_register(1, (tp >> 8) as u8);
    ay.write_register(8, 15);
    ay.write_register(7, 0x3E);
    let n = rate * 2;
    let (l, r) = gen(&mut ay, n);
    let bad = all_bounded(&l, &r);
    let pitch = check_pitch(&l[64..64 + tone_len(f).min(n - 64)], f);
    if bad.is_none() && pitch.is_ok() {
        return true;
    }
    let what = match (&bad, &pitch) {
        (Some((i, v)), _) => format!("sample {} = {:e} (bound {})", i, v, BOUND),
        (_, Err(e)) => e.clone(),
        _ => String::new(),
    };
    ctx.violation(KEY_LOW, &format!("AymPrecise at {} Hz with a {} Hz clock (rate < f_clk/64 = {:.0}): tone TP={} – {}", rate, clock, clock as f64 / 64.0, tp, what),
        jobj! {"monitor"=>"low-rate-probe","clock"=>clock,"rate"=>rate,"tone_period"=>tp,"volume"=>15,"r7"=>0x3E,"samples_generated"=>n,"expected_hz"=>f*rate as f64,
        "first_unbounded_sample"=>bad.map(|b| J::Arr(vec![J::from(b.0), J::from(b.1)])).unwrap_or(J::Null),
        "pitch"=>pitch.err().unwrap_or_else(|| "ok".into())});
    false
}

pub fn run(ctx: &Ctx) -> Evidence {
    let quick = ctx.quick();
    let clocks = [1_773_400usize, 2_000_000];
    let rates = [8000usize, 11025, 22050, 44100, 48000, 96000, 192000, 384000];
    let mut rng = Rng::fork(ctx.seed ^ 0xC18, 0);
    // ---- low-rate probes
    let mut healthy: Vec<(usize, usize)> = vec![];
    let mut diverging: Vec<(usize, usize)> = vec![];
    let mut probes = 0u64;
    for &clock in clocks.iter() {
        for &rate in rates.iter() {
            if rate * 64 < clock {
                probes += 1;
                if low_rate_probe(ctx, clock, rate) {
                    healthy.push((clock, rate));
                } else {
                    diverging.push((clock, rate));
                }
            } else {
                healthy.push((clock, rate));
            }
        }
    }
    // ---- work units
    let mut units: Vec<Unit> = vec![];
    let pick_cr = |rng: &mut Rng, healthy: &Vec<(usize, usize)>, min_rate: usize| -> (usize, usize) {
        loop {
            let c = *rng.pick(healthy);
            if c.1 >= min_rate {
                return c;
            }
        }
    };
    // tone
    let special: [u16; 20] = [0, 1, 2, 3, 4, 15, 16, 255, 256, 257, 511, 512, 1023, 1024, 2047, 2048, 0xF00, 0xFF0, 0xFFE, 0xFFF];
    if quick {
        for ch in 0..3u8 {
            for chunk in 0..8 {
                let (clock, rate) = pick_cr(&mut rng, &healthy, 0);
                let mut tps: Vec<u16> = (0..16).map(|_| rng.u16() & 0x0FFF).collect();
                tps.extend(special.iter().skip(chunk % 2).step_by(2).copied());
                if chunk % 3 == 0 {
                    tps.extend((0..6).map(|_| 2 + rng.below(30) as u16)); // high pitches
                }
                units.push(Unit::Tone { clock, rate, ym: rng.chance(1, 4), ch, tps });
            }
        }
    } else {
        for ch in 0..3u8 {
            for (i, &(clock, rate)) in [(1_773_400usize, 44100usize), (1_773_400, 384000), (2_000_000, 96000)].iter().enumerate() {
                for base in (0..4096u32).step_by(64) {
                    units.push(Unit::Tone { clock, rate, ym: i == 2, ch, tps: (base..base + 64).map(|t| t as u16).collect() });
                }
            }
            for _ in 0..24 {
                let (clock, rate) = pick_cr(&mut rng, &healthy, 0);
                units.push(Unit::Tone { clock, rate, ym: rng.bool(), ch, tps: (0..48).map(|_| rng.u16() & 0x0FFF).collect() });
            }
        }
    }
    // envelope: all 16 shapes × EP list
    let eps: Vec<u16> = if quick { vec![1, 2, 7, 100, 256, 768, 1000, 65535] } else { vec![1, 2, 3, 7, 40, 100, 256, 512, 768, 1000, 1280, 4096, 65535] };
    for shape in 0..16u8 {
        for &ep in eps.iter() {
            let (clock, rate) = pick_cr(&mut rng, &healthy, 0);
            units.push(Unit::Env { clock, rate, shape, ep });
        }
        let extra = if quick { 2 } else { 40 };
        for _ in 0..extra {
            let (clock, rate) = pick_cr(&mut rng, &healthy, 0);
            let ep = match rng.below(3) {
                0 => 30 + rng.below(300) as u16,
                1 => 1 + rng.below(40) as u16,
                _ => rng.u16().max(1), // EP = 0 is outside the judged domain (the statement's period 256·EP/f_clk is degenerate)
            };
            units.push(Unit::Env { clock, rate, shape, ep });
        }
        // one guaranteed staircase per shape at a common rate
        units.push(Unit::Env { clock: 1_773_400, rate: 44100, shape, ep: 150 + rng.below(200) as u16 });
    }
    // noise: 384 kHz resolves every NP; plus common rates
    for ch in 0..3u8 {
        units.push(Unit::Noise { clock: clocks[(ch % 2) as usize], rate: 384000, ch });
        units.push(Unit::Noise { clock: 1_773_400, rate: [44100, 48000, 96000][ch as usize], ch });
        if !quick {
            units.push(Unit::Noise { clock: 2_000_000, rate: 192000, ch });
            units.push(Unit::Noise { clock: 1_773_400, rate: 192000, ch });
            units.push(Unit::Noise { clock: clocks[((ch + 1) % 2) as usize], rate: 384000, ch });
        }
    }
    for &(clock, rate) in healthy.iter() {
        let heavy = quick && !(rate == 44100 || rate == 96000 || rate == 384000 || rate < 30000);
        units.push(Unit::Volume { clock, rate, ym: false });
        units.push(Unit::Volume { clock, rate, ym: true });
        units.push(Unit::Pan { clock, rate, ym: rng.bool() });
        if !heavy {
            for ch in 0..3u8 {
                units.push(Unit::Mixer { clock, rate, ch });
            }
        }
    }
    // bounded: every (clock, rate) incl. diverging ones
    let per = ctx.scale(120_000, 8_000_000) as usize;
    let mut bid = 0u64;
    for &clock in clocks.iter() {
        for &rate in rates.iter() {
            for _ in 0..4 {
                units.push(Unit::Bounded { clock, rate, id: bid, samples: per / 4 });
                bid += 1;
            }
        }
    }
    let nports = ctx.scale(48, 6000);
    for id in 0..nports {
        units.push(Unit::Ports { id, ops: 600 });
    }
    for id in 0..ctx.scale(48, 2000) {
        units.push(Unit::PortsSound { id });
    }
    for k in 0..ctx.scale(32, 600) {
        let shape = (k % 16) as u8;
        let ep = if k % 3 == 0 { 200 + rng.below(3000) as u16 } else { 3000 + rng.below(30000) as u16 };
        let rate = *rng.pick(&[44100usize, 48000, 22050, 96000]);
        units.push(Unit::EnvLate { clock: clocks[(k % 2) as usize], rate, shape, ep });
    }
    // long-running kinds first for load balance
    units.sort_by_key(|u| match u {
        Unit::Noise { .. } => 0,
        Unit::Env { ep, .. } if *ep > 2000 => 1,
        Unit::Mixer { .. } => 2,
        Unit::Tone { .. } => 3,
        Unit::Env { .. } => 4,
        _ => 5,
    });
    let seed = ctx.seed;
    let res = par_map(ctx.jobs(), units.len(), |i| {
        let mut st = Stats::default();
        let mut rng = Rng::fork(seed ^ 0xC18, 1000 + i as u64);
        match &units[i] {
            Unit::Tone { clock, rate, ym, ch, tps } => tone_unit(ctx, &mut rng, &mut st, *clock, *rate, *ym, *ch, tps),
            Unit::Env { clock, rate, shape, ep } => env_unit(ctx, &mut rng, &mut st, *clock, *rate, *shape, *ep),
            Unit::Noise { clock, rate, ch } => noise_unit(ctx, &mut rng, &mut st, *clock, *rate, *ch),
            Unit::Volume { clock, rate, ym } => volume_unit(ctx, &mut st, *clock, *rate, *ym),
            Unit::Mixer { clock, rate, ch } => mixer_unit(ctx, &mut rng, &mut st, *clock, *rate, *ch),
            Unit::Pan { clock, rate, ym } => pan_unit(ctx, &mut st, *clock, *rate, *ym),
            Unit::Bounded { clock, rate, id, samples } => bounded_unit(ctx, seed, &mut st, *clock, *rate, *id, *samples),
            Unit::Ports { id, ops } => ports_unit(ctx, seed, &mut st, *id, *ops),
            Unit::PortsSound { id } => ports_sound_unit(ctx, seed, &mut st, *id),
            Unit::EnvLate { clock, rate, shape, ep } => env_late_unit(ctx, &mut rng, &mut st, *clock, *rate, *shape, *ep),
        }
        st
    });
    let mut ev = Evidence::new("signal monitors on aym::AymPrecise (tone pitch for sampled/all 12-bit periods × 3 channels; envelope staircase vs data-sheet model for 16 shapes × periods incl. restart/no-restart; noise run-length quantum for 31 periods; volume monotonicity; 64 mixer masks × 3 channels; 7 pan modes × 3 channels; boundedness of random register histories, AY+YM, DC filter on/off) at clocks 1.7734/2 MHz and rates 8000…384000, plus AY port read-back/wrap histories on the 128K machine and port-level sound cases (one-shot envelope started, played out and restarted by rewriting the same R13 byte; tone pitch measured in the machine's audio). distinct = distinct (monitor, clock, rate, parameter) cases judged");
    let mut t = Stats::default();
    for r in res {
        t.evals += r.evals;
        t.tone += r.tone;
        t.tone_eq01 += r.tone_eq01;
        t.env_stair += r.env_stair;
        t.env_fast += r.env_fast;
        t.env_shapes_stair.extend(r.env_shapes_stair);
        t.env_plateau_samples += r.env_plateau_samples;
        t.env_restarts += r.env_restarts;
        t.noise_nps.extend(r.noise_nps);
        t.noise_runs += r.noise_runs;
        t.volume += r.volume;
        t.mixer += r.mixer;
        t.pan += r.pan;
        t.bounded_samples += r.bounded_samples;
        t.bounded_writes += r.bounded_writes;
        t.port_reads += r.port_reads;
        t.port_sound += r.port_sound;
        t.env_late += r.env_late;
        t.port_regs.extend(r.port_regs);
        t.samples += r.samples;
        t.distinct.extend(r.distinct);
        for s in r.sample {
            // at most two samples per monitor kind
            let kind = s.get("monitor").and_then(|m| m.as_str()).unwrap_or("").to_string();
            if ev.samples.iter().filter(|e| e.get("monitor").and_then(|m| m.as_str()) == Some(kind.as_str())).count() < 2 {
                ev.sample(s);
            }
        }
    }
    ev.evaluations = t.evals + probes;
    ev.distinct_nontrivial = t.distinct.len() as u64;
    ev.add_num("tone_periods_judged", t.tone);
    ev.add_num("tone_period_0_vs_1_comparisons", t.tone_eq01);
    ev.add_num("envelope_staircases_judged", t.env_stair);
    ev.add_num("envelope_shapes_with_full_staircase", t.env_shapes_stair.len() as u64);
    ev.add_num("envelope_plateau_samples_judged", t.env_plateau_samples);
    ev.add_num("envelope_restart_checks", t.env_restarts);
    ev.add_num("envelope_short_period_cases", t.env_fast);
    ev.add_num("noise_rate_period_pairs_judged", t.noise_nps.len() as u64);
    ev.add_num("noise_periods_covered", t.noise_nps.iter().map(|x| x.1).collect::<HashSet<_>>().len() as u64);
    ev.add_num("noise_runs_measured", t.noise_runs);
    ev.add_num("volume_ladders", t.volume);
    ev.add_num("mixer_mask_channel_cases", t.mixer);
    ev.add_num("pan_mode_channel_cases", t.pan);
    ev.add_num("random_history_samples", t.bounded_samples);
    ev.add_num("random_history_register_writes", t.bounded_writes);
    ev.add_num("port_readbacks_compared", t.port_reads);
    ev.add_num("port_level_envelope_restart_and_pitch_cases", t.port_sound);
    ev.add_num("envelope_late_listener_twins", t.env_late);
    ev.add_num("port_registers_read_back", t.port_regs.len() as u64);
    ev.add_num("samples_generated", t.samples);
    ev.add_num("low_rate_probes", probes);
    ev.add("clock_rate_pairs_diverging", J::Arr(diverging.iter().map(|(c, r)| J::Arr(vec![J::from(*c), J::from(*r)])).collect()));
    if !diverging.is_empty() {
        ctx.note(&format!("signal monitors other than the probe and the random-history bound were not run at {} diverging (clock, rate) pairs below f_clk/64", diverging.len()));
    }
    ctx.require("tone periods judged", t.tone, 300);
    ctx.require("envelope staircases judged", t.env_stair, 40);
    ctx.require("envelope shapes with a full staircase", t.env_shapes_stair.len() as u64, 16);
    ctx.require("envelope restart checks", t.env_restarts, 16);
    ctx.require("noise periods covered", t.noise_nps.iter().map(|x| x.1).collect::<HashSet<_>>().len() as u64, 31);
    ctx.require("mixer cases", t.mixer, 192);
    ctx.require("pan cases", t.pan, 21);
    ctx.require("volume ladders", t.volume, 4);
    ctx.require("random-history samples", t.bounded_samples, 1_000_000);
    ctx.require("port read-backs", t.port_reads, 3_000);
    ctx.require("port-level sound cases", t.port_sound, 40);
    ctx.require("port registers read back", t.port_regs.len() as u64, 16);
    ev.assumptions.push("AY-3-8910 data sheet: 16 envelope levels per ramp, each 16·EP/f_clk; mixer output = (tone OR tone-off) AND (noise OR noise-off); implemented register bits 8/4/5/8/5/16/4".into());
    ev.assumptions.push("tone periods 0/1 are at the Nyquist limit of an f_clk/8 model and are judged for equivalence and boundedness only".into());
    ev
}
