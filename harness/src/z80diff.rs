//! Differential engine: the real `rustzx_z80::Z80` on a logging bus vs the `refz80` model.
//! Serves C01 (architected result), C02 (interrupt/HALT/prefix sequencing), C03 (bus cycles).
use crate::json::J;
use crate::refz80::{self, Cy, Ref, RefBus, RZ};
use crate::rng::{mix2, Rng};
use rustzx_z80::{Opcode, Prefix, RegName16, Z80Bus, Z80};

/// 64 KiB memory with an undo log, so that a pseudo-random background can be reused across cases
pub struct UndoMem {
    pub m: Box<[u8; 65536]>,
    undo: Vec<(u16, u8)>,
}
impl UndoMem {
    pub fn new(rng: &mut Rng) -> Self {
        let mut m = Box::new([0u8; 65536]);
        rng.fill(&mut m[..]);
        UndoMem { m, undo: Vec::with_capacity(256) }
    }
    #[inline]
    pub fn get(&self, a: u16) -> u8 {
        self.m[a as usize]
    }
    #[inline]
    pub fn set(&mut self, a: u16, v: u8) {
        self.undo.push((a, self.m[a as usize]));
        self.m[a as usize] = v;
    }
    pub fn restore(&mut self) {
        while let Some((a, v)) = self.undo.pop() {
            self.m[a as usize] = v;
        }
    }
}

/// Line/port script shared by both sides, indexed by boundary (step) number
#[derive(Clone, Default)]
pub struct Script {
    pub seed: u64,
    pub step: u32,
    pub int: bool,
    pub nmi: bool,
    pub vector: u8,
}
impl Script {
    #[inline]
    pub fn port_value(&self, port: u16) -> u8 {
        mix2(self.seed ^ 0x1077, (port as u64) | (self.step as u64) << 16) as u8
    }
}

// ---------------------------------------------------------------- real side
pub struct LogBus<'a> {
    pub mem: &'a mut UndoMem,
    pub script: &'a Script,
    pub cy: Vec<Cy>,
    pending: Option<(u16, usize)>,
    pub anomalies: Vec<String>,
    pub unknown_ops: u32,
}
impl<'a> LogBus<'a> {
    pub fn new(mem: &'a mut UndoMem, script: &'a Script) -> Self {
        LogBus { mem, script, cy: Vec::with_capacity(32), pending: None, anomalies: vec![], unknown_ops: 0 }
    }
    fn flush_pending(&mut self) {
        if let Some((a, n)) = self.pending.take() {
            self.anomalies.push(format!("wait_mreq({:04x},{}) without memory access", a, n));
        }
    }
}
impl<'a> Z80Bus for LogBus<'a> {
    fn read_internal(&mut self, addr: u16) -> u8 {
        let v = self.mem.get(addr);
        match self.pending.take() {
            Some((a, 4)) if a == addr => self.cy.push(Cy::M1(addr)),
            Some((a, 3)) if a == addr => self.cy.push(Cy::Rd(addr, v)),
            other => self.anomalies.push(format!("read_internal({:04x}) after {:?}", addr, other)),
        }
        v
    }
    fn write_internal(&mut self, addr: u16, data: u8) {
        match self.pending.take() {
            Some((a, 3)) if a == addr => self.cy.push(Cy::Wr(addr, data)),
            other => self.anomalies.push(format!("write_internal({:04x}) after {:?}", addr, other)),
        }
        self.mem.set(addr, data);
    }
    fn wait_mreq(&mut self, addr: u16, clk: usize) {
        self.flush_pending();
        self.pending = Some((addr, clk));
    }
    fn wait_no_mreq(&mut self, addr: u16, clk: usize) {
        self.flush_pending();
        if clk != 1 {
            // the documented sequence is a run of single internal T-states, each of which the
            // machine (ULA) may stretch; one n-T cycle is a different presentation
            self.anomalies.push(format!("internal delay presented as one {}-T cycle at {:04x} instead of single T-states", clk, addr));
        }
        for _ in 0..clk {
            self.cy.push(Cy::Dl(addr));
        }
    }
    fn wait_internal(&mut self, clk: usize) {
        self.flush_pending();
        self.cy.push(Cy::Ack(clk as u8));
    }
    fn read_io(&mut self, port: u16) -> u8 {
        self.flush_pending();
        let v = self.script.port_value(port);
        self.cy.push(Cy::In(port, v));
        v
    }
    fn write_io(&mut self, port: u16, data: u8) {
        self.flush_pending();
        self.cy.push(Cy::Out(port, data));
    }
    fn read_interrupt(&mut self) -> u8 {
        self.script.vector
    }
    fn reti(&mut self) {}
    fn halt(&mut self, _: bool) {}
    fn int_active(&self) -> bool {
        self.script.int
    }
    fn nmi_active(&self) -> bool {
        self.script.nmi
    }
    fn pc_callback(&mut self, _addr: u16) {}
    fn process_unknown_opcode(&mut self, _prefix: Prefix, _opcode: Opcode) {
        self.unknown_ops += 1;
    }
}

// ---------------------------------------------------------------- reference side
pub struct RefMemBus<'a> {
    pub mem: &'a mut UndoMem,
    pub script: &'a Script,
}
impl<'a> RefBus for RefMemBus<'a> {
    fn rd(&mut self, a: u16) -> u8 {
        self.mem.get(a)
    }
    fn wr(&mut self, a: u16, v: u8) {
        self.mem.set(a, v)
    }
    fn inp(&mut self, p: u16) -> u8 {
        self.script.port_value(p)
    }
    fn outp(&mut self, _p: u16, _v: u8) {}
    fn int_line(&self) -> bool {
        self.script.int
    }
    fn nmi_line(&self) -> bool {
        self.script.nmi
    }
    fn int_vector(&mut self) -> u8 {
        self.script.vector
    }
}

// ---------------------------------------------------------------- state transfer
/// put the real CPU into architected state `s` (no pending prefix possible)
pub fn load_real(s: &RZ) -> Z80 {
    let mut cpu = Z80::default();
    let r = &mut cpu.regs;
    r.set_reg_16(RegName16::AF, s.af_);
    r.set_bc(s.bc_);
    r.set_de(s.de_);
    r.set_hl(s.hl_);
    r.exx();
    r.swap_af_alt();
    // F through set_flags so that Q := F, then optionally cleared
    r.set_acc((s.af >> 8) as u8);
    r.set_flags(s.af as u8);
    if s.q == 0 {
        r.clear_q();
    }
    r.set_bc(s.bc);
    r.set_de(s.de);
    r.set_hl(s.hl);
    r.set_ix(s.ix);
    r.set_iy(s.iy);
    r.set_sp(s.sp);
    r.set_pc(s.pc);
    r.set_mem_ptr(s.wz);
    r.set_i(s.i);
    r.set_r(s.r);
    r.set_iff1(s.iff1);
    r.set_iff2(s.iff2);
    cpu.set_im(s.im);
    cpu.halted = s.halted;
    cpu.skip_interrupt = s.after_eidi;
    cpu
}

/// read the architected state of the real CPU (q/prefix are not observable and left 0)
pub fn read_real(cpu: &mut Z80) -> RZ {
    let r = &mut cpu.regs;
    let mut s = RZ::default();
    s.af = r.get_af();
    s.bc = r.get_bc();
    s.de = r.get_de();
    s.hl = r.get_hl();
    r.exx();
    r.swap_af_alt();
    s.af_ = r.get_af();
    s.bc_ = r.get_bc();
    s.de_ = r.get_de();
    s.hl_ = r.get_hl();
    r.exx();
    r.swap_af_alt();
    s.ix = r.get_ix();
    s.iy = r.get_iy();
    s.sp = r.get_sp();
    s.pc = r.get_pc();
    s.wz = r.get_mem_ptr();
    s.i = r.get_i();
    s.r = r.get_r();
    s.iff1 = r.get_iff1();
    s.iff2 = r.get_iff2();
    s.im = cpu.get_im().into();
    s.halted = cpu.halted;
    s
}

/// name of the first architected item that differs (None if equal). `skip` = real skip_interrupt
pub fn diff_state(real: &RZ, real_skip: bool, refs: &RZ) -> Option<String> {
    macro_rules! cmp {
        ($f:ident) => {
            if real.$f != refs.$f {
                return Some(format!("{}: real={:04x?} ref={:04x?}", stringify!($f), real.$f, refs.$f));
            }
        };
    }
    if real.af >> 8 != refs.af >> 8 {
        return Some(format!("a: real={:02x} ref={:02x}", real.af >> 8, refs.af >> 8));
    }
    if real.af & 0xFF != refs.af & 0xFF {
        return Some(format!("f[{:02x}]: real={:02x} ref={:02x}", (real.af ^ refs.af) & 0xFF, real.af & 0xFF, refs.af & 0xFF));
    }
    cmp!(bc);
    cmp!(de);
    cmp!(hl);
    cmp!(af_);
    cmp!(bc_);
    cmp!(de_);
    cmp!(hl_);
    cmp!(ix);
    cmp!(iy);
    cmp!(sp);
    cmp!(pc);
    cmp!(i);
    cmp!(r);
    cmp!(iff1);
    cmp!(iff2);
    cmp!(im);
    cmp!(halted);
    if real.wz != refs.wz {
        return Some(format!("memptr: real={:04x} ref={:04x}", real.wz, refs.wz));
    }
    let ref_skip = refs.after_eidi || refs.prefix != 0;
    if real_skip != ref_skip {
        return Some(format!("int-inhibit: real={} ref={}", real_skip, ref_skip));
    }
    None
}

/// memory/port access view (C01): kind, address, data of writes/ports – timing ignored
fn access_view(c: &[Cy]) -> Vec<(u8, u16, u8)> {
    c.iter()
        .filter_map(|x| match *x {
            Cy::M1(a) => Some((0, a, 0)),
            Cy::Rd(a, v) => Some((0, a, v)),
            Cy::Wr(a, v) => Some((1, a, v)),
            Cy::In(p, v) => Some((2, p, v)),
            Cy::Out(p, v) => Some((3, p, v)),
            _ => None,
        })
        .collect()
}

/// cycle lists equal, treating the address carried during an interrupt acknowledge as don't-care
/// (`Ack(n)` == n x `Dl(_)` == `Ack(n)`), but keeping its *position* significant.
pub fn cycles_equal(real: &[Cy], refc: &[Cy]) -> bool {
    fn norm(c: &[Cy], ack_len: Option<u8>) -> Vec<Cy> {
        // expand Ack(n) into n anonymous single T-states; when the reference acknowledges with
        // n T-states at the very start, the real side may present them as n Dl(addr)
        let mut v = Vec::with_capacity(c.len() + 8);
        let mut i = 0;
        if let Some(n) = ack_len {
            let n = n as usize;
            if c.len() >= n && c[..n].iter().all(|x| matches!(x, Cy::Dl(_))) {
                for _ in 0..n {
                    v.push(Cy::Ack(1));
                }
                i = n;
            }
        }
        for x in &c[i..] {
            match x {
                Cy::Ack(n) => {
                    for _ in 0..*n {
                        v.push(Cy::Ack(1));
                    }
                }
                y => v.push(*y),
            }
        }
        v
    }
    let ack = match refc.first() {
        Some(Cy::Ack(n)) => Some(*n),
        _ => None,
    };
    norm(real, ack) == norm(refc, ack)
}

/// Where the machine is shown the acknowledge T-states of an interrupt as address-carrying delay
/// cycles, the address is the PC the CPU has at that moment – the return address it pushes next
/// (behind the HALT when the interrupt wakes a halted CPU). A presentation without an address
/// (`Ack(n)`) is not judged.
pub fn ack_address_wrong(real: &[Cy], refc: &[Cy]) -> Option<String> {
    let n = match refc.first() {
        Some(Cy::Ack(n)) => *n as usize,
        _ => return None,
    };
    let (hi, lo) = match (refc.get(1), refc.get(2)) {
        (Some(Cy::Wr(_, h)), Some(Cy::Wr(_, l))) => (*h, *l),
        _ => return None,
    };
    let ret = (hi as u16) << 8 | lo as u16;
    if real.len() < n {
        return None;
    }
    let mut addrs = vec![];
    for c in &real[..n] {
        match c {
            Cy::Dl(a) => addrs.push(*a),
            _ => return None,
        }
    }
    if addrs.iter().any(|a| *a != ret) {
        return Some(format!("the {} acknowledge T-states carry address(es) {:04x?} but the CPU's PC (the return address pushed next) is {:04x}", n, addrs, ret));
    }
    None
}

#[derive(Clone, Copy, PartialEq, Eq, Debug)]
pub enum Class {
    /// architected result / access sequence of an ordinary instruction (C01)
    Result,
    /// interrupt, NMI, HALT, EI/DI, prefix sequencing (C02)
    Sequencing,
    /// bus cycle kinds, lengths, delay addresses (C03)
    Timing,
}

pub struct Mismatch {
    pub class: Class,
    pub key: String,
    pub what: String,
}

pub const PAGE_NAMES: [&str; 7] = ["main", "CB", "ED", "DD", "FD", "DDCB", "FDCB"];

/// One compared step. Returns the reference step info and any mismatch.
pub struct StepOut {
    pub info: refz80::StepInfo,
    /// first mismatch (any class)
    pub mismatch: Option<Mismatch>,
    /// further mismatches of other classes found in the same step (e.g. bus cycles differ as well)
    pub more: Vec<Mismatch>,
    pub ref_cycles: Vec<Cy>,
    pub real_cycles: Vec<Cy>,
}

pub struct Pair {
    /// cycles of the current (possibly multi-step) instruction: a DD/FD chain is compared as a whole
    /// when it completes, because the boundary between two prefixes is not architecturally visible
    acc_real: Vec<Cy>,
    acc_ref: Vec<Cy>,
    pub real_mem: UndoMem,
    pub ref_mem: UndoMem,
    pub cpu: Z80,
    pub rs: RZ,
    pub script: Script,
}

impl Pair {
    pub fn new(rng: &mut Rng) -> Pair {
        let real_mem = UndoMem::new(rng);
        let ref_mem = UndoMem { m: real_mem.m.clone(), undo: Vec::with_capacity(256) };
        Pair { acc_real: vec![], acc_ref: vec![], real_mem, ref_mem, cpu: Z80::default(), rs: RZ::default(), script: Script::default() }
    }
    pub fn reset_case(&mut self) {
        self.acc_real.clear();
        self.acc_ref.clear();
        self.real_mem.restore();
        self.ref_mem.restore();
    }
    pub fn set_state(&mut self, s: &RZ) {
        self.rs = *s;
        self.rs.prefix = 0;
        self.cpu = load_real(&self.rs);
    }
    pub fn poke(&mut self, a: u16, v: u8) {
        self.real_mem.set(a, v);
        self.ref_mem.set(a, v);
    }
    pub fn poke_bytes(&mut self, a: u16, b: &[u8]) {
        for (i, v) in b.iter().enumerate() {
            self.poke(a.wrapping_add(i as u16), *v);
        }
    }

    /// execute one step on both sides and compare everything
    pub fn step(&mut self) -> StepOut {
        let before = self.rs;
        // reference
        let (info, ref_cycles) = {
            let mut bus = RefMemBus { mem: &mut self.ref_mem, script: &self.script };
            let mut r = Ref::new(self.rs, &mut bus);
            r.step();
            self.rs = r.s;
            (r.info, std::mem::take(&mut r.cy))
        };
        // real
        let (real_cycles, anomalies) = {
            let mut bus = LogBus::new(&mut self.real_mem, &self.script);
            self.cpu.emulate(&mut bus);
            bus.flush_pending();
            (std::mem::take(&mut bus.cy), std::mem::take(&mut bus.anomalies))
        };
        self.script.step += 1;
        let real = read_real(&mut self.cpu);
        let opname = format!("{}:{:02x}", PAGE_NAMES[info.page as usize], info.opcode);
        let mut found: Vec<Mismatch> = vec![];
        if !anomalies.is_empty() {
            found.push(Mismatch { class: Class::Timing, key: format!("{}:bus-anomaly", opname), what: anomalies.join("; ") });
        }
        self.acc_real.extend_from_slice(&real_cycles);
        self.acc_ref.extend_from_slice(&ref_cycles);
        if self.rs.prefix != 0 {
            // inside a prefix chain: only the interrupt inhibition is observable here
            if !self.cpu.skip_interrupt {
                found.push(Mismatch { class: Class::Sequencing, key: "prefix-chain:int-inhibit".into(), what: "interrupts are not inhibited between a DD/FD prefix and the following prefix/opcode".into() });
            }
            let mismatch = if found.is_empty() { None } else { Some(found.remove(0)) };
            return StepOut { info, mismatch, more: found, ref_cycles, real_cycles };
        }
        let real_all = std::mem::take(&mut self.acc_real);
        let ref_all = std::mem::take(&mut self.acc_ref);
        let seq_ctx = info.int_accepted
            || info.nmi_accepted
            || before.halted
            || before.after_eidi
            || (info.page == 0 && matches!(info.opcode, 0x76 | 0xF3 | 0xFB))
            || (info.page == 2 && (info.opcode & 0xC7) == 0x45);
        if let Some(d) = diff_state(&real, self.cpu.skip_interrupt, &self.rs) {
            let field = d.split(':').next().unwrap_or("").split('[').next().unwrap_or("").to_string();
            // an interrupt line was active but the reference did not accept: a difference in
            // control state means the real core did
            let line_ctx = (self.script.int || self.script.nmi)
                && matches!(field.as_str(), "pc" | "sp" | "iff1" | "iff2" | "halted" | "r" | "im" | "int-inhibit");
            let class = if seq_ctx || line_ctx || field == "int-inhibit" { Class::Sequencing } else { Class::Result };
            let ctx = if info.int_accepted { "+int" } else if info.nmi_accepted { "+nmi" } else { "" };
            let chain = if before.prefix != 0 { "chain:" } else { "" };
            found.push(Mismatch { class, key: format!("{}{}{}:{}", chain, opname, ctx, field), what: d });
        }
        if access_view(&real_all) != access_view(&ref_all) {
            let class = if seq_ctx { Class::Sequencing } else { Class::Result };
            found.push(Mismatch {
                class,
                key: format!("{}:access-sequence", opname),
                what: format!("memory/port access sequence differs: real={:?} ref={:?}", real_all, ref_all),
            });
        }
        if let Some(w) = ack_address_wrong(&real_all, &ref_all) {
            found.push(Mismatch {
                class: Class::Timing,
                key: format!("{}:ack-address", if info.nmi_accepted { "nmi".to_string() } else { format!("int-im{}", before.im) }),
                what: w,
            });
        }
        if !cycles_equal(&real_all, &ref_all) {
            let ctx = if info.int_accepted {
                format!("int-im{}", before.im)
            } else if info.nmi_accepted {
                "nmi".to_string()
            } else {
                format!("{}{}", opname, if info.taken { ":taken" } else { "" })
            };
            found.push(Mismatch {
                class: Class::Timing,
                key: format!("{}:cycles", ctx),
                what: format!("bus cycle list differs: real={:?} ref={:?}", real_all, ref_all),
            });
        }
        let mismatch = if found.is_empty() { None } else { Some(found.remove(0)) };
        let more = found;
        StepOut { info, mismatch, more, ref_cycles: ref_all, real_cycles: real_all }
    }
}

pub fn rz_json(s: &RZ) -> J {
    J::Str(format!("{:04x?}", s))
}

/// random architected state with biased values
pub fn random_state(rng: &mut Rng) -> RZ {
    let mut s = RZ::default();
    s.af = (rng.ibyte() as u16) << 8 | rng.u8() as u16;
    s.bc = rng.iword();
    s.de = rng.iword();
    s.hl = rng.iword();
    s.af_ = rng.u16();
    s.bc_ = rng.iword();
    s.de_ = rng.iword();
    s.hl_ = rng.iword();
    s.ix = rng.iword();
    s.iy = rng.iword();
    s.sp = rng.iword();
    s.pc = rng.iword();
    s.wz = rng.u16();
    s.i = rng.u8();
    s.r = rng.u8();
    s.iff1 = rng.bool();
    s.iff2 = rng.bool();
    s.im = rng.below(3) as u8;
    s.q = if rng.bool() { s.af as u8 } else { 0 };
    if rng.chance(1, 6) {
        // small counters so that repeat instructions terminate / hit their last iteration
        s.bc = *rng.pick(&[0u16, 1, 2, 0x0100, 0x0101, 0x0200, 0x0001, 0xFFFF]);
    }
    s
}

/// bytes of an instruction of the given page (0..6) and opcode, operands random
pub fn encode(page: u8, opcode: u8, rng: &mut Rng) -> Vec<u8> {
    let mut v = match page {
        0 => vec![opcode],
        1 => vec![0xCB, opcode],
        2 => vec![0xED, opcode],
        3 => vec![0xDD, opcode],
        4 => vec![0xFD, opcode],
        5 => vec![0xDD, 0xCB, rng.ibyte(), opcode],
        _ => vec![0xFD, 0xCB, rng.ibyte(), opcode],
    };
    for _ in 0..3 {
        v.push(rng.ibyte());
    }
    v
}

/// is (page, opcode) a real instruction of that page (not a prefix byte)?
pub fn is_instruction(page: u8, opcode: u8) -> bool {
    match page {
        0 => !matches!(opcode, 0xCB | 0xDD | 0xED | 0xFD),
        3 | 4 => !matches!(opcode, 0xCB | 0xDD | 0xED | 0xFD),
        _ => true,
    }
}

pub fn is_block_repeat(page: u8, opcode: u8) -> bool {
    page == 2 && (0xB0..=0xBB).contains(&opcode) && (opcode & 7) < 4
}
