#!/bin/bash
# tools/regress_seeds.sh [jobs] – re-runs every stored seeded change against the current harness in
# scratch copies of /repo (selftest/run_patch.sh; /repo itself is not touched) and prints one line per
# (seed, check): CAUGHT / MISSED. Seeds whose meta says caught_by=[] are run against their own property
# and are expected to be MISSED (deliberately undecided).
cd /verif
J=${1:-4}
for d in seeded/*/; do
  id=$(basename $d)
  checks=$(python3 -c "import json;m=json.load(open('$d/meta.json'));print(','.join(m['caught_by'] or [m['breaks_property']]))")
  echo "$d/patch.diff|$checks"
done | tr '\n' '\0' | xargs -0 -P $J -I{} bash -c 'IFS="|" read -r p c <<< "{}"; selftest/run_patch.sh "$p" "$c" 2>&1 | cut -c1-160'
