#!/usr/bin/env python3
"""Writes /verif/seeded/<id>/meta.json for every confirmed seeded change (table below)."""
import json, os
ROOT = os.path.dirname(os.path.dirname(os.path.abspath(__file__)))
S = {
 "C01": dict(breaks="C01", change="OUT (n),A sets MEMPTR to port+1 (carry of n+1 leaks into the high byte) – a regression of fix 13a08c1 written as a tidy-up mirroring IN A,(n)",
   needs="operand n = 0xFF, then a BIT n,(HL)/CPI chain before anything reloads MEMPTR; visible only in F3/F5",
   demo="cargo test --offline -p rustzx-z80 --test seed_demo", caught_by=["C01"], first_key="main:d3:memptr / DD:d3:memptr (exhaustive (n,A) sweep + random states)"),
 "C02": dict(breaks="C02", change="EI arms the one-instruction interrupt hold-off only when IFF1 was 0 (skip_interrupt = !iff1)",
   needs="EI executed with IFF1 already set and INT active at the following boundary",
   demo="cargo test --offline -p rustzx-z80 --test seed_demo", caught_by=["C02"], first_key="main:fb:int-inhibit (directed enumeration after-EI x IFF1=1, random line scripts)"),
 "C03": dict(breaks="C03", change="active_prefix state removed: after DD/FD followed by another prefix the PC is stepped back so the second prefix byte is fetched (and R incremented) twice",
   needs="two stacked prefix bytes (DD FD .., FD DD DD .., DD ED ..)",
   demo="cargo test --offline -p rustzx-z80 --test seed_demo", caught_by=["C03", "C01", "C02"], first_key="DD:00:cycles (C03), DD:00:access-sequence (C01) – MISSED by C03/C01 before prefix chains were compared as whole instructions"),
 "C04": dict(breaks="C04", change="repeating LDDR: the 5 extra T-states carry DE-1 instead of DE+1 (copy/paste from LDIR)",
   needs="LDDR that repeats with the destination in the first two bytes of a 16K slot whose contention differs from the slot below, during the contended part of a picture line",
   demo="cargo test -p rustzx-core --features verif --test seed_demo --offline", caught_by=["C04", "C03"], first_key="contention:48k:dl"),
 "C05": dict(breaks="C05", change="INT line driven by a count-down re-armed to 32 in new_frame() while the overrun of the crossing bus wait was billed to the old counter: pulse lasts 32+k T after a misaligned frame crossing",
   needs="frame crossing that does not land exactly on the boundary (k=1..3) and an interrupt sampled with IFF1=1 at T in [32,32+k)",
   demo="cargo test --offline -p rustzx-core --features verif --test seed_demo", caught_by=["C05"], first_key="conservation:across-frame-end (also int-window for k>0 runs)"),
 "C06": dict(breaks="C06", change="write_7ffd early-returns for a pure screen flip (changed bits == 0x08), skipping the bit-5 lock check",
   needs="locking write that keeps bank and ROM bits, flips bit 3 and sets bit 5 ((old^val)&0x3F == 0x28), then a further paging write",
   demo="cargo test --offline -p rustzx-test --test seed_demo", caught_by=["C06"], first_key="memory-map:128k:after-lock (exhaustive 64x256 transitions + random histories)"),
 "C07": dict(breaks="C07", change="Kempston arm of read_io no longer checks that the joystick is enabled: with the joystick disabled A7-A5=0 ports read constant FF instead of the floating bus",
   needs="joystick disabled + odd port with A7-A5=0 that is neither AY nor mouse + read while the ULA fetches a non-FF picture byte",
   demo="cargo test -p rustzx-test --test seed_demo --offline", caught_by=["C07"], first_key="floating-bus:*:constant-ff – MISSED before the floating-bus monitor chose its ports per device configuration from every unclaimed decode class"),
 "C08": dict(breaks="C08", change="refresh_memory_dependent_devices re-decodes only the screen bank currently shown",
   needs="128K: snapshot/SCR load while the other screen bank holds a picture, later flip of latch bit 3 without CPU writes",
   demo="cargo test --offline -p rustzx-test --test seed_demo", caught_by=["C08"], first_key="canvas:128k:sna-then-flip:hidden-bank / scr-hidden-then-flip – MISSED before those two install paths existed"),
 "C09": dict(breaks="C09", change="ZXBorder::fill_to rewritten row by row; the last partial row starts at x=0 instead of the previous change position",
   needs="two writes of different colours on the same visible scan line, the first at x > 16",
   demo="cargo test -p rustzx-test --test seed_demo --offline", caught_by=["C09"], first_key="border:*:beam-position"),
 "C10": dict(breaks="C10", change="next_block skips the leftovers of the previous block with a seek computed as if the 128-byte buffer were refilled eagerly",
   needs="request that stops after exactly 128*k bytes of a longer block (DE+2 = 128k or VERIFY mismatch at offset 128k-1), then another request",
   demo="cargo test --offline -p rustzx-test --test seed_demo", caught_by=["C10"], first_key="c10-carry:de0:lost"),
 "C11": dict(breaks="C11", change="NextByte takes bytes straight from the 128-byte buffer using block_size.min(128) as the valid length: stale bytes are played after the checksum",
   needs="real-time playback of a block longer than 128 bytes whose length is not a multiple of 128",
   demo="cargo test --offline -p rustzx-core --features verif --test seed_demo", caught_by=["C11"], first_key="c11-block-too-long"),
 "C12": dict(breaks="C12", change="rewind() no longer resets block_bytes_read/buffer_offset/current_block_size; next_block's leftover skip then eats bytes of the rewound tape",
   needs="rewind inside a block longer than 128 bytes with a buffer refill still outstanding",
   demo="cargo test --offline -p rustzx-core --features verif --test seed_demo", caught_by=["C12"], first_key="c12-emulation-error – MISSED while the history tapes had blocks of at most 40 bytes"),
 "C16": dict(breaks="C16", change="emulate_frames handles the breakpoint event before the fast-load event: a breakpoint on the trap instruction loses the fast-load request",
   needs="tape inserted and stopped, fast load on, host breakpoint exactly on 0x056B",
   demo="cargo test -p rustzx-test --test seed_demo --offline", caught_by=["C16"], first_key="driving:breaks-at-pcs:audio/cpu (caught by chance through breaks-every-k before the PC-breakpoint driving was added)"),
 "C17": dict(breaks="C17", change="CompoundKey::modifier_mask derived from the primary key position (mask << row*4): ArrowLeft and Delete share a bit",
   needs="hold ArrowLeft and Delete together, release one: CAPS SHIFT is released while the other is still held",
   demo="cargo test --offline -p rustzx-test --test seed_demo", caught_by=["C17"], first_key="keyboard-row-mismatch"),
 "C20": dict(breaks="C20", change="player skips register writes equal to the previous frame's value – also for R13, whose write restarts the envelope",
   needs="two adjacent frames with the same R13 != 0xFF",
   demo="cargo test --offline -p vtx --test seed_demo", caught_by=["C20"], first_key="register-write-mismatch"),
}
for sid, m in S.items():
    d = os.path.join(ROOT, "seeded", sid)
    if not os.path.isdir(d):
        continue
    meta = {
        "id": sid, "breaks_property": m["breaks"], "change": m["change"], "needs_to_manifest": m["needs"],
        "origin": "written by a fresh sub-agent given only the property text and a scratch worktree of rustzx",
        "confirmed": {
            "how": "tools/confirm_seed.sh in the scratch worktree /tmp/seed_%s" % sid,
            "demo_command": m["demo"],
            "demo_on_unchanged_sources": "passes", "demo_with_change": "fails",
            "pinned_suite_with_change": "31 passed, 0 failed",
        },
        "checks_run": "selftest/run_patch.sh seeded/%s/patch.diff %s quick (scratch copy of /repo + patch), and ./check with the patch applied to /repo then reverted" % (sid, ",".join(m["caught_by"])),
        "caught_by": m["caught_by"], "first_violation_key": m["first_key"],
    }
    json.dump(meta, open(os.path.join(d, "meta.json"), "w"), indent=1)
    print("meta", sid)
