#!/bin/bash
# tools/confirm_seed.sh <Cxx> '<demo command run inside the worktree>'
# Confirms a seeded change delivered in /tmp/seed_<id>/deliver: demo passes on the unchanged
# sources, fails with the patch, the pinned suite still passes with the patch. Then stores it
# under /verif/seeded/<id>/ (patch.diff, demo files, NOTES/RUN, meta.json is written by hand).
set -u
ID="$1"; DEMO="$2"; WT=${3:-/tmp/seed_$ID}; DEST=${4:-$ID}; D=$WT/deliver
export CARGO_TARGET_DIR=$WT/target CARGO_NET_OFFLINE=true
cd $WT || exit 2
git checkout -q -- . 2>/dev/null
git status --short | grep -v '^??' && { echo "worktree has tracked modifications"; exit 2; }
# make sure demo files are in place
( cd $D && find . -type f ! -name patch.diff ! -name NOTES.md ! -name RUN.md ) | while read f; do mkdir -p "$WT/$(dirname $f)"; cp "$D/$f" "$WT/$f"; done
echo "--- demo WITHOUT the change (expect pass)"
bash -c "$DEMO" >$WT/confirm_clean.log 2>&1; RC_CLEAN=$?
git apply $D/patch.diff || { echo "patch does not apply"; exit 2; }
echo "--- demo WITH the change (expect fail)"
bash -c "$DEMO" >$WT/confirm_patched.log 2>&1; RC_PATCHED=$?
echo "--- pinned suite WITH the change (expect 31 pass)"
# move the demo files away so that only the pinned tests run
( cd $D && find . -type f ! -name patch.diff ! -name NOTES.md ! -name RUN.md ) | while read f; do rm -f "$WT/$f"; done
cargo test --workspace --no-fail-fast --offline >$WT/confirm_suite.log 2>&1
PASSED=$(grep -E "^test result" $WT/confirm_suite.log | awk '{s+=$4} END {print s}')
FAILED=$(grep -E "^test result" $WT/confirm_suite.log | awk '{s+=$6} END {print s}')
git checkout -q -- .
echo "CONFIRM $ID: demo clean rc=$RC_CLEAN, demo patched rc=$RC_PATCHED, suite passed=$PASSED failed=$FAILED"
if [ $RC_CLEAN -eq 0 ] && [ $RC_PATCHED -ne 0 ] && [ "$PASSED" = "31" ] && [ "$FAILED" = "0" ]; then
  mkdir -p /verif/seeded/$DEST
  cp -r $D/. /verif/seeded/$DEST/
  echo "CONFIRM $ID: OK -> /verif/seeded/$DEST"
else
  echo "CONFIRM $ID: NOT CONFIRMED"
fi
