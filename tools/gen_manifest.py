#!/usr/bin/env python3
"""Regenerates /verif/MANIFEST.json from the table below and validates it against the schema."""
import json, os, sys
ROOT = os.path.dirname(os.path.dirname(os.path.abspath(__file__)))
HOOK_COMMITS = ["b01aa39"]

# id -> (category, technique, level text, level note, design ref)
ZNOTE = "Trusted base: the reference model harness/src/refz80.rs (written from the Zilog manual / Sean Young / boo_boo MEMPTR / Patrik Rak Q / FUSE contention docs, sharing no code with rustzx); every run first re-qualifies it on z80full+z80memptr+z80ccf (thorough: + all 67 ZEXALL groups) and on an independently typed documented T-state table, and is INCONCLUSIVE if that fails. Don't-cares: F3/F5 and Q after a repeating block iteration at xxFF / followed by SCF/CCF, address during interrupt acknowledge, NMI directly after EI/DI or inside a prefix chain."
CHECKS = {
 "C01": ("exploration", "runtime monitoring: differential execution of the real Z80 core on a logging bus against an independent executable reference model",
         "Every one of the 1780 instruction encodings from 20k (thorough 1M) biased-random states each + SCF/CCF follower exposing Q, exhaustive 8-bit ALU/rotate/DAA operand sweeps, all (n,A) for the MEMPTR-setting I/O forms, millions of random instruction sequences with state carried across; registers, all flag bits, MEMPTR, IFF/IM and the ordered access list compared after every step (1.4e8 steps quick).",
         ZNOTE, "DESIGN.md §2.1, §3 C01"),
 "C02": ("exploration", "runtime monitoring: differential execution with scripted INT/NMI line levels + directed state enumeration + trace assertion",
         "Programs dense in EI/DI/HALT/RETI/RETN/IM/prefix chains under random INT/NMI schedules sampled at every boundary (1.3e8 steps quick) plus exhaustive enumeration of (pre-state x IFF1 x IFF2 x IM x lines x next instruction); acceptance, IFFs, pushed PC, vectoring, R and HALT release compared with the reference after every step.",
         ZNOTE, "DESIGN.md §3 C02"),
 "C03": ("exploration", "runtime monitoring: canonical bus-cycle log of every emulate() call compared with the reference cycle list",
         "The full cycle list (M1/read/write/delay-with-address/ack/port, in order, with addresses and data) of every step of the C01/C02 streams is compared with the reference's; >2700 distinct (encoding, taken/repeat, interrupt kind) variants per quick run, all timing variants required by a coverage floor.",
         ZNOTE, "DESIGN.md §3 C03"),
 "C04": ("exploration", "runtime monitoring: frame-clock hook around single-stepped instructions vs the statement's contention model applied to reference bus cycles",
         "One single-stepped instruction on the full 48K/128K machine per case, all encodings with code/operands/stack/I/port high byte in contended, uncontended, bank-dependent and window-border memory, 128K bank switched by emulated OUT, interrupt entry included; end clock must equal the model exactly (3.7e6 cases quick). Thorough: every start T-state of the frame for 80 representative cycle shapes x 4 placements x both machines (exhaustive over that sub-space).",
         ZNOTE + " Contention model typed from the statement.", "DESIGN.md §3 C04"),
 "C05": ("exploration", "runtime monitoring: conservation invariant checked after every single step + counting-loop accounting through the public API + INT window sweep + once-per-frame counter",
         "A: sum of independently predicted step durations == wraps*FRAME+clock-clock0 after every step of random programs crossing a frame end; B: counting loop cost vs k*n*FRAME under emulate_frames(FrameCount(n)); C: INT accepted iff boundary T in [0,32) at every T around the frame start for IM0/1/2; D: IM2 handler of 43..407 T runs exactly once per frame under 5 main-loop kinds.",
         ZNOTE + " Step durations = reference cycles + contention model (validated by C04).", "DESIGN.md §3 C05"),
 "C06": ("exploration", "runtime monitoring: unambiguous-history (per-byte bank markers, fresh write values) checked against an executable latch/bank model",
         "Exhaustive 64 latch states x 256 paging values with marker probes through the CPU and peek; random histories of emulated OUT (latch aliases, non-latch ports, lock), LD (nn),A, LDIR across window borders on both machines with embedded and host ROM sets; 16 probes after every operation and a full 65536-address + all-bank (hook) sweep every 64 operations.",
         "Model typed from the statement; ports generated only where exactly one device decodes; 32 scratch bytes of bank 2 not judged.", "DESIGN.md §3 C06"),
 "C07": ("exploration", "runtime monitoring: exhaustive port sweep with device fingerprints (read value identifies the source, state diff after every write) + floating-bus set oracle",
         "All 65536 ports x read/write per configuration ({48K,128K} x Kempston x mouse x extender none/exact/random; 8 quick, 56 thorough) through emulated IN/OUT instruction forms; unclaimed ports read at sampled (thorough: every) frame T-state against the floating-bus set oracle.",
         "Decode table typed from the statement; multi-device ports unjudged; mouse required only at xxDF/A9=1, every other A5=0 port treated as possibly-mouse when the mouse is enabled; bits 5-7 of ULA reads unjudged.", "DESIGN.md §3 C07"),
 "C08": ("exploration", "runtime monitoring: frame buffer of completed frames compared pixel-exactly with an independent decode of the installed screen bytes",
         "Random/structured screens installed through 10 paths (CPU stores and LDIR through 0x4000/0xC000, bank 7 shown, tape fast-load, SNA incl. bank-7-shown, SCR, pokes, bank toggling) on both machines, then quiet frames; 56-frame flash runs; single stores at random beam times judged when >= 2 lines before/after the fetch.",
         "Decode typed from the statement; flash phase free (period pinned); SZX path covered by C14.", "DESIGN.md §3 C08"),
 "C09": ("exploration", "runtime monitoring: offline checker of every completed border frame against a beam-time model over the recorded port-write log",
         "OUTs to random even ULA ports at scripted frame clocks (0-40 per frame, bursts within a line, retrace, last/first 30 T, same colour, no-write frames, snapshot border) on both machines; all 32k border pixels of every frame judged (+-8 T), border_color() after every write.",
         "Write instant known only to lie inside the OUT instruction's [start+4,end] interval (frame-clock hook).", "DESIGN.md §3 C09"),
 "C10": ("exploration", "runtime monitoring: request histories against the real ROM trap compared with a sequential LD-BYTES model; end-of-tape lockstep with a silent-tape twin",
         "Random TAP images x request histories (LOAD/VERIFY, flag match/mismatch, DE incl. 0 and >= FF00, IX anywhere, buffer-boundary lengths, bad checksums, truncated tails, requests past the end); IX, DE, carry and all RAM compared with the ld_bytes model transcribed from the ROM listing (itself validated against the real-time ROM by C11).",
         "ld_bytes model (harness/src/spec_tape.rs) is the trusted base, cross-checked by C11's real-time part; 'never completes' restated as no successful return within 20 frames + lockstep equality with a machine that has no tape.", "DESIGN.md §3 C10"),
 "C11": ("exploration", "runtime monitoring: offline pulse classifier/parser over the recorded EAR edge log under adversarial step partitions; real-time ROM load differential",
         "Real Tap pulse generator driven with 6 families of 1..16 T step partitions; every pulse classified into [nominal, nominal+32], pilot counts exact, every block re-decoded bit by bit (all 256 byte values); real ROM loading in real time compared with the fast loader and the model.",
         "Uses the rustzx_core::verif re-export of the crate-private Tap.", "DESIGN.md §3 C11"),
 "C12": ("exploration", "runtime monitoring: command histories against a reference cassette deck; edge log parsed in concatenated playing time",
         "Scripted/random histories over {play, stop, rewind, advance} at mid-pilot/sync/byte/bit/pause/after-end positions incl. repeated commands, at Tap level and through Emulator::{play,stop,rewind}_tape with EAR sampled by emulated IN; frozen level while stopped, blocks each once in order, clean pilot after rewind/end.",
         "Uses the rustzx_core::verif re-export; at emulator level end-of-tape is inferred from silence.", "DESIGN.md §3 C12"),
 "C13": ("exploration", "runtime monitoring: save/load round trips with full-state digests (side-effect freedom), independent SNA parser, behavioural twin single-stepped after the load",
         "Machines brought to random states without any loader, saved as SNA (registers/RAM/paging/border must be unchanged by saving; file compared item by item by an independent parser), loaded into the same emulator later (ran on, halted, mid DD-chain, EI-pending, paging locked) and into a fresh one; every SNA item, latch+lock and all RAM compared, then 64 single steps against a pristine machine in the described state.",
         "48K: the two bytes below SP exempt on the load side (format keeps PC there), SP generated in RAM; frame clock not judged.", "DESIGN.md §3 C13"),
 "C14": ("exploration", "runtime monitoring: loaders run on files from independent format writers; abstract state compared through hooks + behavioural probes; SNA/SZX twins",
         "Well-formed 48K/128K SNA, SZX (stored / zlib by miniz_oxide / hand-made stored-deflate pages, shuffled and unknown chunks, CRTR/KEYB/AMXM/AY) and SCR files loaded into hostile prior machines; registers, IFFs, IM, border, latch+lock, every RAM byte and ROM selection compared, one behavioural probe per case (interrupt acceptance / EI-pending, HALTED under both PC conventions, canvas, AY read-back + audible tone/silence, mouse presence), SNA-vs-SZX twins stepped 200 instructions, model-mismatch files must be rejected.",
         "Writers (harness/src/spec_snap.rs) typed from the format specifications; dwCyclesStart, KEYB joystick type, Q/MEMPTR after SNA not judged.", "DESIGN.md §3 C14"),
 "C15": ("fault_enumeration", "runtime monitoring: loaders run in watched worker sub-processes (release and overflow-checked builds) under catch_unwind, a hang watchdog and a counting global allocator; asset faults enumerated per read/seek index",
         "Structure-aware mutants of valid SNA/SZX/TAP/SCR/ROM/gzip/VTX files, havoc mutations and random strings of structured lengths, each through an in-memory cursor and a short-read asset, followed by frames / tape play / fast-load requests; for selected inputs (thorough: all, x3 failure kinds) every read/seek index is failed in turn. Oracle: no panic, no arithmetic overflow (checked build), completion within a generous per-case limit re-confirmed alone, largest single allocation <= 1 MiB + 2*1032*input length.",
         "A missing checked-profile binary or an unconfirmed hang makes the run INCONCLUSIVE; known finding: delharc (third-party) panics on some invalid LH5 streams.", "DESIGN.md §3 C15"),
 "C16": ("exploration", "runtime monitoring: differential twin executions, digests compared at equal emulated instants (frame numbers from the driving / frame-clock hook)",
         "Scenarios (ROM boot, random programs, repository snapshots, tape loading real-time and fast) with key events at frame boundaries under the reference driving and under repetition, FrameCount(n) partitions, Max mode with scripted stopwatch readings, breakpoint stop/resume, sound off, AY mixing off, drain every 3rd frame / never, file/gzip/short-read assets; CPU+RAM+paging+border and both frame buffers compared at every event frame and at the end, audio between equal drain policies.",
         "Digest = FNV-1a 64 over registers, all RAM pages (hook), paging, border colour and both frame buffers.", "DESIGN.md §3 C16"),
 "C17": ("exploration", "runtime monitoring: history + executable held-controls model, ports read by single-stepped IN",
         "Random event histories over every control of every input source; after every event all input ports are read through emulated IN instructions and compared with a model written from the statement. Held on the histories observed (10^5 events quick, 10^7 thorough).",
         "Trusts the keyboard matrix / Sinclair / compound tables typed into the harness from the statement; single-stepping uses the public DebugInterface; known finding sinclair2-down-maps-to-N2 is matched only by its exact signature.",
         "DESIGN.md §3 C17"),
 "C18": ("exploration", "runtime monitoring: signal monitors (pitch by spectral/zero-crossing estimate, envelope staircase decoding, noise run-length quantisation, RMS/DC ladders, L/R energy) over AymPrecise output + port read-back model",
         "Tone pitch for sampled (thorough: all 4096) periods x 3 channels, all 16 envelope shapes x several periods incl. restart rules, all 31 noise periods, volume ladder, 64 mixer masks, 7 pan modes, boundedness of random register histories (AY/YM, DC filter on/off) at clocks 1.7734/2 MHz and rates 8-384 kHz; AY port read-back/register wrap on the machine.",
         "Data-sheet shape table and DAC-level learning typed into the harness; TP 0/1 judged only for equivalence and boundedness (Nyquist of the model's internal clock).", "DESIGN.md §3 C18"),
 "C19": ("exploration", "runtime monitoring: offline checker over the drained audio sample log against the recorded port-write log (frame-clock hook)",
         "Single-stepped programs toggling port 0xFE every 18..80000 T on both machines at rates 8000-384000 Hz, volumes 0-200, beeper/AY on/off: exact floor(rate/50) samples per frame, each sample equal to a level in force within +-1 sample +-12 T (levels learnt by calibration, speaker > MIC > 0), bounds, queue < 2 frames under always/never/random/K-undrained drain policies.",
         "Bound = calibrated beeper maximum + (volume/100)*4.0 (statement says only 'implied by the volume setting').", "DESIGN.md §3 C19"),
 "C20": ("exploration", "runtime monitoring: recording AymBackend log vs the statement's schedule; bit-exact chunking differential on the real chip; independent LH5 writer/parser/transposition",
         "Random register logs (0-300 frames, R13=0xFF frequent), player frequencies and rates, 8 partition kinds of the output (all-1, odd stereo lengths, primes, random, one buffer) in mono/stereo and all sample types; synthetic VTX files from an own LH5 encoder and the four repository files decoded independently.",
         "Degenerate parameters (player_frequency 0, rate < player_frequency) outside the judged domain.", "DESIGN.md §3 C20"),
}

ALL = ["C%02d" % i for i in range(1, 21)]

def main():
    checks = []
    for pid in ALL:
        if pid not in CHECKS:
            continue
        cat, tech, text, note, ref = CHECKS[pid]
        checks.append({
            "property_id": pid,
            "quick_cmd": "./check %s quick" % pid,
            "thorough_cmd": "./check %s thorough" % pid,
            "evidence_file": "evidence/%s.json" % pid,
            "replay_cmd_template": "./check %s --replay {path}" % pid,
            "engine": "vcheck",
            "level_claimed": {"category": cat, "text": text, "design_ref": ref},
            "level_note": note,
            "technique": tech,
        })
    na = [{"property_id": p, "reason": "not claimed yet: its runtime monitor is still under construction (the family applies; see DESIGN.md §6)"} for p in ALL if p not in CHECKS]
    m = {
        "version": 1,
        "setup_cmd": "cd harness && CARGO_NET_OFFLINE=true cargo build --release --offline && CARGO_NET_OFFLINE=true cargo build --profile checked --offline",
        "hooks": {
            "guard": "cargo feature `verif` of rustzx-core (default off)",
            "enable": "harness/Cargo.toml depends on ../../repo/rustzx-core by path with features [\"full\",\"verif\"]; every ./check run does `cargo build --release --offline`, recompiling /repo's working tree",
            "baseline_off_cmd": "cd /repo && cargo test --workspace --no-fail-fast --offline",
            "source_commits": HOOK_COMMITS,
            "add_only": True,
        },
        "engines": [{
            "name": "vcheck",
            "path": "harness/",
            "serves_properties": [c["property_id"] for c in checks],
            "kind_free_text": "Rust harness linking the real rustzx crates by path; per-property runtime monitors (reference models, offline log checkers, invariants at hooks) driven by seeded workload generators on 16 threads",
        }],
        "checks": checks,
        "notes": "Runtime monitoring only. ./check <id> <tier> [--replay file]; exit 0 held / 1 VIOLATION / 2 INCONCLUSIVE. known_findings.json lists unrepaired genuine defects (matched by narrow key) and fixed ones. VERIF_SEED selects the PRNG seed.",
        "not_applicable": na,
    }
    json.dump(m, open(os.path.join(ROOT, "MANIFEST.json"), "w"), indent=1)
    try:
        import jsonschema
        jsonschema.validate(m, json.load(open("/root/.vp/MANIFEST.schema.json")))
        print("MANIFEST.json valid;", len(checks), "checks")
    except ImportError:
        print("jsonschema unavailable; written without validation")

if __name__ == "__main__":
    main()
