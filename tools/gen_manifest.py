#!/usr/bin/env python3
"""Regenerates /verif/MANIFEST.json from the table below and validates it against the schema."""
import json, os, sys
ROOT = os.path.dirname(os.path.dirname(os.path.abspath(__file__)))
HOOK_COMMITS = ["b01aa39"]

# id -> (category, technique, level text, level note, design ref)
ZNOTE = "Trusted base: the reference model harness/src/refz80.rs (written from the Zilog manual / Sean Young / boo_boo MEMPTR / Patrik Rak Q / FUSE contention docs, sharing no code with rustzx); every run first re-qualifies it on z80full+z80memptr+z80ccf (thorough: + all 67 ZEXALL groups) and on an independently typed documented T-state table, and is INCONCLUSIVE if that fails. Don't-cares: F3/F5 and Q after a repeating block iteration at xxFF / followed by SCF/CCF, address during interrupt acknowledge, NMI directly after EI/DI or inside a prefix chain."
CHECKS = {
 "C01": ("exploration", "runtime monitoring: differential execution of the real Z80 core on a logging bus against an independent executable reference model",
         "Every one of the 1780 instruction encodings from 20k (thorough 1M) biased-random states each + SCF/CCF follower exposing Q, exhaustive 8-bit ALU/rotate/DAA operand sweeps, all (n,A) for the MEMPTR-setting I/O forms, millions of random instruction sequences with state carried across; registers, all flag bits, MEMPTR, IFF/IM and the ordered access list compared after every step (1.4e8 steps quick).",
         ZNOTE, "DESIGN.md §2.1, §3 C01"),
 "C02": ("exploration", "runtime monitoring: differential execution with scripted INT/NMI line levels + directed state enumeration + trace assertion",
         "Programs dense in EI/DI/HALT/RETI/RETN/IM/prefix chains under random INT/NMI schedules sampled at every boundary (1.3e8 steps quick) plus exhaustive enumeration of (pre-state x IFF1 x IFF2 x IM x lines x next instruction); acceptance, IFFs, pushed PC, vectoring, R and HALT release compared with the reference after every step.",
         ZNOTE, "DESIGN.md §3 C02"),
 "C03": ("exploration", "runtime monitoring: canonical bus-cycle log of every emulate() call compared with the reference cycle list",
         "The full cycle list (M1/read/write/delay-with-address/ack/port, in order, with addresses and data) of every step of the C01/C02 streams is compared with the reference's; >2700 distinct (encoding, taken/repeat, interrupt kind) variants per quick run, all timing variants required by a coverage floor.",
         ZNOTE, "DESIGN.md §3 C03"),
 "C04": ("exploration", "runtime monitoring: frame-clock hook around single-stepped instructions vs the statement's contention model applied to reference bus cycles",
         "One single-stepped instruction on the full 48K/128K machine per case, all encodings with code/operands/stack/I/port high byte in contended, uncontended, bank-dependent and window-border memory, 128K bank switched by emulated OUT, interrupt entry included; end clock must equal the model exactly (3.7e6 cases quick). Thorough: every start T-state of the frame for 80 representative cycle shapes x 4 placements x both machines (exhaustive over that sub-space).",
         ZNOTE + " Contention model typed from the statement.", "DESIGN.md §3 C04"),
 "C05": ("exploration", "runtime monitoring: conservation invariant checked after every single step + counting-loop accounting through the public API + INT window sweep + once-per-frame counter",
         "A: sum of independently predicted step durations == wraps*FRAME+clock-clock0 after every step of random programs crossing a frame end; B: counting loop cost vs k*n*FRAME under emulate_frames(FrameCount(n)); C: INT accepted iff boundary T in [0,32) at every T around the frame start for IM0/1/2; D: IM2 handler of 43..407 T runs exactly once per frame under 5 main-loop kinds.",
         ZNOTE + " Step durations = reference cycles + contention model (validated by C04).", "DESIGN.md §3 C05"),
 "C17": ("exploration", "runtime monitoring: history + executable held-controls model, ports read by single-stepped IN",
         "Random event histories over every control of every input source; after every event all input ports are read through emulated IN instructions and compared with a model written from the statement. Held on the histories observed (10^5 events quick, 10^7 thorough).",
         "Trusts the keyboard matrix / Sinclair / compound tables typed into the harness from the statement; single-stepping uses the public DebugInterface; known finding sinclair2-down-maps-to-N2 is matched only by its exact signature.",
         "DESIGN.md §3 C17"),
}

ALL = ["C%02d" % i for i in range(1, 21)]

def main():
    checks = []
    for pid in ALL:
        if pid not in CHECKS:
            continue
        cat, tech, text, note, ref = CHECKS[pid]
        checks.append({
            "property_id": pid,
            "quick_cmd": "./check %s quick" % pid,
            "thorough_cmd": "./check %s thorough" % pid,
            "evidence_file": "evidence/%s.json" % pid,
            "replay_cmd_template": "./check %s --replay {path}" % pid,
            "engine": "vcheck",
            "level_claimed": {"category": cat, "text": text, "design_ref": ref},
            "level_note": note,
            "technique": tech,
        })
    na = [{"property_id": p, "reason": "not claimed yet: its runtime monitor is still under construction (the family applies; see DESIGN.md §6)"} for p in ALL if p not in CHECKS]
    m = {
        "version": 1,
        "setup_cmd": "cd harness && CARGO_NET_OFFLINE=true cargo build --release --offline && CARGO_NET_OFFLINE=true cargo build --profile checked --offline",
        "hooks": {
            "guard": "cargo feature `verif` of rustzx-core (default off)",
            "enable": "harness/Cargo.toml depends on ../../repo/rustzx-core by path with features [\"full\",\"verif\"]; every ./check run does `cargo build --release --offline`, recompiling /repo's working tree",
            "baseline_off_cmd": "cd /repo && cargo test --workspace --no-fail-fast --offline",
            "source_commits": HOOK_COMMITS,
            "add_only": True,
        },
        "engines": [{
            "name": "vcheck",
            "path": "harness/",
            "serves_properties": [c["property_id"] for c in checks],
            "kind_free_text": "Rust harness linking the real rustzx crates by path; per-property runtime monitors (reference models, offline log checkers, invariants at hooks) driven by seeded workload generators on 16 threads",
        }],
        "checks": checks,
        "notes": "Runtime monitoring only. ./check <id> <tier> [--replay file]; exit 0 held / 1 VIOLATION / 2 INCONCLUSIVE. known_findings.json lists unrepaired genuine defects (matched by narrow key) and fixed ones. VERIF_SEED selects the PRNG seed.",
        "not_applicable": na,
    }
    json.dump(m, open(os.path.join(ROOT, "MANIFEST.json"), "w"), indent=1)
    try:
        import jsonschema
        jsonschema.validate(m, json.load(open("/root/.vp/MANIFEST.schema.json")))
        print("MANIFEST.json valid;", len(checks), "checks")
    except ImportError:
        print("jsonschema unavailable; written without validation")

if __name__ == "__main__":
    main()
