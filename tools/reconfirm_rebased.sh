#!/bin/bash
# tools/reconfirm_rebased.sh <seed-dir-name> <rebased.diff> '<demo cmd>' [old-base]
# Re-confirms a stored seed whose patch had to be rebased after a later fix: commit in /repo:
# demo passes on the current tree, fails with the rebased patch, pinned suite passes with it.
# On success the stored patch.diff is replaced (the old one kept as patch.orig-base-<old>.diff).
set -u
S=$1; P=$(readlink -f $2); DEMO=$3; OLD=${4:-7677b72}
D=/verif/seeded/$S; WT=/tmp/rebase_wt
[ -d $WT ] || git -C /repo worktree add -q --detach $WT HEAD
export CARGO_TARGET_DIR=/tmp/rebase_target CARGO_NET_OFFLINE=true
cd $WT && git checkout -q --detach $(git -C /repo rev-parse HEAD) && git checkout -q -- . && git clean -fdq
FILES=$(cd $D && find . -type f ! -name 'patch*.diff' ! -name '*.md' ! -name '*.json' ! -name '*.txt' ! -name '.*')
for f in $FILES; do mkdir -p "$WT/$(dirname $f)"; cp "$D/$f" "$WT/$f"; done
bash -c "$DEMO" >/tmp/rebase_clean.log 2>&1; RC_CLEAN=$?
git apply $P || { echo "RECONFIRM $S: rebased patch does not apply"; exit 2; }
bash -c "$DEMO" >/tmp/rebase_patched.log 2>&1; RC_PATCHED=$?
for f in $FILES; do rm -f "$WT/$f"; done
cargo test --workspace --no-fail-fast --offline >/tmp/rebase_suite.log 2>&1
PASSED=$(grep -E "^test result" /tmp/rebase_suite.log | awk '{s+=$4} END {print s}')
FAILED=$(grep -E "^test result" /tmp/rebase_suite.log | awk '{s+=$6} END {print s}')
git checkout -q -- .; git clean -fdq
echo "RECONFIRM $S: demo clean rc=$RC_CLEAN, demo patched rc=$RC_PATCHED, suite passed=$PASSED failed=$FAILED"
if [ $RC_CLEAN -eq 0 ] && [ $RC_PATCHED -ne 0 ] && [ "$PASSED" = "31" ] && [ "$FAILED" = "0" ]; then
  [ -f $D/patch.orig-base-$OLD.diff ] || cp $D/patch.diff $D/patch.orig-base-$OLD.diff
  cp $P $D/patch.diff
  echo "RECONFIRM $S: OK"
else
  echo "RECONFIRM $S: NOT CONFIRMED"
fi
