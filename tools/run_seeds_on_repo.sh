#!/bin/bash
# tools/run_seeds_on_repo.sh [ids...] – applies each stored seeded change to /repo itself, runs the
# owning quick check(s) through ./check, records the outcome in seeded/<id>/check_result.txt and
# reverts /repo (git checkout -- .). /repo must be clean.
cd /verif
[ -n "$(git -C /repo status --porcelain --untracked-files=no)" ] && { echo "/repo is not clean"; exit 2; }
IDS="$@"; [ -z "$IDS" ] && IDS=$(ls seeded)
for id in $IDS; do
  d=seeded/$id; [ -f $d/patch.diff ] || continue
  checks=$(python3 -c "import json;m=json.load(open('$d/meta.json'));print(' '.join(m['caught_by'] or [m['breaks_property']]))" 2>/dev/null || echo $id)
  git -C /repo apply /verif/$d/patch.diff || { echo "$id: patch does not apply" | tee $d/check_result.txt; continue; }
  : > $d/check_result.txt
  for c in $checks; do
    VERIF_ROOT=/tmp/vroot_seedrun ./check $c quick > /tmp/seedrun_$id_$c.log 2>&1; rc=$?
    echo "$id with patch applied to /repo: ./check $c quick -> exit $rc; $(grep -m1 '^  key' /tmp/seedrun_$id_$c.log | cut -c1-200)" | tee -a $d/check_result.txt
  done
  git -C /repo checkout -- .
done
