#!/usr/bin/env python3
"""Rewrites the table of DESIGN.md §9 from seeded/*/meta.json."""
import json, os
ROOT = os.path.dirname(os.path.dirname(os.path.abspath(__file__)))
p = os.path.join(ROOT, 'DESIGN.md')
s = open(p).read()
head = "| seed | change | needs | caught by | first key / history |\n|---|---|---|---|---|\n"
a = s.index(head) + len(head)
b = s.index("\n\n", a)
rows = []
for sid in sorted(os.listdir(os.path.join(ROOT, 'seeded'))):
    mp = os.path.join(ROOT, 'seeded', sid, 'meta.json')
    if not os.path.exists(mp):
        continue
    m = json.load(open(mp))
    rows.append("| %s | %s | %s | %s | %s |" % (sid, m['change'].replace('|', '/'), m['needs_to_manifest'].replace('|', '/'), (", ".join(m['caught_by']) or "– (not decided)"), m['first_violation_key'].replace('|', '/')))
s = s[:a] + "\n".join(rows) + s[b:]
open(p, 'w').write(s)
print(len(rows), "rows")
