#!/bin/bash
# selftest/run_patch.sh <patch.diff> <check-id>[,<check-id>...] [tier]
# Like run.sh but applies a unified diff (a seeded change) to the scratch copy of /repo.
set -u
ROOT="$(cd "$(dirname "$0")/.." && pwd)"
PATCH="$(readlink -f "$1")"; IDS="$2"; TIER="${3:-quick}"
W=/tmp/vst/p_$$
mkdir -p $W/verif /tmp/vst/target
rsync -a --exclude target --exclude .git /repo/ $W/repo/
rsync -a --exclude target "$ROOT/harness" $W/verif/
cp "$ROOT/known_findings.json" $W/verif/
( cd $W/repo && git init -q . >/dev/null 2>&1; git apply --whitespace=nowarn "$PATCH" ) || ( cd $W/repo && patch -p1 -s < "$PATCH" ) || { echo "PATCH $PATCH: cannot apply"; rm -rf $W; exit 3; }
cd $W/verif/harness
export CARGO_TARGET_DIR=/tmp/vst/target CARGO_NET_OFFLINE=true
exec 8>/tmp/vst/lock; flock 8
if ! cargo build --release --offline >$W/build.log 2>&1; then
  echo "PATCH $(basename $(dirname $PATCH)): does not compile with the harness"; tail -20 $W/build.log; rm -rf $W; exit 3
fi
cp /tmp/vst/target/release/vcheck $W/vcheck
case "$IDS" in *C15*)
  cargo build --profile checked --offline >>$W/build.log 2>&1
  mkdir -p $W/verif/harness/target/checked && cp /tmp/vst/target/checked/vcheck $W/verif/harness/target/checked/vcheck ;;
esac
flock -u 8
for ID in ${IDS//,/ }; do
  VERIF_ROOT=$W/verif VERIF_REPO=$W/repo $W/vcheck "$ID" "$TIER" >$W/out.log 2>&1
  RC=$?
  if [ $RC -eq 1 ]; then echo "PATCH $(basename $(dirname $PATCH))/$ID $TIER: CAUGHT ($(grep -c '^VIOLATION' $W/out.log) keys) $(grep -m1 '^  key' $W/out.log | cut -c1-160)";
  else echo "PATCH $(basename $(dirname $PATCH))/$ID $TIER: MISSED (exit $RC) $(tail -1 $W/out.log)"; fi
done
rm -rf $W
exit 0
