#!/bin/bash
# runs every mutant whose name starts with the given prefix (e.g. c01) against its owning check
cd "$(dirname "$0")/.."
for m in $(python3 selftest/mutants.py --list | grep "^${1:-c}"); do
  id="C${m:1:2}"
  selftest/run.sh $m $id ${2:-quick} 2>&1 | grep SELFTEST
done
