#!/usr/bin/env python3
"""Self-test of the C10/C11/C12 monitors: apply one small mutation at a time to a scratch copy of
rustzx ($WB/repo_mut, $WB/repo is re-pointed at it), rebuild the harness in $WB/verif/harness against it and
run the quick tier of the owning monitor; expect exit code 1. Never touches /repo or /verif.
Afterwards: restore the symlink ($WB/repo -> /repo) and `cargo clean -p rustzx-core` in the harness (cargo
fingerprints path dependencies by mtime and would otherwise keep the last mutant).
Usage: WB=/tmp/wb_x python3 selftest_c10_c12_mutants.py [name-substring ...]"""
import os, shutil, subprocess, sys, time

WB = os.environ.get("WB", "/tmp/wb_tape")  # private copy made as described in BUILDER_BRIEF.md
MUT = f"{WB}/repo_mut"
FL = "rustzx-core/src/emulator/fastload/tap.rs"
TP = "rustzx-core/src/zx/tape/tap.rs"

LEN0_BLOCK = """            if length == 0 {
                acc = parity_acc;
                // consider we CAN have parity error
                result_flags = Some(0);
                // if checksum correct set carry to prevent error
                if acc == 0 {
                    result_flags = Some(FLAG_CARRY);
                }
                break 'loader;
            }
"""

MUTANTS = [
    # (name, check, file, [(old, new), ...])
    ("c10a-parity-skips-flag-byte", "C10", FL, [("            parity_acc ^= current_byte;\n", "            if (f & FLAG_ZERO) != 0 {\n                parity_acc ^= current_byte;\n            }\n")]),
    ("c10b-length0-test-after-store", "C10", FL, [
        ("            // no bytes left, set A to parity accumulator (works as in ROM)\n            // and check parity last time\n" + LEN0_BLOCK, ""),
        ("            // move destination pointer and decrease count of remaining bytes\n", LEN0_BLOCK + "            // move destination pointer and decrease count of remaining bytes\n"),
    ]),
    ("c10c-verify-compare-inverted", "C10", FL, [("                acc = emulator.controller.memory.read(dest) ^ current_byte;\n                if acc != 0 {", "                acc = emulator.controller.memory.read(dest) ^ current_byte;\n                if acc == 0 {")]),
    ("c10d-short-block-reports-carry", "C10", FL, [("result_flags = Some(FLAG_ZERO);", "result_flags = Some(FLAG_ZERO | FLAG_CARRY);")]),
    ("c10e-refill-one-byte-short", "C10", TP, [("(block_size - self.buffer_offset - BUFFER_SIZE).min(BUFFER_SIZE);", "(block_size - self.buffer_offset - BUFFER_SIZE).min(BUFFER_SIZE - 1);")]),
    ("c10f-leftovers-not-skipped", "C10", TP, [("        while self.next_block_byte()?.is_some() {}\n", "")]),
    ("c10g-flag-check-ignores-d-ff", "C10", FL, [("    let mut acc = emulator.cpu.regs.get_acc();\n", "    let mut acc = emulator.cpu.regs.get_acc();\n    f &= !FLAG_ZERO;\n")]),
    ("c11a-pilot-data-3222", "C11", TP, [("const PILOT_PULSES_DATA: usize = 3223;", "const PILOT_PULSES_DATA: usize = 3222;")]),
    ("c11b-bit-one-1700", "C11", TP, [("const BIT_ONE_LENGTH: usize = 1710;", "const BIT_ONE_LENGTH: usize = 1700;")]),
    ("c11c-lsb-first", "C11", TP, [("TapeState::NextBit { mask: 0x80 }", "TapeState::NextBit { mask: 0x01 }"), ("                    mask >>= 1;", "                    mask <<= 1;")]),
    ("c11d-sync-swapped", "C11", TP, [("const SYNC1_LENGTH: usize = 667;", "const SYNC1_LENGTH: usize = 735;"), ("const SYNC2_LENGTH: usize = 735;", "const SYNC2_LENGTH: usize = 667;")]),
    ("c11e-pause-35k", "C11", TP, [("const PAUSE_LENGTH: usize = 3_500_000;", "const PAUSE_LENGTH: usize = 35_000;")]),
    ("c11f-delay-shorter-than-nominal", "C11", TP, [("        Ok(())\n    }\n\n    fn stop(&mut self) {", "        self.delay = self.delay.saturating_sub(clocks);\n        Ok(())\n    }\n\n    fn stop(&mut self) {")]),
    ("c11g-pilot-header-8064", "C11", TP, [("const PILOT_PULSES_HEADER: usize = 8063;", "const PILOT_PULSES_HEADER: usize = 8064;")]),
    ("c12a-play-always-restarts", "C12", TP, [("                self.state = self.prev_state;", "                self.state = TapeState::Play;")]),
    ("c12b-rewind-keeps-tape-ended", "C12", TP, [("        self.tape_ended = false;\n        Ok(())", "        Ok(())")]),
    ("c12c-stop-clears-delay", "C12", TP, [("        self.prev_state = state;\n        self.state = TapeState::Stop;", "        self.prev_state = state;\n        self.delay = 0;\n        self.state = TapeState::Stop;")]),
    ("c12d-end-of-tape-does-not-rewind", "C12", TP, [("                    self.rewind()?;\n", "")]),
    ("c12e-stop-does-not-stop", "C12", TP, [("        self.prev_state = state;\n        self.state = TapeState::Stop;", "        self.prev_state = state;")]),
]


def sh(cmd, **kw):
    return subprocess.run(cmd, shell=True, capture_output=True, text=True, **kw)


def main():
    only = sys.argv[1:]
    if not os.path.isdir(MUT):
        sh(f"mkdir -p {MUT} && cd /repo && tar --exclude=./target --exclude=./.git -cf - . | (cd {MUT} && tar xf -)")
    link = f"{WB}/repo"
    if os.path.islink(link):
        os.unlink(link)
    os.symlink(MUT, link)
    results = []
    for name, check, file, edits in MUTANTS:
        if only and not any(o in name for o in only):
            continue
        for f in (FL, TP):
            shutil.copyfile(f"/repo/{f}", f"{MUT}/{f}")
        s = open(f"{MUT}/{file}").read()
        ok = True
        for old, new in edits:
            if old not in s:
                ok = False
                break
            s = s.replace(old, new)
        if not ok:
            results.append((name, check, "PATTERN-NOT-FOUND", ""))
            print(name, "pattern not found", flush=True)
            continue
        open(f"{MUT}/{file}", "w").write(s)
        b = sh(f"cd {WB}/verif/harness && CARGO_NET_OFFLINE=true cargo build --release --offline 2>&1 | tail -5")
        if "Finished" not in b.stdout:
            results.append((name, check, "BUILD-FAILED", b.stdout[-400:]))
            print(name, "build failed", b.stdout[-400:], flush=True)
            continue
        t = time.time()
        r = sh(f"cd {WB}/verif && ./harness/target/release/vcheck {check} quick")
        keys = [l.strip()[:160] for l in r.stdout.splitlines() if l.strip().startswith("key=")]
        results.append((name, check, r.returncode, keys[:4]))
        print(f"{name}: {check} exit={r.returncode} ({time.time()-t:.1f}s) {keys[:3]}", flush=True)
    for f in (FL, TP):
        shutil.copyfile(f"/repo/{f}", f"{MUT}/{f}")
    print("SUMMARY")
    for r in results:
        print(" ", r[0], r[1], "CAUGHT" if r[2] == 1 else f"MISSED({r[2]})")


main()
