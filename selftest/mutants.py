#!/usr/bin/env python3
"""Small realistic mutations of rustzx used to show that each monitor fires (DESIGN.md App. A).
usage: mutants.py <name> <repo-copy>   |   mutants.py --list"""
import sys, os

# name -> (file, old, new)
M = {
 # ---- C01
 "c01_xor_sets_h": ("rustzx-z80/src/opcode/internal_alu.rs",
    "            result = acc ^ operand;\n            flags |= PARITY_TABLE[result as usize];",
    "            result = acc ^ operand;\n            flags |= PARITY_TABLE[result as usize];\n            flags |= FLAG_HALF_CARRY;"),
 "c01_daa_ge": ("rustzx-z80/src/opcode/group_nonprefixed.rs", "if (acc > 0x99) ||", "if (acc >= 0x99) ||"),
 "c01_bit_hl_xy_from_data": ("rustzx-z80/src/opcode/group_bits.rs",
    "flags |= ((cpu.regs.get_mem_ptr() >> 8) as u8) & (FLAG_F3 | FLAG_F5);", "flags |= data & (FLAG_F3 | FLAG_F5);"),
 "c01_inc_r_bit7": ("rustzx-z80/src/registers.rs", "let r = self.r.wrapping_add(1) & 0x7F | self.r & 0x80;", "let r = self.r.wrapping_add(1) & 0x7F;"),
 "c01_out_c_0": ("rustzx-z80/src/opcode/group_extended.rs", "                        None => 0,\n                    };\n                    bus.write_io", "                        None => 0xFF,\n                    };\n                    bus.write_io"),
 "c01_ind_memptr": ("rustzx-z80/src/opcode/internal_block.rs",
    "            cpu.regs.dec_reg_16(RegName16::HL);\n            cpu.regs.set_mem_ptr(cpu.regs.get_bc().wrapping_sub(1));\n        }\n    };\n    let b = cpu.regs.dec_reg_8(RegName8::B);",
    "            cpu.regs.dec_reg_16(RegName16::HL);\n            cpu.regs.set_mem_ptr(cpu.regs.get_bc().wrapping_add(1));\n        }\n    };\n    let b = cpu.regs.dec_reg_8(RegName8::B);"),
 "c01_scf_ignores_q": ("rustzx-z80/src/opcode/group_nonprefixed.rs",
    "                    flags |= ((cpu.regs.get_last_q() ^ cpu.regs.get_flags()) | data)\n                        & (FLAG_F3 | FLAG_F5);\n                    flags |= FLAG_CARRY;",
    "                    flags |= data & (FLAG_F3 | FLAG_F5);\n                    flags |= FLAG_CARRY;"),
 "c01_ddcb_no_regcopy": ("rustzx-z80/src/opcode/group_bits.rs", "            if opcode.x != U2::N1 {\n                cpu.regs.set_reg_8(reg, result);", "            if opcode.x != U2::N1 && false {\n                cpu.regs.set_reg_8(reg, result);"),
 # ---- C02
 "c02_ei_no_skip": ("rustzx-z80/src/opcode/group_nonprefixed.rs",
    "                    // skip interrupt check and set flip-flops\n                    cpu.skip_interrupt = true;", "                    // skip interrupt check and set flip-flops\n                    cpu.skip_interrupt = false;"),
 "c02_prefix_no_skip": ("rustzx-z80/src/cpu.rs", "                            self.active_prefix = prefix_lo;\n                            self.skip_interrupt = true;", "                            self.active_prefix = prefix_lo;"),
 "c02_nmi_clears_iff2": ("rustzx-z80/src/cpu.rs", "            bus.wait_loop(self.regs.get_pc(), 5);\n            self.regs.set_iff1(false);", "            bus.wait_loop(self.regs.get_pc(), 5);\n            self.regs.set_iff1(false);\n            self.regs.set_iff2(false);"),
 "c02_halt_no_incpc": ("rustzx-z80/src/cpu.rs", "            self.regs.clear_q();\n            // Release halt line on the bus\n            if self.halted {\n                bus.halt(false);\n                self.halted = false;\n                self.regs.inc_pc();\n            }\n            self.regs.inc_r();",
    "            self.regs.clear_q();\n            // Release halt line on the bus\n            if self.halted {\n                bus.halt(false);\n                self.halted = false;\n            }\n            self.regs.inc_r();"),
 "c02_im2_vector_low0": ("rustzx-z80/src/cpu.rs", "| ((bus.read_interrupt() as u16) & 0x00FF);", "| ((bus.read_interrupt() as u16) & 0x00FE);"),
 "c02_retn_no_iff": ("rustzx-z80/src/opcode/group_extended.rs", "                    cpu.regs.set_iff1(iff2);\n", "                    if opcode.y == U3::N1 { cpu.regs.set_iff1(iff2); }\n"),
 # ---- C03
 "c03_jr_4": ("rustzx-z80/src/opcode/group_nonprefixed.rs", "                    let offset = bus.read(cpu.regs.get_pc(), 3) as i8;\n                    bus.wait_loop(cpu.regs.get_pc(), 5);\n                    cpu.regs.shift_pc(offset);\n                    cpu.regs.inc_pc();",
    "                    let offset = bus.read(cpu.regs.get_pc(), 3) as i8;\n                    bus.wait_loop(cpu.regs.get_pc(), 4);\n                    cpu.regs.shift_pc(offset);\n                    cpu.regs.inc_pc();"),
 "c03_djnz_delay_pc": ("rustzx-z80/src/opcode/group_nonprefixed.rs", "                U3::N2 => {\n                    bus.wait_no_mreq(cpu.regs.get_ir(), 1);", "                U3::N2 => {\n                    bus.wait_no_mreq(cpu.regs.get_pc(), 1);"),
 "c03_ld_ixd_n_3": ("rustzx-z80/src/opcode/group_nonprefixed.rs", "                    bus.wait_loop(cpu.regs.get_pc(), 2);\n                }\n            }\n            cpu.regs.inc_pc();", "                    bus.wait_loop(cpu.regs.get_pc(), 3);\n                }\n            }\n            cpu.regs.inc_pc();"),
 "c03_otdr_delay_hl": ("rustzx-z80/src/opcode/group_extended.rs", "                            let m = execute_outi_outd(cpu, bus, BlockDir::Dec);\n                            if cpu.regs.get_reg_8(RegName8::B) != 0 {\n                                bus.wait_loop(cpu.regs.get_bc(), 5);",
    "                            let m = execute_outi_outd(cpu, bus, BlockDir::Dec);\n                            if cpu.regs.get_reg_8(RegName8::B) != 0 {\n                                bus.wait_loop(cpu.regs.get_hl(), 5);"),
 "c03_int_6": ("rustzx-z80/src/cpu.rs", "                    // 7 (acknowledge cycle) + 3 + 3 = 13 clocks\n                    bus.wait_internal(7);", "                    // 7 (acknowledge cycle) + 3 + 3 = 13 clocks\n                    bus.wait_internal(6);"),
 "c03_rld_3": ("rustzx-z80/src/opcode/group_extended.rs", "                            mem = ((mem << 4) & 0xF0) | acc_lo;\n                            cpu.regs.set_acc(acc);\n                            bus.wait_loop(cpu.regs.get_hl(), 4);", "                            mem = ((mem << 4) & 0xF0) | acc_lo;\n                            cpu.regs.set_acc(acc);\n                            bus.wait_loop(cpu.regs.get_hl(), 3);"),
 # ---- C04
 "c04_pattern_rotated": ("rustzx-core/src/zx/machine/mod.rs", ".clocks_row(24, 128, 24, 48)\n            .lines(48, 192, 48, 24)\n            .contention([6, 5, 4, 3, 2, 1, 0, 0], 1)", ".clocks_row(24, 128, 24, 48)\n            .lines(48, 192, 48, 24)\n            .contention([5, 4, 3, 2, 1, 0, 0, 6], 1)"),
 "c04_origin_plus1": ("rustzx-core/src/zx/machine/mod.rs", "let clocks_trough_line = (clocks - (specs.clocks_first_pixel - 1)) % specs.clocks_line;", "let clocks_trough_line = (clocks - specs.clocks_first_pixel) % specs.clocks_line;"),
 "c04_row_gt": ("rustzx-core/src/zx/machine/mod.rs", "if clocks_trough_line >= specs.clocks_screen_row {", "if clocks_trough_line > specs.clocks_screen_row {"),
 "c04_banks_4567": ("rustzx-core/src/zx/machine/mod.rs", "let contended_pages = [1, 3, 5, 7];", "let contended_pages = [4, 5, 6, 7];"),
 "c04_port_inverted": ("rustzx-core/src/zx/machine/mod.rs", "(port & 0x0001) == 0\n", "(port & 0x0001) != 0\n"),
 "c04_io_last_drops_c1": ("rustzx-core/src/zx/controller.rs", "            self.do_contention_and_wait(1);\n            self.do_contention_and_wait(1);\n            self.do_contention();", "            self.do_contention_and_wait(2);\n            self.do_contention();"),
 "c04_no_mreq_uncontended": ("rustzx-core/src/zx/controller.rs", "        // only for 48 K!\n        self.wait_mreq(addr, clk);", "        // only for 48 K!\n        let _ = addr;\n        self.wait_internal(clk);"),
 "c04_last_line_off": ("rustzx-core/src/zx/machine/mod.rs", "|| (clocks >= (specs.clocks_first_pixel - 1) + specs.lines_screen * specs.clocks_line)", "|| (clocks >= (specs.clocks_first_pixel - 1) + (specs.lines_screen - 1) * specs.clocks_line)"),
 # ---- C05
 "c05_new_frame_zero": ("rustzx-core/src/zx/controller.rs", "        self.frame_clocks -= self.machine.specs().clocks_frame;", "        self.frame_clocks = 0;"),
 "c05_vsync_23": ("rustzx-core/src/zx/machine/mod.rs", ".lines(48, 192, 48, 24)", ".lines(48, 192, 48, 23)"),
 "c05_int_len_36": ("rustzx-core/src/zx/machine/mod.rs", ".contention([6, 5, 4, 3, 2, 1, 0, 0], 1)\n            .interrupt_length(32)\n            .rom_pages(1)", ".contention([6, 5, 4, 3, 2, 1, 0, 0], 1)\n            .interrupt_length(36)\n            .rom_pages(1)"),
 "c05_int_le": ("rustzx-core/src/zx/controller.rs", "            < self.machine.specs().interrupt_length", "            <= self.machine.specs().interrupt_length"),
 "c05_frame_gt": ("rustzx-core/src/zx/controller.rs", "        if self.frame_clocks >= self.machine.specs().clocks_frame {", "        if self.frame_clocks > self.machine.specs().clocks_frame {"),
 "c05_passed_frames_double": ("rustzx-core/src/zx/controller.rs", "            self.new_frame();\n            self.passed_frames += 1;", "            self.new_frame();\n            self.passed_frames += 1 + (self.frame_clocks == 3) as usize;"),
 # ---- C06
 "c06_no_lock": ("rustzx-core/src/zx/controller.rs", "        if val & 0x20 != 0 {\n            self.paging_enabled = false;\n        }", "        if val & 0x20 != 0 && val & 0x40 != 0 {\n            self.paging_enabled = false;\n        }"),
 "c06_bank_mask_3": ("rustzx-core/src/zx/controller.rs", "self.memory.remap(3, Page::Ram(val & 0x07));", "self.memory.remap(3, Page::Ram(val & 0x03));"),
 "c06_rom_bit3": ("rustzx-core/src/zx/controller.rs", "self.memory.remap(0, Page::Rom((val >> 4) & 0x01));", "self.memory.remap(0, Page::Rom((val >> 3) & 0x01));"),
 "c06_rom_writable": ("rustzx-core/src/zx/memory.rs", "        if let Page::Ram(page) = page {\n            self.ram[(page as usize) * PAGE_SIZE + offset] = value;\n        }", "        match page {\n            Page::Ram(page) => self.ram[(page as usize) * PAGE_SIZE + offset] = value,\n            Page::Rom(page) => self.rom[(page as usize) * PAGE_SIZE + offset] = value,\n        }"),
 "c06_latch_mask": ("rustzx-core/src/zx/controller.rs", "} else if (port & 0x8002 == 0) && (self.machine == ZXMachine::Sinclair128K) {", "} else if (port & 0x8000 == 0) && (self.machine == ZXMachine::Sinclair128K) {"),
 "c06_lock_before_apply": ("rustzx-core/src/zx/controller.rs", "        if !self.paging_enabled {\n            return;\n        }\n        self.current_port_7ffd = val;", "        if !self.paging_enabled || val & 0x20 != 0 && val & 0x07 == 0x06 {\n            self.paging_enabled = false;\n            return;\n        }\n        self.current_port_7ffd = val;"),
 # ---- C07
 "c07_ay_read_mask": ("rustzx-core/src/zx/controller.rs", "        } else if port & 0xC002 == 0xC000 {\n            self.read_ay_port()", "        } else if port & 0xC000 == 0xC000 {\n            self.read_ay_port()"),
 "c07_ay_write_mask": ("rustzx-core/src/zx/controller.rs", "        } else if port & 0xC002 == 0x8000 {\n            self.write_ay_port(data);", "        } else if port & 0xC000 == 0x8000 {\n            self.write_ay_port(data);"),
 "c07_latch_mask": ("rustzx-core/src/zx/controller.rs", "} else if (port & 0x8002 == 0) && (self.machine == ZXMachine::Sinclair128K) {", "} else if (port & 0x8000 == 0) && (self.machine == ZXMachine::Sinclair128K) {"),
 "c07_kempston_mask": ("rustzx-core/src/zx/controller.rs", "self.kempston.is_some() && (port & 0x00E0 == 0)", "self.kempston.is_some() && (port & 0x0020 == 0)"),
 "c07_row_polarity": ("rustzx-core/src/zx/controller.rs", "if ((h >> n) & 0x01) == 0 {", "if ((h >> n) & 0x01) != 0 {"),
 "c07_ay_before_ext": ("rustzx-core/src/zx/controller.rs", "        let output = if let Some(value) = io_extender_value {\n            value\n        } else if port & 0x0001 == 0 {", "        let output = if port & 0xC002 == 0xC000 {\n            self.read_ay_port()\n        } else if let Some(value) = io_extender_value {\n            value\n        } else if port & 0x0001 == 0 {"),
 "c07_floating_in_border": ("rustzx-core/src/zx/controller.rs", "        if row < CANVAS_HEIGHT\n            && clocks < specs.clocks_screen_row - CLOCKS_PER_COL", "        if row < CANVAS_HEIGHT + 8\n            && clocks < specs.clocks_screen_row - CLOCKS_PER_COL"),
 "c07_mouse_ignores_a5": ("rustzx-core/src/zx/controller.rs", "self.mouse.is_some() && (port & 0x0121 == 0x0001)", "self.mouse.is_some() && (port & 0x0101 == 0x0001)"),
 "c07_ula_odd_too": ("rustzx-core/src/zx/controller.rs", "        } else if port & 0x0001 == 0 {\n            self.set_border_color", "        } else if port & 0x0001 == 0 || port & 0x00FF == 0x00FF {\n            self.set_border_color"),
 # ---- C08
 "c08_y_shuffle": ("rustzx-core/src/utils/screen.rs", "let y = (h & 0x07) | ((l >> 2) & 0x38) | ((h << 3) & 0xC0);", "let y = (h & 0x07) | ((l >> 2) & 0x38) | ((h << 3) & 0x40);"),
 "c08_flash_32": ("rustzx-core/src/zx/video/screen.rs", "if self.frame_counter % 16 == 0 {", "if self.frame_counter % 32 == 0 {"),
 "c08_switch_bank_ignored": ("rustzx-core/src/zx/video/screen.rs", "        if let Some(bank) = self.local_bank(bank) {\n            self.active_bank = bank;\n        }", "        if let Some(bank) = self.local_bank(bank) {\n            self.active_bank = bank & 0;\n        }"),
 "c08_refresh_skips_bank7": ("rustzx-core/src/zx/controller.rs", "                for (idx, data) in self.memory.ram_page_data(7).iter().enumerate() {\n                    self.screen.update(idx as u16, 7, *data);\n                }", ""),
 "c08_bright_bit7": ("rustzx-core/src/zx/video/colors.rs", "brightness: if (data & 0x40) != 0 {", "brightness: if (data & 0x80) != 0 {"),
 "c08_c000_no_update": ("rustzx-core/src/zx/controller.rs", "        if let Page::Ram(bank) = self.memory.get_page(addr) {\n            self.screen\n                .update(addr % PAGE_SIZE as u16, bank as usize, data);\n        }", "        if let Page::Ram(bank) = self.memory.get_page(addr) {\n            if addr < 0xC000 {\n                self.screen\n                    .update(addr % PAGE_SIZE as u16, bank as usize, data);\n            }\n        }"),
 "c08_read_origin_late": ("rustzx-core/src/zx/machine/mod.rs", ".clocks_first_pixel(14336)\n            .clocks_ula_read_shift(2)", ".clocks_first_pixel(14336)\n            .clocks_ula_read_shift(1000)"),
 "c08_scr_no_refresh": ("rustzx-core/src/emulator/screenshot/scr.rs", "    // Update screen\n    emulator.controller.refresh_memory_dependent_devices();", "    // Update screen"),
 "c08_fastload_memory_only": ("rustzx-core/src/emulator/fastload/tap.rs", "emulator.controller.write_internal(dest, current_byte);", "emulator.controller.memory.write(dest, current_byte);"),
 # ---- C09
 "c09_origin_line": ("rustzx-core/src/zx/video/border.rs", "            - 8 * BORDER_ROWS * specs.clocks_line", "            - (8 * BORDER_ROWS - 1) * specs.clocks_line"),
 "c09_pixels_per_clock": ("rustzx-core/src/zx/constants.rs", "pub(crate) const PIXELS_PER_CLOCK: usize = 2;", "pub(crate) const PIXELS_PER_CLOCK: usize = 1;"),
 "c09_color_mask": ("rustzx-core/src/zx/controller.rs", "self.set_border_color(self.frame_clocks, ZXColor::from_bits(data & 0x07));", "self.set_border_color(self.frame_clocks, ZXColor::from_bits(data & 0x03));"),
 "c09_stale_clock": ("rustzx-core/src/zx/controller.rs", "self.set_border_color(self.frame_clocks, ZXColor::from_bits(data & 0x07));", "self.set_border_color(self.frame_clocks.saturating_sub(40), ZXColor::from_bits(data & 0x07));"),
 "c09_origin_16t": ("rustzx-core/src/zx/video/border.rs", "            - BORDER_COLS * CLOCKS_PER_COL\n", "            - (BORDER_COLS + 4) * CLOCKS_PER_COL\n"),
 # ---- C16
 "c16_reset_counter_outside_loop": ("rustzx-core/src/emulator/mod.rs", "        loop {\n            // reset controller internal frame counter\n            self.controller.reset_frame_counter();", "        self.controller.reset_frame_counter();\n        loop {\n            // reset controller internal frame counter"),
 "c16_mixer_frame_only_with_sound": ("rustzx-core/src/emulator/mod.rs", "    pub fn set_sound(&mut self, value: bool) {\n        self.sound_enabled = value;", "    pub fn set_sound(&mut self, value: bool) {\n        self.sound_enabled = value;\n        if !value { self.controller.frame_clocks += 1; }"),
 "c16_asset_read_assumed_full": ("rustzx-core/src/host/io.rs", "                n => {\n                    let tmp = buf;\n                    buf = &mut tmp[n..];\n                }", "                _n => {\n                    let tmp = buf;\n                    let l = tmp.len();\n                    buf = &mut tmp[l..];\n                }"),
 "c16_breakpoint_drops_fastload": ("rustzx-core/src/emulator/mod.rs", "                    if events.contains(EmulationEvents::TAPE_FAST_LOAD_TRIGGER_DETECTED) {\n                        self.process_fast_load_event()?;\n                    }\n                    if events.contains(EmulationEvents::PC_BREAKPOINT) {", "                    if events.contains(EmulationEvents::TAPE_FAST_LOAD_TRIGGER_DETECTED) && !events.contains(EmulationEvents::PC_BREAKPOINT) {\n                        self.process_fast_load_event()?;\n                    }\n                    if events.contains(EmulationEvents::PC_BREAKPOINT) {"),
 "c16_max_mode_extra_frame": ("rustzx-core/src/emulator/mod.rs", "                        if self.controller.frames_count() != 0 {\n                            break 'cpu;", "                        if self.controller.frames_count() > 1 {\n                            break 'cpu;"),
 # ---- C18 / C19 / C20 (from the sound builder's list)
 "c18_tone_mask": ("aym/src/backends/precise.rs", "let period = period & 0xFFF;", "let period = period & 0xFF;"),
 "c18_noise_shift": ("aym/src/backends/precise.rs", "if self.noise_counter >= self.noise_period << 1 {", "if self.noise_counter >= self.noise_period {"),
 "c18_envelope_rows_swapped": ("aym/src/backends/precise.rs", "    [AymPrecise::slide_down, AymPrecise::slide_up],\n    [AymPrecise::slide_down, AymPrecise::hold_top],", "    [AymPrecise::slide_down, AymPrecise::hold_top],\n    [AymPrecise::slide_down, AymPrecise::slide_up],"),
 "c18_bca_pan": ("aym/src/backends/precise.rs", "AyMode::BCA => (1.0, 0.0, 0.5),", "AyMode::BCA => (0.0, 1.0, 0.5),"),
 "c18_volume_mask": ("aym/src/backends/precise.rs", "self.channels[index].volume = volume & 0x0F;", "self.channels[index].volume = volume & 0x07;"),
 "c18_select_reg_mask": ("rustzx-core/src/zx/sound/ay.rs", "self.current_reg = (reg & 0x0F) as usize;", "self.current_reg = reg as usize;"),
 "c18_readback_mask": ("rustzx-core/src/zx/sound/ay.rs", "        self.regs[self.current_reg]\n", "        self.regs[self.current_reg] & 0x7F\n"),
 "c19_spf_plus1": ("rustzx-core/src/zx/sound/mixer.rs", "        self.sample_rate / FPS\n", "        self.sample_rate / FPS + 1\n"),
 "c19_last_pos_not_reset": ("rustzx-core/src/zx/sound/mixer.rs", "        self.last_pos = 0;\n    }\n\n    pub fn pop", "    }\n\n    pub fn pop"),
 "c19_overflow_guard": ("rustzx-core/src/zx/sound/mixer.rs", "        if self.ring_buffer.len() >= self.samples_per_frame() {\n            return;\n        }", ""),
 "c19_ear_mic_swapped": ("rustzx-core/src/zx/controller.rs", "let mic = data & 0x08 != 0;\n                let ear = data & 0x10 != 0;", "let mic = data & 0x10 != 0;\n                let ear = data & 0x08 != 0;"),
 "c20_r13_not_skipped": ("vtx/src/player.rs", "                if idx == 13 && value == 0xFF {\n                    continue;\n                }", ""),
 "c20_spf_rounded_up": ("vtx/src/player.rs", "let samples_per_frame = sample_rate / vtx.player_frequency as usize;", "let samples_per_frame = (sample_rate + vtx.player_frequency as usize - 1) / vtx.player_frequency as usize;"),
 "c20_transpose_swapped": ("vtx/src/lib.rs", "frame_data.push(transposed_frame_data[reg_idx * frames_count + frame_idx]);", "frame_data.push(transposed_frame_data[frame_idx * AY_REGISTER_COUNT + reg_idx]);"),
 "c20_end_one_frame_early": ("vtx/src/lib.rs", "if offset + AY_REGISTER_COUNT > self.frame_data.len() {", "if offset + AY_REGISTER_COUNT >= self.frame_data.len() {"),
}

def _load_extra():
    """mutants written by the tape builder (selftest/mutants_tape.py): (name, check, file, edits)"""
    import importlib.util
    here = os.path.dirname(os.path.abspath(__file__))
    spec = importlib.util.spec_from_file_location("mutants_tape", os.path.join(here, "mutants_tape.py"))
    mod = importlib.util.module_from_spec(spec)
    spec.loader.exec_module(mod)
    for name, check, f, edits in mod.MUTANTS:
        key = "c%s_%s" % (check[1:], name.split("-", 1)[1].replace("-", "_"))
        M[key] = (f, edits)
    # the two stop() mutants refer to the pre-fix body of Tap::stop(); re-expressed on the fixed one
    M["c12_stop_clears_delay"] = ("rustzx-core/src/zx/tape/tap.rs", [("            self.prev_state = self.state;\n            self.state = TapeState::Stop;", "            self.prev_state = self.state;\n            self.delay = 0;\n            self.state = TapeState::Stop;")])
    M["c12_stop_does_not_stop"] = ("rustzx-core/src/zx/tape/tap.rs", [("            self.prev_state = self.state;\n            self.state = TapeState::Stop;", "            self.prev_state = self.state;")])

def main():
    _load_extra()
    if sys.argv[1] == "--list":
        print("\n".join(sorted(M)))
        return
    name, repo = sys.argv[1], sys.argv[2]
    ent = M[name]
    f = ent[0]
    edits = ent[1] if len(ent) == 2 else [(ent[1], ent[2])]
    p = os.path.join(repo, f)
    s = open(p).read()
    for old, new in edits:
        if s.count(old) < 1:
            print("pattern not found in %s: %r" % (f, old[:60]))
            sys.exit(1)
        s = s.replace(old, new)
    open(p, "w").write(s)

if __name__ == "__main__":
    main()
