#!/bin/bash
# selftest/run.sh <mutant-name> <check-id> [tier]   -- mutants are defined in selftest/mutants.py
# Builds a scratch copy of /repo (+ the mutation) and of the harness under /tmp/vst, runs the
# check there and reports whether it fired. /repo itself is never touched.
set -u
ROOT="$(cd "$(dirname "$0")/.." && pwd)"
NAME="$1"; ID="$2"; IDS="$2"; TIER="${3:-quick}"
W=/tmp/vst/w_$$
mkdir -p $W/verif /tmp/vst/target
rsync -a --exclude target --exclude .git /repo/ $W/repo/
rsync -a --exclude target "$ROOT/harness" $W/verif/
cp "$ROOT/known_findings.json" $W/verif/
python3 "$ROOT/selftest/mutants.py" "$NAME" $W/repo || { echo "SELFTEST $NAME: cannot apply"; rm -rf $W; exit 3; }
cd $W/verif/harness
export CARGO_TARGET_DIR=/tmp/vst/target CARGO_NET_OFFLINE=true
exec 8>/tmp/vst/lock; flock 8
if ! cargo build --release --offline >$W/build.log 2>&1; then
  echo "SELFTEST $NAME: mutant does not compile"; tail -20 $W/build.log; rm -rf $W; exit 3
fi
cp /tmp/vst/target/release/vcheck $W/vcheck
case "$IDS" in *C15*)
  cargo build --profile checked --offline >>$W/build.log 2>&1
  mkdir -p $W/verif/harness/target/checked && cp /tmp/vst/target/checked/vcheck $W/verif/harness/target/checked/vcheck ;;
esac
flock -u 8
VERIF_ROOT=$W/verif VERIF_REPO=$W/repo $W/vcheck "$ID" "$TIER" >$W/out.log 2>&1
RC=$?
if [ $RC -eq 1 ]; then echo "SELFTEST $NAME/$ID: CAUGHT ($(grep -c '^VIOLATION' $W/out.log) keys) $(grep -m1 '^  key' $W/out.log | cut -c1-150)";
else echo "SELFTEST $NAME/$ID: MISSED (exit $RC)"; tail -3 $W/out.log; fi
rm -rf $W
exit 0
